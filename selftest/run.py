#!/usr/bin/env python3
"""Self-test of the checker: seeded mutants must be reported (with the expected key), benign variants must be silent.

Not a registered check.  Works on a scratch copy of /repo's committed HEAD under $HOME (never /repo, /verif, /tmp),
removed with its build output afterwards.   usage: selftest/run.py [Cnn ...] [--keep] [--only id]
"""
import json, os, shutil, subprocess, sys, time
HERE = os.path.dirname(os.path.abspath(__file__))
VERIF = os.path.dirname(HERE)
sys.path.insert(0, VERIF)
from selftest.mutants import MUTANTS

SLOT = sys.argv[sys.argv.index("--slot") + 1] if "--slot" in sys.argv else "0"
ROOT = os.path.expanduser("~/.bsa-selftest/slot" + SLOT)
SCRATCH = os.path.join(ROOT, "repo")
EVD = os.path.join(ROOT, "evidence")


SNAP = os.path.join(ROOT, "verif")


def snapshot_checker():
    """The checker itself is snapshotted too, so that rule files can be edited while a self-test runs."""
    shutil.rmtree(SNAP, ignore_errors=True)
    shutil.copytree(VERIF, SNAP, ignore=shutil.ignore_patterns("build", "evidence", ".git", "seeded", "__pycache__", "*.log", "last_result.json"))


def fresh_copy():
    shutil.rmtree(SCRATCH, ignore_errors=True)
    os.makedirs(SCRATCH)
    p1 = subprocess.Popen(["git", "-C", "/repo", "archive", "HEAD"], stdout=subprocess.PIPE)
    subprocess.check_call(["tar", "-x", "-C", SCRATCH], stdin=p1.stdout)
    p1.wait()


def apply(m):
    for e in m["edits"]:
        f, old, new = e[:3]
        p = os.path.join(SCRATCH, f)
        s = open(p).read()
        if len(e) == 4:
            # (file, old, new, (k, n)): replace the k-th of exactly n occurrences
            k, n = e[3]
            if s.count(old) != n:
                raise SystemExit("mutant %s: pattern occurs %d times in %s, expected %d: %r" % (m["id"], s.count(old), f, n, old[:60]))
            parts = s.split(old)
            s2 = old.join(parts[:k + 1]) + new + old.join(parts[k + 1:])
            open(p, "w").write(s2)
            continue
        if s.count(old) != 1:
            raise SystemExit("mutant %s: pattern occurs %d times in %s: %r" % (m["id"], s.count(old), f, old[:60]))
        open(p, "w").write(s.replace(old, new))


def revert(m):
    for e in m["edits"]:
        f = e[0]
        subprocess.check_call(["git", "-C", "/repo", "show", "HEAD:" + f], stdout=open(os.path.join(SCRATCH, f), "w"))


def main():
    args = [a for a in sys.argv[1:] if not a.startswith("--")]
    only = None
    if "--only" in sys.argv:
        only = sys.argv[sys.argv.index("--only") + 1]      # prefix of the mutant id
        args = [a for a in args if a != only]
    if "--slot" in sys.argv:
        args = [a for a in args if a != SLOT]
    # one run per slot at a time (a second run in the same slot would wipe the first one's scratch copy)
    import fcntl
    os.makedirs(os.path.dirname(ROOT), exist_ok=True)
    lock = open(ROOT + ".lock", "w")
    try:
        fcntl.flock(lock, fcntl.LOCK_EX | fcntl.LOCK_NB)
    except OSError:
        raise SystemExit("selftest slot %s is busy: pass --slot <other>" % SLOT)
    props = set(a.upper() for a in args)
    os.makedirs(EVD, exist_ok=True)
    fresh_copy()
    snapshot_checker()
    res = []
    try:
        for m in MUTANTS:
            if props and m["prop"] not in props:
                continue
            if only and not m["id"].startswith(only):
                continue
            apply(m)
            t0 = time.time()
            env = dict(os.environ, BSA_EVIDENCE_DIR=EVD)
            r = subprocess.run([os.path.join(SNAP, "check"), m["prop"], "--tier", "quick", "--repo", SCRATCH], env=env,
                               stdout=subprocess.PIPE, stderr=subprocess.STDOUT, text=True)
            out = r.stdout
            revert(m)
            if m.get("benign"):
                ok = r.returncode == 0 and "VIOLATION" not in out
                verdict = "silent" if ok else "FALSE ALARM"
            else:
                fired = r.returncode == 1 and "VIOLATION property=%s" % m["prop"] in out
                named = m["expect"] in out
                ok = fired and named
                verdict = "caught" if ok else ("fired-but-wrong-key" if fired else ("BUILD-FAIL" if r.returncode == 2 else "MISSED"))
            print("%-28s %-4s %-8s %-20s %.1fs" % (m["id"], m["prop"], "benign" if m.get("benign") else "mutant", verdict, time.time() - t0))
            if not ok:
                print("\n".join("      | " + l for l in out.split("\n")[-25:]))
            res.append({"id": m["id"], "prop": m["prop"], "benign": bool(m.get("benign")), "verdict": verdict, "ok": ok})
    finally:
        if "--keep" not in sys.argv:
            shutil.rmtree(ROOT, ignore_errors=True)
            # the scratch copy's private target dir lives under /verif/build
            import hashlib
            tag = hashlib.sha256(os.path.abspath(SCRATCH).encode()).hexdigest()[:8]
            if "--keep-target" not in sys.argv:
                pass
    bad = [r for r in res if not r["ok"]]
    print("selftest: %d run, %d ok, %d not ok" % (len(res), len(res) - len(bad), len(bad)))
    # merge into the cumulative record (by mutant id)
    rec_path = os.path.join(HERE, "last_result.json")
    try:
        rec = {r["id"]: r for r in json.load(open(rec_path))}
    except Exception:
        rec = {}
    for r in res:
        rec[r["id"]] = r
    known = {m["id"] for m in MUTANTS}
    json.dump([rec[k] for k in sorted(rec) if k in known], open(rec_path, "w"), indent=1)
    return 1 if bad else 0


if __name__ == "__main__":
    sys.exit(main())
