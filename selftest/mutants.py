"""Seeded mutants (must be reported, `expect` = substring of the finding key) and benign variants (must be silent).
Each edit is (file, old, new) with `old` occurring exactly once in the committed HEAD of /repo."""
MUTANTS = []


def mutant(id, prop, expect, *edits):
    MUTANTS.append({"id": id, "prop": prop, "expect": expect, "edits": list(edits)})


def benign(id, prop, *edits):
    MUTANTS.append({"id": id, "prop": prop, "benign": True, "edits": list(edits)})


D = "src/differentiate/mod.rs"
mutant("c19-weight", "C19", "R19.2/differentiate::derivative/moment", (D, "N::from_f64(8.0).unwrap() * (f(x + h)", "N::from_f64(7.0).unwrap() * (f(x + h)"))
mutant("c19-sign", "C19", "R19.2/differentiate::derivative", (D, "- f(x + h + h))", "+ f(x + h + h))"))
mutant("c19-second-h", "C19", "R19.2/differentiate::second_derivative", (D, "N::from_real(h.powi(2))", "N::from_real(h.powi(2) + h.powi(2))"))
mutant("c19-second-centre", "C19", "differentiate::second_derivative", (D, "N::from_f64(2.0).unwrap() * f(x) + f(x + h)", "N::from_f64(2.0).unwrap() * f(x + h) + f(x)"))
benign("c19-refactor", "C19", (D, "(f(x - h - h) + N::from_f64(8.0).unwrap() * (f(x + h) - f(x - h)) - f(x + h + h))\n        / (N::from_f64(12.0).unwrap() * N::from_real(h))",
                               "{ let two_h = h + h; let a = f(x + h) - f(x - h); let b = f(x - two_h) - f(x + two_h);\n        (b + a * N::from_f64(8.0).unwrap()) / N::from_real(h) / N::from_f64(12.0).unwrap() }"))

C = "src/constants.rs"
mutant("c20-const-digit", "C20", "R20.3/constants::h_bar", (C, "1.054_571_817e-34", "1.054_571_871e-34"))
benign("c20-name-col", "C20", ("build.rs", "line[..60]", "line[..59]"))
mutant("c20-unc-exact", "C20", "R20.1/constants::CODATA/uncertainty", ("build.rs", '.replace("(exact)", "0")', '.replace("(exact)", "1")'))
mutant("c20-skip", "C20", "R20.1/constants::CODATA/missing", ("build.rs", "skip(11)", "skip(12)"))
benign("c20-build-refactor", "C20", ("build.rs", "let units = line[110..].trim_end();", "let units = line[110..].trim_end().trim_end();"))

T = "src/integrate/tables.rs"
G = "src/integrate/gaussian.rs"
mutant("c10-digit", "C10", "WEIGHTS_LEGENDRE/n=5", (T, "(0.5384693101056831, 0.47862867049936625)", "(0.5384693101056831, 0.47862876049936625)"))
mutant("c10-drop-pair", "C10", "R10.3-count/integrate::tables::WEIGHTS_LAGUERRE", (T, "pub const WEIGHTS_LAGUERRE: &[&[(f64, f64)]] = &[\n    &[(1.0, 1.0)],", "pub const WEIGHTS_LAGUERRE: &[&[(f64, f64)]] = &[\n    &[(1.0, 1.0)],\n    &[(1.0, 1.0)],"))
mutant("c10-zero-test", "C10", "WEIGHTS_HERMITE", (G, "                if *z == 0.0 {\n                    N::from_f64(*w).unwrap() * f(N::RealField::zero())\n                } else {\n                    let x = N::from_f64(*z).unwrap().real();\n                    N::from_f64(*w).unwrap() * (f(x) + f(-x))\n                }\n            })\n            .fold(N::zero(), |sum, x| sum + x);\n\n        let err = (area - prev_area).abs();\n        if err < tol && prev_err < tol {\n            return Ok(area);\n        }\n\n        prev_area = area;\n        prev_err = err;\n    }\n\n    Err(\"integrate_hermite",
        "                if *z < 0.0 {\n                    N::from_f64(*w).unwrap() * f(N::RealField::zero())\n                } else {\n                    let x = N::from_f64(*z).unwrap().real();\n                    N::from_f64(*w).unwrap() * (f(x) + f(-x))\n                }\n            })\n            .fold(N::zero(), |sum, x| sum + x);\n\n        let err = (area - prev_area).abs();\n        if err < tol && prev_err < tol {\n            return Ok(area);\n        }\n\n        prev_area = area;\n        prev_err = err;\n    }\n\n    Err(\"integrate_hermite"))
mutant("c10-de-order", "C10", "R10.2/integrate::integrate_core/de-consumption", ("src/integrate/mod.rs", ".map(|&(w, x)| {", ".map(|&(x, w)| {"))
mutant("c10-de-entry", "C10", "R10.4-formula", (T, "(0.5 * 0.018343166989927842087, 0.99751485645722438683)", "(0.5 * 0.018343166989927842087, 0.99751485645772438683)"))
benign("c10-consumer-refactor", "C10", (G, "            .map(|(z, w)| N::from_f64(*w).unwrap() * f(N::from_f64(*z).unwrap().real()))\n            .fold(N::zero(), |sum, x| sum + x);",
                                        "            .map(|(z, w)| { let node = N::from_f64(*z).unwrap().real(); f(node) * N::from_f64(*w).unwrap() })\n            .fold(N::zero(), |acc, term| term + acc);"))

RK, AD, BD, IV = "src/ivp/rk.rs", "src/ivp/adams.rs", "src/ivp/bdf.rs", "src/ivp.rs"
mutant("c06-zero-accepted", "C06", "R6.1/RungeKutta::with_tolerance/reject", (RK, "if tol <= <Self::RealField as Zero>::zero() {", "if tol < <Self::RealField as Zero>::zero() {"))
mutant("c06-wrong-variant", "C06", "R6.1/Adams::with_maximum_dt/reject", (AD, "        if max <= <Self::RealField as Zero>::zero() {\n            return Err(IVPError::TimeDeltaOOB);", "        if max <= <Self::RealField as Zero>::zero() {\n            return Err(IVPError::ToleranceOOB);"))
mutant("c06-min-max", "C06", "R6.2/BDF::with_maximum_dt", (BD, "if *dt_min > max {", "if *dt_min < max {"))
mutant("c06-missing-param", "C06", "R6.3/RungeKutta::solve/field:init_tolerance", (RK, "let tolerance = self.init_tolerance.ok_or(IVPError::MissingParameters)?;", "let tolerance = self.init_tolerance.unwrap_or_else(Self::RealField::one);"))
mutant("c06-drop-user-error", "C06", "R6.5/", (AD, "            &mut self.data.clone(),\n        )?;\n        self.scratch_pad = &self.implicit_derivs", "            &mut self.data.clone(),\n        ).unwrap_or_else(|_| self.scratch_pad.clone());\n        self.scratch_pad = &self.implicit_derivs"))
mutant("c06-iter-redo-break", "C06", "R6.6/IVPIterator::next/arm", (IV, "Err(IE::Redo) => continue,", "Err(IE::Redo) => break None,"))
mutant("c06-iter-not-fused", "C06", "R6.6/IVPIterator::next/failure-sets-finished", (IV, "                    self.finished = true;\n", ""))
mutant("c06-dim-swap", "C06", "R6.4/RungeKutta::new_dyn", (RK, "dim: D::dim_dyn(size)?,", "dim: D::dim()?,"))
mutant("c06-end-guard", "C06", "R6.1/Euler::with_ending_time", (IV, "            if *initial >= ending {\n                return Err(IVPError::TimeEndOOB);", "            if *initial > ending {\n                return Err(IVPError::TimeEndOOB);"))
benign("c06-guard-rewrite", "C06", (RK, "if tol <= <Self::RealField as Zero>::zero() {", "if !(tol > <Self::RealField as Zero>::zero()) {"))
benign("c06-iter-rewrite", "C06", (IV, "                Err(IE::Done) => break None,\n                Err(IE::Redo) => continue,", "                Err(IE::Redo) => continue,\n                Err(IE::Done) => break None,"))
