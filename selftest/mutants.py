"""Seeded mutants (must be reported, `expect` = substring of the finding key) and benign variants (must be silent).
Each edit is (file, old, new) with `old` occurring exactly once in the committed HEAD of /repo."""
MUTANTS = []


def mutant(id, prop, expect, *edits):
    MUTANTS.append({"id": id, "prop": prop, "expect": expect, "edits": list(edits)})


def benign(id, prop, *edits):
    MUTANTS.append({"id": id, "prop": prop, "benign": True, "edits": list(edits)})


D = "src/differentiate/mod.rs"
mutant("c19-weight", "C19", "R19.2/differentiate::derivative/moment", (D, "N::from_f64(8.0).unwrap() * (f(x + h)", "N::from_f64(7.0).unwrap() * (f(x + h)"))
mutant("c19-sign", "C19", "R19.2/differentiate::derivative", (D, "- f(x + h + h))", "+ f(x + h + h))"))
mutant("c19-second-h", "C19", "R19.2/differentiate::second_derivative", (D, "N::from_real(h.powi(2))", "N::from_real(h.powi(2) + h.powi(2))"))
mutant("c19-second-centre", "C19", "differentiate::second_derivative", (D, "N::from_f64(2.0).unwrap() * f(x) + f(x + h)", "N::from_f64(2.0).unwrap() * f(x + h) + f(x)"))
benign("c19-refactor", "C19", (D, "(f(x - h - h) + N::from_f64(8.0).unwrap() * (f(x + h) - f(x - h)) - f(x + h + h))\n        / (N::from_f64(12.0).unwrap() * N::from_real(h))",
                               "{ let two_h = h + h; let a = f(x + h) - f(x - h); let b = f(x - two_h) - f(x + two_h);\n        (b + a * N::from_f64(8.0).unwrap()) / N::from_real(h) / N::from_f64(12.0).unwrap() }"))

C = "src/constants.rs"
mutant("c20-const-digit", "C20", "R20.3/constants::h_bar", (C, "1.054_571_817e-34", "1.054_571_871e-34"))
benign("c20-name-col", "C20", ("build.rs", "line[..60]", "line[..59]"))
mutant("c20-unc-exact", "C20", "R20.1/constants::CODATA/uncertainty", ("build.rs", '.replace("(exact)", "0")', '.replace("(exact)", "1")'))
mutant("c20-skip", "C20", "R20.1/constants::CODATA/missing", ("build.rs", "skip(11)", "skip(12)"))
benign("c20-build-refactor", "C20", ("build.rs", "let units = line[110..].trim_end();", "let units = line[110..].trim_end().trim_end();"))

T = "src/integrate/tables.rs"
G = "src/integrate/gaussian.rs"
mutant("c10-digit", "C10", "WEIGHTS_LEGENDRE/n=5", (T, "(0.5384693101056831, 0.47862867049936625)", "(0.5384693101056831, 0.47862876049936625)"))
mutant("c10-drop-pair", "C10", "R10.3-count/integrate::tables::WEIGHTS_LAGUERRE", (T, "pub const WEIGHTS_LAGUERRE: &[&[(f64, f64)]] = &[\n    &[(1.0, 1.0)],", "pub const WEIGHTS_LAGUERRE: &[&[(f64, f64)]] = &[\n    &[(1.0, 1.0)],\n    &[(1.0, 1.0)],"))
mutant("c10-zero-test", "C10", "WEIGHTS_HERMITE", (G, "                if *z == 0.0 {\n                    N::from_f64(*w).unwrap() * f(N::RealField::zero())\n                } else {\n                    let x = N::from_f64(*z).unwrap().real();\n                    N::from_f64(*w).unwrap() * (f(x) + f(-x))\n                }\n            })\n            .fold(N::zero(), |sum, x| sum + x);\n\n        let err = (area - prev_area).abs();\n        if err < tol && prev_err < tol {\n            return Ok(area);\n        }\n\n        prev_area = area;\n        prev_err = err;\n    }\n\n    Err(\"integrate_hermite",
        "                if *z < 0.0 {\n                    N::from_f64(*w).unwrap() * f(N::RealField::zero())\n                } else {\n                    let x = N::from_f64(*z).unwrap().real();\n                    N::from_f64(*w).unwrap() * (f(x) + f(-x))\n                }\n            })\n            .fold(N::zero(), |sum, x| sum + x);\n\n        let err = (area - prev_area).abs();\n        if err < tol && prev_err < tol {\n            return Ok(area);\n        }\n\n        prev_area = area;\n        prev_err = err;\n    }\n\n    Err(\"integrate_hermite"))
mutant("c10-de-order", "C10", "R10.2/integrate::integrate_core/de-consumption", ("src/integrate/mod.rs", ".map(|&(w, x)| {", ".map(|&(x, w)| {"))
mutant("c10-de-entry", "C10", "R10.4-formula", (T, "(0.5 * 0.018343166989927842087, 0.99751485645722438683)", "(0.5 * 0.018343166989927842087, 0.99751485645772438683)"))
benign("c10-consumer-refactor", "C10", (G, "            .map(|(z, w)| N::from_f64(*w).unwrap() * f(N::from_f64(*z).unwrap().real()))\n            .fold(N::zero(), |sum, x| sum + x);",
                                        "            .map(|(z, w)| { let node = N::from_f64(*z).unwrap().real(); f(node) * N::from_f64(*w).unwrap() })\n            .fold(N::zero(), |acc, term| term + acc);"))

mutant("c10-fold-keeps-last", "C10", "R10.2/integrate::gaussian::integrate_laguerre/fold-is-sum", (G, "            .map(|(z, w)| N::from_f64(*w).unwrap() * f(N::from_f64(*z).unwrap().real()))\n            .fold(N::zero(), |sum, x| sum + x);",
                                       "            .map(|(z, w)| N::from_f64(*w).unwrap() * f(N::from_f64(*z).unwrap().real()))\n            .fold(N::zero(), |_sum, x| x);"))
mutant("c10-de-centre", "C10", "R10.4/integrate::integrate_core", ("src/integrate/mod.rs", "let mut integral = pi * f(N::RealField::zero());", "let mut integral = f(N::RealField::zero());"))
mutant("c10-de-no-halving", "C10", "R10.4/integrate::integrate_core", ("src/integrate/mod.rs", "integral = half * integral + new_contribution;", "integral = integral + new_contribution;"))
benign("c10-de-explicit-loop", "C10", ("src/integrate/mod.rs", "        current_delta = (half * integral - new_contribution).abs();\n        integral = half * integral + new_contribution;",
                                        "        let halved = half * integral;\n        current_delta = (halved - new_contribution).abs();\n        integral = new_contribution + halved;"))

RK, AD, BD, IV = "src/ivp/rk.rs", "src/ivp/adams.rs", "src/ivp/bdf.rs", "src/ivp.rs"
mutant("c06-zero-accepted", "C06", "R6.1/RungeKutta::with_tolerance/reject", (RK, "if tol <= <Self::RealField as Zero>::zero() {", "if tol < <Self::RealField as Zero>::zero() {"))
mutant("c06-wrong-variant", "C06", "R6.1/Adams::with_maximum_dt/reject", (AD, "        if max <= <Self::RealField as Zero>::zero() {\n            return Err(IVPError::TimeDeltaOOB);", "        if max <= <Self::RealField as Zero>::zero() {\n            return Err(IVPError::ToleranceOOB);"))
mutant("c06-min-max", "C06", "R6.2/BDF::with_maximum_dt", (BD, "if *dt_min > max {", "if *dt_min < max {"))
mutant("c06-missing-param", "C06", "R6.3/RungeKutta::solve/field:init_tolerance", (RK, "let tolerance = self.init_tolerance.ok_or(IVPError::MissingParameters)?;", "let tolerance = self.init_tolerance.unwrap_or_else(Self::RealField::one);"))
mutant("c06-drop-user-error", "C06", "R6.5/", (AD, "            &mut self.data.clone(),\n        )?;\n        self.scratch_pad = &self.implicit_derivs", "            &mut self.data.clone(),\n        ).unwrap_or_else(|_| self.scratch_pad.clone());\n        self.scratch_pad = &self.implicit_derivs"))
mutant("c06-iter-redo-break", "C06", "R6.6/IVPIterator::next/scenario:redo", (IV, "Err(IE::Redo) => continue,", "Err(IE::Redo) => break None,"))
mutant("c06-iter-not-fused", "C06", "R6.6/IVPIterator::next/scenario:failure", (IV, "                    self.finished = true;\n", ""))
mutant("c06-dim-swap", "C06", "R6.4/RungeKutta::new_dyn", (RK, "dim: D::dim_dyn(size)?,", "dim: D::dim()?,"))
mutant("c06-end-guard", "C06", "R6.1/Euler::with_ending_time", (IV, "            if *initial >= ending {\n                return Err(IVPError::TimeEndOOB);", "            if *initial > ending {\n                return Err(IVPError::TimeEndOOB);"))
benign("c06-guard-rewrite", "C06", (RK, "if tol <= <Self::RealField as Zero>::zero() {", "if !(tol > <Self::RealField as Zero>::zero()) {"))
benign("c06-iter-rewrite", "C06", (IV, "                Err(IE::Done) => break None,\n                Err(IE::Redo) => continue,", "                Err(IE::Redo) => continue,\n                Err(IE::Done) => break None,"))

# ---- C03
mutant("c03-rk45-transposed", "C03", "R3.1-explicit/ivp::rk::RKCoefficients45", (RK, "let two_one_nine_seven = Self::RealField::from_u16(2197)?;\n\n        Some(BSMatrix::from_row_slice(&[", "let two_one_nine_seven = Self::RealField::from_u16(2197)?;\n\n        Some(BSMatrix::from_column_slice(&["))
mutant("c03-rk45-4014", "C03", "ivp::rk::RKCoefficients45", (RK, "from_u16(1859)? / Self::RealField::from_u16(4104)?", "from_u16(1859)? / Self::RealField::from_u16(4014)?"))
mutant("c03-bs23-sign", "C03", "ivp::rk::RK23Coefficients::error_coefficients", (RK, "            -Self::RealField::from_u8(8)?.recip(),\n        ]))", "            Self::RealField::from_u8(8)?.recip(),\n        ]))"))
mutant("c03-rk45-c", "C03", "R3.1-rowsum/ivp::rk::RKCoefficients45", (RK, "            three / eight,\n", "            eight / three,\n"))
mutant("c03-rk-rowiter", "C03", "R3.1", (RK, "self.k_coefficients.row_iter().enumerate()", "self.k_coefficients.column_iter().enumerate()"))
mutant("c03-rk4-half", "C03", "R3.2/ivp::adams::AdamsSolver::runge_kutta", (AD, "let intermediate = &self.state + &k3;", "let intermediate = &self.state + &k3 * self.half;"))
mutant("c03-adams-index", "C03", "R3.3-predictor", (AD, "self.predictor_coefficients[O - i - 2]", "self.predictor_coefficients[O - i - 1]"))
mutant("c03-adams-digit", "C03", "R3.3-corrector/ivp::adams::AdamsCoefficients5", (AD, "from_u16(646)?", "from_u16(664)?"))
mutant("c03-adams-implicit-time", "C03", "R3.3/ivp::adams::AdamsCoefficients5/implicit-time", (AD, "            self.time.real() + self.dt.real(),\n            predictor.as_slice(),", "            self.time.real(),\n            predictor.as_slice(),"))
mutant("c03-adams-lag", "C03", "R3.6", (AD, "                self.prev_derivatives\n                    .push_back(self.implicit_derivs.clone());\n                self.prev_derivatives.pop_front();\n                return Err(IVPStatus::Redo);", "                return Err(IVPStatus::Redo);"))
mutant("c03-bdf-digit", "C03", "R3.4-formula/ivp::bdf::BDF6Coefficients::higher_coefficients", (BD, "Self::RealField::from_u16(450)? / one_hundred_forty_seven.clone()", "Self::RealField::from_u16(540)? / one_hundred_forty_seven.clone()"))
mutant("c03-bdf-lower", "C03", "R3.4-formula", (BD, "for (ind, &coeff) in bdf.lower_coefficients.column(0)", "for (ind, &coeff) in bdf.higher_coefficients.column(0)"))
mutant("c03-bdf-time", "C03", "R3.4-time/BDFSolver::secant", (BD, "            derivative = g(\n                self,\n                (self.time + self.dt).real(),", "            derivative = g(\n                self,\n                self.time.real(),"))
mutant("c03-bdf-jac", "C03", "R3.5/", (BD, "((above - below) * denom)", "((above + below) * denom)"))
mutant("c03-bdf-hist-index", "C03", "R3.4", (BD, "bdf.higher_coefficients[0];\n            for (ind, &coeff) in bdf.higher_coefficients.column(0).iter().enumerate().skip(1) {\n                bdf.scratch_pad += &bdf.prev_values[O - ind].1 * coeff;", "bdf.higher_coefficients[0];\n            for (ind, &coeff) in bdf.higher_coefficients.column(0).iter().enumerate().skip(1) {\n                bdf.scratch_pad += &bdf.prev_values[O - ind - 1].1 * coeff;"))
mutant("c03-euler-pair", "C03", "R3.7/EulerSolver::step/yields-pre-update-pair", (IV, "Ok((old_time, old_state))", "Ok((self.time.real(), old_state))"))
benign("c03-rk4-refactor", "C03", (AD, "self.state += (k1 + k2 * self.two + k3 * self.two + k4) * self.one_sixth;", "self.state += (k1 + (k2 + k3) * self.two + k4) * self.one_sixth;"))
benign("c03-bs23-refactor", "C03", (RK, "            -Self::RealField::from_u8(5)? / Self::RealField::from_u8(72)?,\n            Self::RealField::from_u8(12)?.recip(),", "            -(Self::RealField::from_u8(10)? / Self::RealField::from_u8(144)?),\n            Self::RealField::from_u8(2)? / Self::RealField::from_u8(24)?,"))

# ---- C01
mutant("c01-clamp-flip", "C01", "R1.3/RungeKuttaSolver::step", (RK, "if self.dt.real() > self.dt_max.real() {", "if self.dt.real() < self.dt_max.real() {"))
mutant("c01-clamp-removed", "C01", "R1.3/BDFSolver::step/grow-then-clamp", (BD, "                self.dt *= self.two;\n                if self.dt.real() > self.dt_max.real() {\n                    self.dt = self.dt_max;\n                }\n", "                self.dt *= self.two;\n"))
mutant("c01-grow-after-clamp", "C01", "R1.3/AdamsSolver::step/grow-then-clamp", (AD, "                if self.dt.real() > self.dt_max.real() {\n                    self.dt = self.dt_max;\n                }\n\n                // Clear the saved steps", "                if self.dt.real() > self.dt_max.real() {\n                    self.dt = self.dt_max;\n                }\n                self.dt *= self.two;\n\n                // Clear the saved steps"))
mutant("c01-clip-wrong-m", "C01", "R1.", (AD, "self.dt = (self.end - self.time) / (self.order - Self::Field::one());", "self.dt = (self.end - self.time) / (self.order - self.two);"))
mutant("c01-end-test-late", "C01", "R1.2a/RungeKuttaSolver::step", (RK, "        if self.time.real() >= self.end.real() {\n            return Err(IVPStatus::Done);\n        }\n\n        if self.time.real() + self.dt.real() >= self.end.real() {\n            self.dt = self.end - self.time;\n        }\n", "        if self.time.real() + self.dt.real() >= self.end.real() {\n            self.dt = self.end - self.time;\n        }\n"))
mutant("c01-rk-no-clip", "C01", "R1.2b/RungeKuttaSolver::step", (RK, "        if self.time.real() + self.dt.real() >= self.end.real() {\n            self.dt = self.end - self.time;\n        }\n\n        for (i, k_row)", "        for (i, k_row)"))
mutant("c01-sentinel-off-by-one", "C01", "R1.4", (AD, "                self.yield_memory = O + 1;\n            }\n            return Ok(self.prev_values[get_item].clone());", "                self.yield_memory = O + 2;\n            }\n            return Ok(self.prev_values[get_item].clone());"))
mutant("c01-get-item-off", "C01", "R1.4-T", (BD, "let get_item = O - self.yield_memory;", "let get_item = O - self.yield_memory + 1;"))
mutant("c01-bdf-rollback", "C01", "R1.4-T3", (BD, "self.time -= self.dt * self.order;", "self.time -= self.dt * (self.order - self.two);"))
mutant("c01-adams-rollback-no-restore", "C01", "R1.4", (AD, "            self.time -= self.dt * (self.order - Self::Field::one());\n            self.state = self.save_state.clone();", "            self.time -= self.dt * (self.order - Self::Field::one());"))
mutant("c01-yield-old-time", "C01", "R1.", (BD, "            self.prev_values.pop_front();\n            return Ok((self.time.real(), self.state.clone()));\n        }\n\n        if self.time.real() >= self.end.real() {", "            let stale = self.prev_values.pop_front().unwrap();\n            return Ok((stale.0, self.state.clone()));\n        }\n\n        if self.time.real() >= self.end.real() {"))
mutant("c01-initial-dt", "C01", "R1.3/Adams::solve/initial-dt-convex", (AD, "dt: Self::Field::from_real(dt_max + dt_min) * half,", "dt: Self::Field::from_real(dt_max + dt_min),"))
benign("c01-clamp-min", "C01", (BD, "                if self.dt.real() > self.dt_max.real() {\n                    self.dt = self.dt_max;\n                }\n", "                if self.dt.real() >= self.dt_max.real() {\n                    self.dt = self.dt_max;\n                }\n"))
mutant("c03-adams-lag2", "C03", "R3.6", (AD, "                self.prev_derivatives\n                    .push_back(self.implicit_derivs.clone());\n                self.prev_derivatives.pop_front();\n                return Err(IVPStatus::Redo);", "                return Err(IVPStatus::Redo);"))

# ---- C02
mutant("c02-rk-accept-flipped", "C02", "R2.", (RK, "        if error <= self.tolerance.real() {\n            self.time += self.dt;", "        if error >= self.tolerance.real() {\n            self.time += self.dt;"))
mutant("c02-adams-wrong-bound", "C02", "R2.1/AdamsSolver::step", (AD, "        if error <= self.tolerance.real() {\n            self.state = corrector;", "        if error <= self.dt_min.real() {\n            self.state = corrector;"))
mutant("c02-bdf-commit-before-test", "C02", "R2.1/BDFSolver::step/commit", (BD, "        if error <= self.tolerance.real() {\n            self.state = higher_step;\n            self.time += self.dt;", "        self.state = higher_step.clone();\n        if error <= self.tolerance.real() {\n            self.state = higher_step;\n            self.time += self.dt;"))
mutant("c02-rk-second-predicate", "C02", "R2.2/RungeKuttaSolver::step", (RK, "        if error <= self.tolerance.real() {\n            Ok((self.time.real(), self.state.clone()))", "        if error <= self.dt_max.real() {\n            Ok((self.time.real(), self.state.clone()))"))
mutant("c02-rk-estimate-not-per-step", "C02", "R2.3-estimate/RungeKuttaSolver::step", (RK, "let error = self.scratch_pad.norm() / self.dt.real();", "let error = self.scratch_pad.norm();"))
mutant("c02-bdf-estimate", "C02", "R2.3-estimate/BDFSolver::step", (BD, "let difference = &higher_step - &lower_step;", "let difference = &higher_step - &self.state;"))
mutant("c02-adams-error-coeff-sign", "C02", "R2.3-estimate/ivp::adams", (AD, "let error = self.error_coefficient.real() / self.dt.real() * difference.norm();", "let error = -self.error_coefficient.real() / self.dt.real() * difference.norm();"))
benign("c02-accept-rewrite", "C02", (BD, "        if error <= self.tolerance.real() {\n            self.state = higher_step;", "        if self.tolerance.real() >= error {\n            self.state = higher_step;"))

# ---- C05
mutant("c05-min-dt-wrong-guard", "C05", "R5.1", (RK, "if self.dt.real() < self.dt_min.real() && self.time.real() < self.end.real() {", "if self.dt.real() < self.dt_max.real() && self.time.real() < self.end.real() {"))
mutant("c05-adams-no-min-test", "C05", "R5.2/AdamsSolver::step", (AD, "        if self.dt.real() < self.dt_min.real() {\n            return Err(IVPStatus::Failure(IVPError::MinimumTimeDeltaExceeded));\n        }\n\n        self.prev_values.clear();\n        self.prev_derivatives.clear();\n        Err(IVPStatus::Redo)", "        self.prev_values.clear();\n        self.prev_derivatives.clear();\n        Err(IVPStatus::Redo)"))
mutant("c05-bdf-reject-grows", "C05", "R5.4/BDFSolver::step/reject-shrinks", (BD, "        self.dt *= self.half;\n\n        if self.dt.real() < self.dt_min.real() {", "        self.dt *= self.two;\n\n        if self.dt.real() < self.dt_min.real() {"))
mutant("c05-secant-unbounded", "C05", "R5.3", (BD, "                return Ok(guess);\n            }\n            n += 1;\n        }\n\n        Err(IVPError::MaximumIterationsExceeded)", "                return Ok(guess);\n            }\n            n += 0;\n        }\n\n        Err(IVPError::MaximumIterationsExceeded)"))
mutant("c05-one-tenth", "C05", "R5.4/RungeKutta::solve/const:one_tenth", (RK, "Self::Field::one() / Self::Field::from_u8(10).ok_or(IVPError::FromPrimitiveFailure)?;", "Self::Field::from_u8(10).ok_or(IVPError::FromPrimitiveFailure)?;"))
mutant("c05-rk-redo-before-update", "C05", "R5.2/RungeKuttaSolver::step", (RK, "        let delta = self.point_eighty_four.real()", "        if error > self.tolerance.real() && self.dt.real() > self.dt_min.real() {\n            return Err(IVPStatus::Redo);\n        }\n        let delta = self.point_eighty_four.real()"))
benign("c05-secant-bound", "C05", (BD, "while n < 1000 {", "while n <= 999 {"))

# ---- C07
RT = "src/roots/mod.rs"
mutant("c07-bisect-midpoint", "C07", "R7.2/roots::bisection/entry-midpoint-in-hull", (RT, "let mut half_interval = (right - left) * half;", "let mut half_interval = (left - right) * half;"))
mutant("c07-bisect-origin", "C07", "R7.3/roots::bisection/success-disjunct", (RT, "if (middle - middle_new).abs() < tol * middle_new.abs().max(N::one()) {", "if (middle - middle_new).abs() < tol * middle_new.abs().max(N::one()) || middle_new.abs() < tol {"))
mutant("c07-bisect-no-order-guard", "C07", "R7.1/roots::bisection/guard:left<right", (RT, "    if left >= right {\n        return Err(\"Bisection: requirement: right > left\".to_owned());\n    }\n", ""))
mutant("c07-bisect-cache", "C07", "R7.4/roots::bisection/attached", (RT, "            left = middle;\n            f_a = f_p;\n", "            left = middle;\n"))
mutant("c07-bisect-wrong-end", "C07", "R7.", (RT, "        } else {\n            right = middle;\n        }\n\n        half_interval = (right - left) * half;", "        } else {\n            right = middle + half_interval;\n        }\n\n        half_interval = (right - left) * half;"))
mutant("c07-brent-sign-guard", "C07", "R7.1/roots::brent/guard:sign-change", (RT, "    if !(f_left * f_right).is_sign_negative() {\n        return Err(\"brent: initial guesses do not bracket root\".to_owned());\n    }\n", ""))
mutant("c07-brent-cache", "C07", "R7.4/roots::brent/attached", (RT, "            right = s;\n            f_right = f_s;\n        } else {\n            left = s;\n            f_left = f_s;", "            right = s;\n            f_right = f_s;\n        } else {\n            left = s;\n            f_left = f_right;"))
mutant("c07-itp-k2", "C07", "R7.1/roots::itp/guard:k_2", (RT, "if k_2 <= N::one() || k_2 >=", "if k_2 < N::zero() || k_2 >="))
mutant("c07-itp-sigma", "C07", "R7.5/roots::itp", (RT, "let sigma = (x_half - x_f).signum();", "let sigma = (x_half - x_f) / (x_half - x_f).abs();"))
mutant("c07-itp-signs", "C07", "R7.6/roots::itp", (RT, "        if f_itp > N::zero() {\n            right = x_itp;\n            f_right = f_itp;\n        } else if f_itp < N::zero() {", "        if f_itp.is_sign_positive() {\n            right = x_itp;\n            f_right = f_itp;\n        } else if f_itp.is_sign_negative() {"))
mutant("c07-itp-tol-guard", "C07", "R7.1/roots::itp/guard:tol", (RT, "    if !tol.is_sign_positive() {\n        return Err(\"itp: tolerance must be positive\".to_owned());\n    }\n", ""))
benign("c07-bisect-refactor", "C07", (RT, "        half_interval = (right - left) * half;\n\n        let middle_new = left + half_interval;", "        half_interval = (right - left) * half;\n\n        let middle_new = right - half_interval;"))

# ---- C08
RP = "src/roots/polynomial.rs"
mutant("c08-jac-plus", "C08", "R8.1/roots::jac_finite_diff/sum-of-weights", (RT, "let jac_col = (above - below) * denom;", "let jac_col = (above + below) * denom;"))
mutant("c08-jac-denom", "C08", "R8.1/roots::jac_finite_diff/first-moment", (RT, "    let h = N::from_real(h);\n    let denom = N::one() / (N::from_i32(2).unwrap() * h);\n\n    for col in 0..mat.row(0).len() {", "    let h = N::from_real(h);\n    let denom = N::one() / h;\n\n    for col in 0..mat.row(0).len() {"))
mutant("c08-jac-not-restored", "C08", "R8.1/roots::jac_finite_diff/restored", (RT, "        let below = f(x.as_slice());\n        x[col] += h;\n        let jac_col", "        let below = f(x.as_slice());\n        let jac_col"))
mutant("c08-newton-norm-test", "C08", "R8.2/roots::newton/success", (RT, "if adjustment.norm() <= tol {", "if (guess.norm() - new_guess.norm()).abs() <= tol {"))
mutant("c08-newton-origin", "C08", "R8.2/roots::newton/early-success", (RT, "    let mut guess = SVector::<N, S>::from_column_slice(initial);\n    let mut n = 0;\n\n    while n < n_max {\n        let f_val", "    let mut guess = SVector::<N, S>::from_column_slice(initial);\n    let mut n = 0;\n    if guess.norm() <= tol {\n        return Ok(guess);\n    }\n\n    while n < n_max {\n        let f_val"))
mutant("c08-newton-sign", "C08", "R8.5/roots::newton/update", (RT, "let f_val = -f(guess.as_slice());", "let f_val = f(guess.as_slice());"))
mutant("c08-newton-unwrap", "C08", "R8.4/roots::secant", (RT, "    let mut jac_inv = if let Some(inv) = try_inv {\n        inv\n    } else {\n        return Err(\"Secant: Can not inverse finite element difference jacobian\".to_owned());\n    };", "    let mut jac_inv = try_inv.unwrap();"))
mutant("c08-newtonpoly-test", "C08", "R8.2/roots::polynomial::newton_polynomial/success", (RP, "if step.abs() <= tol {\n            return Ok(new_guess);\n        }\n\n        guess = new_guess;", "if (new_guess.abs() - guess.abs()).abs() <= tol {\n            return Ok(new_guess);\n        }\n\n        guess = new_guess;"))
mutant("c08-newtonpoly-update", "C08", "R8.5/roots::polynomial::newton_polynomial/update", (RP, "let new_guess = guess - step;", "let new_guess = guess + step;"))
mutant("c08-cap-no-increment", "C08", "R8.3/roots::secant/counter-loop", (RT, "            return Ok(guess);\n        }\n        n += 1;\n    }\n\n    Err(\"Secant: Maximum iterations exceeded\".to_owned())", "            return Ok(guess);\n        }\n    }\n\n    Err(\"Secant: Maximum iterations exceeded\".to_owned())"))
mutant("c08-steffensen-unguarded", "C08", "R8.6/roots::steffensen", (RT, "        if denom == N::zero() {", "        if denom == N::one() {"))
mutant("c08-muller-start", "C08", "R8.7/", (RP, "Complex::<N::RealField>::new(initial.2.real(), initial.2.imaginary())", "Complex::<N::RealField>::new(initial.2.real(), initial.1.imaginary())"))
mutant("c08-muller-test", "C08", "R8.2/roots::polynomial::muller_polynomial/success", (RP, "if step.abs() <= tol {\n            return Ok(p);", "if (p.abs() - poly_2.abs()).abs() <= tol {\n            return Ok(p);"))
benign("c08-newton-refactor", "C08", (RT, "if adjustment.norm() <= tol {", "if (new_guess - guess).norm() <= tol {"))

# ---- C11
PM = "src/polynomial/mod.rs"
mutant("c11-unit", "C11", "R11.5/Polynomial::idft/unit", (PM, "(N::zero() - N::one()).sqrt()", "(-N::one()).sqrt()"))
mutant("c11-sub-tail-sign", "C11", "R11.1/Sub<Polynomial<N>> for Polynomial<N>/algebra", (PM, "    fn sub(mut self, rhs: Polynomial<N>) -> Polynomial<N> {\n        let min_order = self.coefficients.len().min(rhs.coefficients.len());\n        for (ind, val) in self.coefficients.iter_mut().take(min_order).enumerate() {\n            *val -= rhs.coefficients[ind];\n        }\n\n        for val in rhs.coefficients.iter().skip(min_order) {\n            self.coefficients.push(-*val);", "    fn sub(mut self, rhs: Polynomial<N>) -> Polynomial<N> {\n        let min_order = self.coefficients.len().min(rhs.coefficients.len());\n        for (ind, val) in self.coefficients.iter_mut().take(min_order).enumerate() {\n            *val -= rhs.coefficients[ind];\n        }\n\n        for val in rhs.coefficients.iter().skip(min_order) {\n            self.coefficients.push(*val);"))
mutant("c11-linear-branch", "C11", "polynomial::multiply", (PM, "    if rhs.coefficients.len() == 2 {\n        let mut shifted = lhs * rhs.coefficients[1];\n        shifted.coefficients.insert(0, N::zero());\n        return shifted + lhs * rhs.coefficients[0];", "    if rhs.coefficients.len() == 2 {\n        let mut shifted = lhs * rhs.coefficients[0];\n        shifted.coefficients.insert(0, N::zero());\n        return shifted + lhs * rhs.coefficients[1];"))
mutant("c11-bound", "C11", "R11.", (PM, "let bound = lhs.coefficients.len().max(rhs.coefficients.len()) * 2;", "let bound = lhs.coefficients.len().max(rhs.coefficients.len());"))
mutant("c11-twiddle-sign", "C11", "R11.", (PM, "let angle = 2.0 * f64::consts::PI / m as f64;", "let angle = -2.0 * f64::consts::PI / m as f64;"))
mutant("c11-idft-scale", "C11", "R11.", (PM, "N::from_f64(1.0 / len as f64).unwrap().real(),", "N::from_f64(1.0).unwrap().real(),"))
mutant("c11-divassign", "C11", "R11.1/DivAssign", (PM, "    fn div_assign(&mut self, rhs: N) {\n        for val in &mut self.coefficients {\n            *val /= rhs;", "    fn div_assign(&mut self, rhs: N) {\n        for val in &mut self.coefficients {\n            *val *= rhs;"))
mutant("c11-addassign-ref", "C11", "R11.1/AddAssign<&Polynomial<N>>", (PM, "    fn add_assign(&mut self, rhs: &Polynomial<N>) {\n        let min_order = self.coefficients.len().min(rhs.coefficients.len());\n        for (ind, val) in self.coefficients.iter_mut().take(min_order).enumerate() {\n            *val += rhs.coefficients[ind];\n        }\n\n        for val in rhs.coefficients.iter().skip(min_order) {", "    fn add_assign(&mut self, rhs: &Polynomial<N>) {\n        let min_order = self.coefficients.len().min(rhs.coefficients.len());\n        for (ind, val) in self.coefficients.iter_mut().take(min_order).enumerate() {\n            *val += rhs.coefficients[ind];\n        }\n\n        for val in rhs.coefficients.iter().skip(min_order + 1) {"))
mutant("c11-bitrev", "C11", "R11.", (PM, "    result >>= 1;\n    result", "    result"))
benign("c11-mul-refactor", "C11", (PM, "    fn mul(self, rhs: N) -> Polynomial<N> {\n        let mut coefficients = Vec::with_capacity(self.coefficients.len());\n        for val in &self.coefficients {\n            coefficients.push(*val * rhs);\n        }", "    fn mul(self, rhs: N) -> Polynomial<N> {\n        let mut coefficients = Vec::with_capacity(self.coefficients.len());\n        for val in self.coefficients.iter() {\n            coefficients.push(rhs * *val);\n        }"))

# ---- C12 / C13
mutant("c12-lead-term", "C12", "R12.", (PM, "*remainder.coefficients.last().unwrap() / *divisor.coefficients.last().unwrap();", "*remainder.coefficients.last().unwrap() / divisor.coefficients[0];"))
mutant("c12-padding", "C12", "R12.", (PM, "let padding = temp.coefficients.len() - 1;", "let padding = temp.coefficients.len();"))
mutant("c12-zero-guard", "C12", "R12.", (PM, "            return Err(\"Polynomial division: Can not divide by 0\".to_owned());", "            return Ok((Polynomial::new(), Polynomial::new()));"))
mutant("c12-const-divisor", "C12", "R12.1", (PM, "let idivisor = N::from_f64(1.0).unwrap() / divisor.coefficients[0];", "let idivisor = divisor.coefficients[0];"))
mutant("c12-loop-cond", "C12", "R12.", (PM, "        while remainder.coefficients.len() >= divisor.coefficients.len()\n", "        while remainder.coefficients.len() > divisor.coefficients.len()\n"))
benign("c12-refactor", "C12", (PM, "            quotient += &temp;\n", "            quotient = &quotient + &temp;\n"))
mutant("c13-purge", "C13", "R13.1/Polynomial::purge_coefficient", (PM, "            len if power >= len => {}\n            len if len == power + 1 && len != 1 => {", "            len if len == power && len != 1 => {"))
mutant("c13-horner-skip", "C13", "R13.2/Polynomial::evaluate", (PM, "        for val in self.coefficients.iter().rev().skip(1) {\n            acc *= x;\n            acc += *val;", "        for val in self.coefficients.iter().rev().skip(1) {\n            acc += *val;\n            acc *= x;"))
mutant("c13-deriv-horner", "C13", "R13.2/Polynomial::evaluate_derivative", (PM, "acc_deriv = acc_deriv * x + acc_eval;", "acc_deriv = acc_deriv * x + *val;"))
mutant("c13-antiderivative", "C13", "R13.3/Polynomial::antiderivative", (PM, "N::from_f64(1.0 / (ind + 1) as f64).unwrap()", "N::from_f64(1.0 / (ind + 2) as f64).unwrap()"))
mutant("c13-derivative-index", "C13", "R13.3/Polynomial::derivative", (PM, "for (i, val) in self.coefficients.iter().enumerate().skip(1) {\n            deriv_coeff.push(N::from_f64(i as f64).unwrap() * *val);", "for (i, val) in self.coefficients.iter().skip(1).enumerate() {\n            deriv_coeff.push(N::from_f64(i as f64).unwrap() * *val);"))
mutant("c13-get-coefficient", "C13", "R13.1/Polynomial::get_coefficient", (PM, "if ind >= self.coefficients.len() {\n            N::zero()", "if ind > self.coefficients.len() {\n            N::zero()"))
mutant("c13-integrate", "C13", "R13.3/Polynomial::integrate", (PM, "poly_anti.evaluate(upper) - poly_anti.evaluate(lower)", "poly_anti.evaluate(lower) - poly_anti.evaluate(upper)"))
mutant("c13-from-slice", "C13", "R13.4", (PM, "coefficients: data.iter().rev().copied().collect(),", "coefficients: data.iter().copied().collect(),"))
benign("c13-horner-refactor", "C13", (PM, "        for val in self.coefficients.iter().rev().skip(1) {\n            acc *= x;\n            acc += *val;", "        for val in self.coefficients.iter().rev().skip(1) {\n            acc = acc * x + *val;"))

# ---- C18
SP = "src/special/polynomial/mod.rs"
mutant("c18-legendre-mult", "C18", "R18.1/special::polynomial::legendre", (SP, "polynomial![N::from_u32(2 * i + 1).unwrap(), N::zero()] * &p_1;", "polynomial![N::from_u32(2 * i - 1).unwrap(), N::zero()] * &p_1;"))
mutant("c18-hermite-mult", "C18", "R18.1/special::polynomial::hermite", (SP, "(&h_0 * N::from_u32(2 * i).unwrap());", "(&h_0 * N::from_u32(2 * i + 2).unwrap());"))
mutant("c18-laguerre-sign", "C18", "R18.1/special::polynomial::laguerre", (SP, "if k % 2 == 0 { N::one() } else { -N::one() }", "if k % 2 == 1 { N::one() } else { -N::one() }"))
mutant("c18-choose", "C18", "R18.1/special::polynomial::laguerre", (SP, "    for i in n - k + 1..=n {\n        acc *= N::from_u32(i).unwrap();", "    for i in n - k + 2..=n {\n        acc *= N::from_u32(i).unwrap();"))
mutant("c18-cheb2-iter", "C18", "R18.", (SP, "    for _ in 1..n {\n        let next = &double * &t_1 - &t_0;\n        t_0 = t_1;\n        t_1 = next;\n    }\n    Ok(t_1)\n}\n\n/// Get the nth chebyshev polynomial of the second kind", "    for _ in 2..n {\n        let next = &double * &t_1 - &t_0;\n        t_0 = t_1;\n        t_1 = next;\n    }\n    Ok(t_1)\n}\n\n/// Get the nth chebyshev polynomial of the second kind"))
mutant("c18-cheb-fft", "C18", "R18.4/special::polynomial::chebyshev", (SP, "        let next = &double * &t_1 - &t_0;\n        t_0 = t_1;\n        t_1 = next;\n    }\n    Ok(t_1)\n}\n\n/// Get the nth chebyshev polynomial of the second kind", "        let next = &double * &t_1 - &t_0;\n        t_0 = t_1;\n        t_1 = next;\n    }\n    if n % 2 == 0 && n >= 4 {\n        let half = chebyshev::<N>(n / 2, tol)?;\n        return Ok(&half * &half * N::from_u8(2).unwrap() - polynomial![N::one()]);\n    }\n    Ok(t_1)\n}\n\n/// Get the nth chebyshev polynomial of the second kind"))
benign("c18-tolerance-kept-by-lhs", "C18", (SP, "        let mut p_next = polynomial![N::from_u32(2 * i + 1).unwrap(), N::zero()] * &p_1;\n        p_next.set_tolerance(tol)?;", "        let mut p_next = &p_1 * polynomial![N::from_u32(2 * i + 1).unwrap(), N::zero()];"))
benign("c18-legendre-refactor", "C18", (SP, "        p_next -= &p_0 * N::from_u32(i).unwrap();\n        p_next /= N::from_u32(i + 1).unwrap();", "        p_next = (p_next - &p_0 * N::from_u32(i).unwrap()) / N::from_u32(i + 1).unwrap();"))

# ---- C15 / C16 / C17
IN, SPL, OP = "src/interp/mod.rs", "src/interp/spline.rs", "src/optimize/mod.rs"
mutant("c15-neville-node", "C15", "R15.2/interp::lagrange", (IN, "let mut poly_1 = polynomial![N::one(), -xs[i - j]];", "let mut poly_1 = polynomial![N::one(), -xs[i - j + 1]];"))
mutant("c15-neville-denominator", "C15", "R15.2/interp::lagrange", (IN, "let idenom = N::one() / (xs[i] - xs[i - j]);", "let idenom = N::one() / (xs[i - j] - xs[i]);"))
mutant("c15-hermite-deriv-slot", "C15", "R15.3/interp::hermite", (IN, "qs[2 * i + 1 + (2 * xs.len())] = derivs[i];", "qs[2 * i + (2 * xs.len())] = derivs[i];"))
mutant("c15-hermite-horner-node", "C15", "R15.3/interp::hermite", (IN, "hermite *= polynomial![N::one(), -xs[(i - 1) / 2]];", "hermite *= polynomial![N::one(), -xs[i / 2]];"))
mutant("c15-guard", "C15", "R15.1/interp::hermite", (IN, "    if xs.len() != derivs.len() {\n        return Err(\"hermite: derivatives have mismatched dimension\".to_owned());\n    }\n", ""))
benign("c15-refactor", "C15", (IN, "            qs[i + xs.len() * j] = numer * idenom;", "            qs[i + xs.len() * j] = numer / (xs[i] - xs[i - j]);"))
mutant("c16-free-alpha", "C16", "R16.3/interp::spline::spline_free", (SPL, "            (three / N::from_real(hs[i])) * (ys[i + 1] - ys[i])\n                - (three / N::from_real(hs[i - 1])) * (ys[i] - ys[i - 1]),", "            (three / N::from_real(hs[i])) * (ys[i + 1] - ys[i])\n                - (three / N::from_real(hs[i])) * (ys[i] - ys[i - 1]),"))
mutant("c16-clamped-end", "C16", "R16.3/interp::spline::spline_clamped", (SPL, "alphas[0] = three * ((ys[1] - ys[0]) / N::from_real(hs[0]) - f_0);", "alphas[0] = three * ((ys[1] - ys[0]) / N::from_real(hs[0]) + f_0);"))
mutant("c16-d-coefficient", "C16", "R16.3/interp::spline::spline_free", (SPL, "        d_coefficient[i] =\n            (c_coefficient[i + 1] - c_coefficient[i]) / (three * N::from_real(hs[i]));\n    }\n\n    let mut polynomials = Vec::with_capacity(xs.len() - 1);\n    let mut ranges = Vec::with_capacity(xs.len() - 1);\n\n    for i in 0..xs.len() - 1 {\n        // Horner's method to build polynomial\n        let term = polynomial![N::one(), N::from_real(-xs[i])];\n        let mut poly = &term * d_coefficient[i];\n        poly.set_tolerance(tol)?;\n        poly += c_coefficient[i];\n        poly *= &term;\n        poly += b_coefficient[i];\n        poly *= term;\n        poly += ys[i];\n        polynomials.push(poly);\n        ranges.push((xs[i], xs[i + 1]));\n    }\n\n    Ok(CubicSpline {\n        cubics: polynomials,\n        ranges,\n    })\n}\n\n/// Create a clamped", "        d_coefficient[i] =\n            (c_coefficient[i + 1] - c_coefficient[i]) / (two * N::from_real(hs[i]));\n    }\n\n    let mut polynomials = Vec::with_capacity(xs.len() - 1);\n    let mut ranges = Vec::with_capacity(xs.len() - 1);\n\n    for i in 0..xs.len() - 1 {\n        // Horner's method to build polynomial\n        let term = polynomial![N::one(), N::from_real(-xs[i])];\n        let mut poly = &term * d_coefficient[i];\n        poly.set_tolerance(tol)?;\n        poly += c_coefficient[i];\n        poly *= &term;\n        poly += b_coefficient[i];\n        poly *= term;\n        poly += ys[i];\n        polynomials.push(poly);\n        ranges.push((xs[i], xs[i + 1]));\n    }\n\n    Ok(CubicSpline {\n        cubics: polynomials,\n        ranges,\n    })\n}\n\n/// Create a clamped"))
mutant("c16-lookup-open", "C16", "R16.1/CubicSpline::evaluate/", (SPL, "            if x >= range.0 && x <= range.1 {\n                return Ok(self.cubics[ind].evaluate(N::from_real(x)));", "            if x > range.0 && x < range.1 {\n                return Ok(self.cubics[ind].evaluate(N::from_real(x)));"))
mutant("c16-sorted-guard", "C16", "R16.1/interp::spline::spline_clamped/rejects:decreasing", (SPL, "        return Err(\"spline_clamped: xs must be sorted\".to_owned());", "        hs.reverse();"))
mutant("c16-clamped-last-row", "C16", "R16.3/interp::spline::spline_clamped", (SPL, "l.push(N::from_real(hs[xs.len() - 2]) * (two - mu[xs.len() - 2]));", "l.push(N::from_real(hs[xs.len() - 2]) * (two + mu[xs.len() - 2]));"))
benign("c16-refactor", "C16", (SPL, "        mu.push(N::from_real(hs[i]) / l[i]);\n        z.push((alphas[i] - N::from_real(hs[i - 1]) * z[i - 1]) / l[i]);\n    }\n\n    l.push(N::one());", "        let li = l[i];\n        mu.push(N::from_real(hs[i]) / li);\n        z.push((alphas[i] - z[i - 1] * N::from_real(hs[i - 1])) / li);\n    }\n\n    l.push(N::one());"))
mutant("c17-linfit-slope", "C17", "R17.1/optimize::linear_fit", (OP, "let a = (m * sum_xy - sum_x * sum_y) / denom;", "let a = (m * sum_xy - sum_x * sum_x) / denom;"))
mutant("c17-linfit-order", "C17", "R17.1/optimize::linear_fit", (OP, "Ok(polynomial![a, b])", "Ok(polynomial![b, a])"))
mutant("c17-h-guard", "C17", "R17.2/optimize::curve_fit/guard:h", (OP, "    if !h.is_sign_positive() {\n        return Err(\"curve_fit: h must be positive\".to_owned());\n    }\n", ""))
mutant("c17-jac-analytic", "C17", "R17.3/optimize::jac_analytic", (OP, "            mat[(row, col)] = deriv[col];", "            mat[(col, row)] = deriv[col];"))
mutant("c17-fd-not-restored", "C17", "R17.3/optimize::jac_finite_differences/restored", (OP, "            mat[(row, col)] = denom * (above + below);\n            params[col] += h;", "            mat[(row, col)] = denom * (above + below);"))
benign("c17-linfit-refactor", "C17", (OP, "let b = (sum_x_sq * sum_y - sum_xy * sum_x) / denom;", "let b = (sum_y - a * sum_x) / m;"))

# ---- C09
IM, GA = "src/integrate/mod.rs", "src/integrate/gaussian.rs"
mutant("c09-simpson-overwrite", "C09", "R9.3", (IM, "                sum_i[i - 1] = s1;\n", "                sum_i[i - 1] = sum_i[i - 2];\n"))
mutant("c09-gaussian-interval", "C09", "R9.1/integrate::gaussian::integrate_gaussian/guard:left<right", (GA, "    if left >= right {\n        return Err(\"integrate_gaussian: left must be less than right\".to_owned());\n    }\n", ""))
benign("c09-simpson-dead-push-arm", "C09", (IM, "                tol_i.push(half_real * v_6);\n                sum_i.push(s2);", "                tol_i.push(v_6);\n                sum_i.push(s2);"))
mutant("c09-simpson-tol-half", "C09", "R9.3a", (IM, "                tol_i[i - 1] = half_real * v_6;", "                tol_i[i - 1] = v_6;"))
mutant("c09-simpson-left-frame", "C09", "R9.3", (IM, "                left_i.push(v_1);\n                f_ai.push(v_2);\n                f_ci.push(f_d);\n                f_bi.push(v_3);", "                left_i.push(v_1);\n                f_ai.push(v_2);\n                f_ci.push(f_e);\n                f_bi.push(v_3);"))
mutant("c09-simpson-area", "C09", "R9.3b", (IM, "            area += s1 + s2;", "            area += v_7;"))
mutant("c09-affine-shift", "C09", "R9.2/integrate::integrate/abscissa-map", (IM, "    let shift = (right + left) * half;\n    let scale_cmplx = N::from_real(scale);\n\n    let fun = |x: N::RealField| -> N {", "    let shift = (right - left) * half;\n    let scale_cmplx = N::from_real(scale);\n\n    let fun = |x: N::RealField| -> N {"))
mutant("c09-gauss-scale", "C09", "R9.2/integrate::gaussian::integrate_gaussian/result-scale", (GA, "            * scale_cmplx,\n    )", "            * scale_cmplx\n            * scale_cmplx,\n    )"))
mutant("c09-romberg-richardson", "C09", "R9.4", (IM, "/ (four.powi(j as i32 - 1) - N::one());", "/ (four.powi(j as i32) - N::one());"))
mutant("c09-romberg-midpoints", "C09", "R9.4", (IM, "N::from_f64(k as f64 - 0.5).unwrap().real() * h", "N::from_f64(k as f64).unwrap().real() * h"))
mutant("c09-stop-rule", "C09", "R9.5/integrate::gaussian::integrate_laguerre", (GA, "        let err = (area - prev_area).abs();\n        if err < tol && prev_err < tol {\n            return Ok(area);\n        }\n\n        prev_area = area;\n        prev_err = err;\n    }\n\n    Err(\"integrate_laguerre", "        let err = (area - prev_area).abs();\n        if err < tol {\n            return Ok(area);\n        }\n\n        prev_area = area;\n        prev_err = err;\n    }\n\n    Err(\"integrate_laguerre"))
mutant("c09-tol-guard", "C09", "R9.1/integrate::integrate_simpson/guard:tol", (IM, "    if !tol.is_sign_positive() {\n        return Err(\"integrate: tolerance must be positive\".to_owned());\n    }\n\n    let sixth", "    let sixth"))
benign("c09-simpson-refactor", "C09", (IM, "        let s1 = N::from_real(step_i[i - 1]) * (f_ai[i - 1] + four * f_d + f_ci[i - 1]) * sixth;", "        let s1 = (f_ai[i - 1] + f_ci[i - 1] + four * f_d) * N::from_real(step_i[i - 1]) * sixth;"))
mutant("c09-de-first-level", "C09", "R9.6/integrate::integrate_core/first-stop-test-at-level>=2", (IM, "if num_function_evaluations <= 13 {", "if num_function_evaluations <= 7 {"))
benign("c09-de-first-level-equiv", "C09", (IM, "if num_function_evaluations <= 13 {", "if num_function_evaluations < 14 {"))
benign("c09-de-more-conservative", "C09", (IM, "if num_function_evaluations <= 13 {", "if num_function_evaluations <= 25 {"))
mutant("c09-de-one-sided-window", "C09", "R9.6/integrate::integrate_core/square-only-in-trend-window", (IM, "if r > one_point_nine && r < two_point_one {", "if r > one_point_nine {"))
mutant("c09-de-break-unjustified", "C09", "R9.6/integrate::integrate_core", (IM, "        if error_estimate < tol {\n            break;\n        }\n    }\n\n    if error_estimate < tol {", "        if error_estimate < tol + tol {\n            break;\n        }\n    }\n\n    if error_estimate < tol + tol {"))
mutant("c09-de-delta-wrong", "C09", "R9.6/integrate::integrate_core", (IM, "current_delta = (half * integral - new_contribution).abs();", "current_delta = (integral - new_contribution).abs();"))
benign("c09-de-initial-estimate-dead", "C09", (IM, "let mut error_estimate = N::RealField::one() + tol;", "let mut error_estimate = N::RealField::zero();"))

# ---- C14
mutant("c14-linear-sign", "C14", "R14.1/Polynomial::roots/linear", (PM, "let division = -self.coefficients[0] / self.coefficients[1];", "let division = self.coefficients[0] / self.coefficients[1];"))
mutant("c14-quadratic-4ac", "C14", "R14.1/Polynomial::roots/quadratic", (PM, "- N::from_f64(4.0).unwrap() * self.coefficients[2] * self.coefficients[0];", "- N::from_f64(2.0).unwrap() * self.coefficients[2] * self.coefficients[0];"))
mutant("c14-recursion-on-original", "C14", "R14.", (PM, "let mut roots = quotient.roots(tol, n_max)?;", "let mut roots = complex.derivative().roots(tol, n_max)?;"))
mutant("c14-polish-on-quotient", "C14", "R14.3/Polynomial::roots/polish-on-original", (PM, "corrected_roots.push_back(newton_polynomial(*root, &complex, tol, n_max)?);", "corrected_roots.push_back(newton_polynomial(*root, &quotient, tol, n_max)?);"))
mutant("c14-lost-root", "C14", "R14.2/Polynomial::roots/count", (PM, "        roots.push_front(guess);\n", ""))
mutant("c14-divisor-sign", "C14", "R14.3/Polynomial::roots/divisor", (PM, "let divisor = polynomial![Complex::<N::RealField>::one(), -guess];", "let divisor = polynomial![Complex::<N::RealField>::one(), guess];"))
mutant("c14-cap", "C14", "R14.4/Polynomial::roots/iteration-cap", (PM, "        if k == n_max {\n            return Err(\"Polynomial roots: maximum iterations exceeded\".to_owned());\n        }\n", ""))
mutant("c14-laguerre-base", "C14", "R14.5/special::polynomial::laguerre_zeros/base-case", (SP, "    if n == 1 {\n        return Ok(vec![N::one()]);\n    }\n\n    let poly: Polynomial<N> = laguerre(n, poly_tol)?;", "    if n == 1 {\n        return Ok(vec![N::zero()]);\n    }\n\n    let poly: Polynomial<N> = laguerre(n, poly_tol)?;"))
mutant("c14-hermite-deflator", "C14", "R14.5/special::polynomial::hermite_zeros/deflate-then-polish", (SP, "        deflator = quotient;\n", ""))
mutant("c14-hermite-polish", "C14", "R14.5/special::polynomial::hermite_zeros/deflate-then-polish", (SP, "let zero = newton_polynomial(zero, &poly, tol, n_max)?;", "let zero = newton_polynomial(zero, &deflator, tol, n_max)?;"))
benign("c14-refactor", "C14", (PM, "let division = -self.coefficients[0] / self.coefficients[1];", "let division = -(self.coefficients[0] / self.coefficients[1]);"))
benign("c14-root-order", "C14", (PM, "        roots.push_front(guess);\n", "        roots.push_back(guess);\n"))

# ---- round 2 of the seeded campaign: rules added for misses -------------------------------------------------------------------
mutant("c05-rk-safety-factor-one", "C05", "R5.4/RungeKuttaSolver::step/reject-shrinks-by-a-margin", (RK, "let eighty_four = Self::Field::from_u8(84)", "let eighty_four = Self::Field::from_u8(100)"))
benign("c05-rk-safety-factor-90", "C05", (RK, "let eighty_four = Self::Field::from_u8(84)", "let eighty_four = Self::Field::from_u8(90)"))
mutant("c05-adams-no-safety", "C05", "R5.4/AdamsSolver::step/reject-shrinks-by-a-margin", (AD, "        let q = (self.tolerance.real() / (self.two.real() * error.real()))", "        let q = (self.tolerance.real() / error.real())"))
mutant("c14-quadratic-real-sqrt", "C14", "R14.7/Polynomial::roots/complex-domain:sqrt", ("src/polynomial/mod.rs", "Complex::<N::RealField>::new(determinant.real(), determinant.imaginary())\n                        .sqrt();", "Complex::<N::RealField>::new(determinant.sqrt().real(), determinant.sqrt().imaginary());"))
RM = "src/roots/mod.rs"
mutant("c08-broyden-u-transposed", "C08", "R8.5/roots::secant/broyden:secant-equation", (RM, "let u = s_transpose * jac_inv;", "let u = (jac_inv * shift).transpose();"))
mutant("c08-broyden-p-sign", "C08", "R8.5/roots::secant/broyden:secant-equation", (RM, "let p = (-s_transpose * adjustment)[(0, 0)];", "let p = (s_transpose * adjustment)[(0, 0)];"))
mutant("c08-broyden-stale-f", "C08", "R8.5/roots::secant/broyden:step", (RM, "        shift = -&jac_inv * func_eval;\n        guess += &shift;\n        if shift.norm().abs() <= tol {", "        shift = -&jac_inv * func_eval_last;\n        guess += &shift;\n        if shift.norm().abs() <= tol {"))
benign("c08-broyden-refactor", "C08", (RM, "let adjustment = -jac_inv * diff;", "let adjustment = -(jac_inv * diff);"))
mutant("c07-bisection-product-ge-zero", "C07", "R7.8/roots::bisection/bracket-lost", (RM, "        if (f_p * f_a).is_sign_positive() {", "        if f_p * f_a >= N::zero() {"))
mutant("c07-brent-product-lt-zero", "C07", "R7.8/roots::brent/bracket-lost", (RM, "        if (f_left * f_s).is_sign_negative() {", "        if f_left * f_s < N::zero() {"))
mutant("c07-itp-arms-swapped", "C07", "R7.8/roots::itp/bracket-lost", (RM, "        if f_itp > N::zero() {\n            right = x_itp;\n            f_right = f_itp;\n        } else if f_itp < N::zero() {\n            left = x_itp;\n            f_left = f_itp;", "        if f_itp < N::zero() {\n            right = x_itp;\n            f_right = f_itp;\n        } else if f_itp > N::zero() {\n            left = x_itp;\n            f_left = f_itp;"))
benign("c07-bisection-signbits-compared", "C07", (RM, "        if (f_p * f_a).is_sign_positive() {", "        if f_p.is_sign_positive() == f_a.is_sign_positive() {"))
benign("c07-bisection-signum-compared", "C07", (RM, "        if (f_p * f_a).is_sign_positive() {", "        if f_p.signum() == f_a.signum() {"))
OM = "src/optimize/mod.rs"
mutant("c17-lm-rhs-sign", "C17", "R17.4/optimize::curve_fit/rhs=JT(y-f)", (OM, "        // Get right side of iteration equation\n        let diff = &ys - &evaluation;", "        // Get right side of iteration equation\n        let diff = &evaluation - &ys;", (0, 2)))
mutant("c17-lm-damping-diag", "C17", "R17.4/optimize::curve_fit/lhs=JTJ+damping", (OM, "            multiplied[(i, i)] *= N::one() + N::from_real(damping);\n        }\n        // Solve equation with LU", "            multiplied[(i, i)] *= N::from_real(damping);\n        }\n        // Solve equation with LU", (0, 2)))
mutant("c17-lm-sum-sq-wrong-trial", "C17", "R17.4/optimize::curve_fit/sum_sq=", (OM, "        } else {\n            params = new_params;\n            sum_sq = resid;\n        }\n\n        jac_finite_differences", "        } else {\n            params = new_params;\n            sum_sq = resid_div;\n        }\n\n        jac_finite_differences"))
mutant("c17-lm-transpose-stale", "C17", "R17.4/optimize::curve_fit_jac/transpose-in-step", (OM, "        jac_analytic(&mut jacobian, xs, &mut params, &mut jac);\n        jac_transpose = jac.transpose();\n    }\n\n    Ok(params)", "        jac_analytic(&mut jacobian, xs, &mut params, &mut jac);\n    }\n\n    Ok(params)"))
mutant("c17-lm-keeps-worse-trial", "C17", "R17.4/optimize::curve_fit_jac/keeps-the-better-trial", (OM, "        if resid_div < resid {\n            damping /= damping_mult;\n            evaluation = evaluation_div;\n            params = new_params_div;\n            sum_sq = resid_div;\n        } else {\n            params = new_params;\n            sum_sq = resid;\n        }\n\n        jac_analytic", "        if resid_div > resid {\n            damping /= damping_mult;\n            evaluation = evaluation_div;\n            params = new_params_div;\n            sum_sq = resid_div;\n        } else {\n            params = new_params;\n            sum_sq = resid;\n        }\n\n        jac_analytic"))
mutant("c17-lm-evaluation-stale", "C17", "R17.4/optimize::curve_fit_jac/evaluation=f(xs,p')", (OM, "            damping /= damping_mult;\n            evaluation = evaluation_div;\n            params = new_params_div;\n            sum_sq = resid_div;\n        } else {\n            params = new_params;\n            sum_sq = resid;\n        }\n\n        jac_analytic", "            damping /= damping_mult;\n            params = new_params_div;\n            sum_sq = resid_div;\n        } else {\n            params = new_params;\n            sum_sq = resid;\n        }\n\n        jac_analytic"))
benign("c17-lm-refactor", "C17", (OM, "            multiplied[(i, i)] *= N::one() + N::from_real(damping);\n        }\n        // Solve equation with LU", "            multiplied[(i, i)] = multiplied[(i, i)] * (N::from_real(damping) + N::one());\n        }\n        // Solve equation with LU", (1, 2)))
mutant("c07-itp-signed-width-r", "C07", "R7.9/roots::itp/bracket-width-non-negative", (RM, "- (right - left).abs() / two;", "- (right - left) / two;"))
mutant("c07-itp-signed-width-delta", "C07", "R7.9/roots::itp/bracket-width-non-negative", (RM, "let delta = k_1 * (right - left).abs().powf(k_2);", "let delta = k_1 * (right - left).powf(k_2);"))
benign("c07-itp-width-swapped-operands", "C07", (RM, "let delta = k_1 * (right - left).abs().powf(k_2);", "let delta = k_1 * (left - right).abs().powf(k_2);"))
mutant("c07-brent-relative-width", "C07", "R7.3/roots::brent/absolute-tolerance", (RM, "while !(f_right.abs() < tol || f_s.abs() < tol || (left - right).abs() < tol) {", "while !(f_right.abs() < tol || f_s.abs() < tol || (left - right).abs() < tol * right.abs().max(N::one())) {"))
mutant("c03-adams-history-kept-after-growth", "C03", "R3.6/AdamsSolver::step/stale-spacing", (AD, "                // Clear the saved steps since we have changed the timestep\n                // so we can no longer use linear interpolation.\n                self.prev_values.clear();\n                self.prev_derivatives.clear();", "                // keep the saved steps"))
mutant("c05-rk-clip-tests-dt-max", "C05", "R5.5/RungeKuttaSolver::step/pre-test-write-never-grows", (RK, "        if self.time.real() + self.dt.real() >= self.end.real() {\n            self.dt = self.end - self.time;\n        }", "        if self.time.real() + self.dt_max.real() >= self.end.real() {\n            self.dt = self.end - self.time;\n        }"))
mutant("c17-jac-analytic-row-bound", "C17", "R17.3/optimize::jac_analytic/coverage:entry(2,0)-written", (OM, "    for row in 0..mat.column(0).len() {\n        let deriv = jac(xs[row], params);", "    for row in 0..mat.row(0).len() {\n        let deriv = jac(xs[row], params);"))
mutant("c08-roots-jac-col-bound", "C08", "R8.1/roots::jac_finite_diff/coverage:entry", (RM, "    for col in 0..mat.row(0).len() {\n        x[col] += h;", "    for col in 1..mat.row(0).len() {\n        x[col] += h;"))
mutant("c08-steffensen-product-form", "C08", "R8.8/roots::steffensen/stable-near-convergence", (RM, "let diff = initial - (guess - initial).powi(2) / denom;", "let diff = (initial * new_guess - guess.powi(2)) / denom;"))
benign("c08-steffensen-correction-refactor", "C08", (RM, "let diff = initial - (guess - initial).powi(2) / denom;", "let step = guess - initial; let diff = initial - step * step / denom;"))
mutant("c11-div-ref-conj", "C11", "R11.1/Div<N> for &Polynomial<N>/algebra:complex-scalar", ("src/polynomial/mod.rs", "    fn div(self, rhs: N) -> Polynomial<N> {\n        let mut coefficients = Vec::from(self.coefficients.as_slice());\n        for val in &mut coefficients {\n            *val /= rhs;", "    fn div(self, rhs: N) -> Polynomial<N> {\n        let mut coefficients = Vec::from(self.coefficients.as_slice());\n        for val in &mut coefficients {\n            *val /= rhs.conjugate();"))
mutant("c14-make-complex-default-tolerance", "C14", "R14.8/Polynomial::make_complex/keeps-tolerance", ("src/polynomial/mod.rs", "        Polynomial {\n            coefficients,\n            tolerance: self.tolerance,\n        }\n    }\n\n    /// Evaluate a polynomial at a value", "        Polynomial {\n            coefficients,\n            tolerance: <N::RealField as FromPrimitive>::from_f64(1e-10).unwrap(),\n        }\n    }\n\n    /// Evaluate a polynomial at a value"))
mutant("c13-purge-coefficient-trims", "C13", "R13.1/Polynomial::purge_coefficient/exactly-that-power:concrete-tolerance", ("src/polynomial/mod.rs", "            len if len == power + 1 && len != 1 => {\n                self.coefficients.pop();\n            }", "            len if len == power + 1 && len != 1 => {\n                self.coefficients.pop();\n                self.purge_leading();\n            }"))
mutant("c15-hermite-cleanup-real-part", "C15", "R15.4/interp::hermite/recovers-polynomial:complex-imaginary-coefficients", ("src/interp/mod.rs", "        if hermite.get_coefficient(i).abs() < tol {", "        if hermite.get_coefficient(i).real().abs() < tol {"))
mutant("c15-lagrange-cleanup-real-part", "C15", "R15.4/interp::lagrange/recovers-polynomial:complex-imaginary-coefficients", ("src/interp/mod.rs", "        if qs[xs.len() * xs.len() - 1].get_coefficient(i).abs() < tol {", "        if qs[xs.len() * xs.len() - 1].get_coefficient(i).real().abs() < tol {"))
RP = "src/roots/polynomial.rs"
mutant("c08-muller-b-coefficient", "C08", "R8.9/roots::polynomial::muller_polynomial/step-is-root-of-parabola", (RP, "let b_coefficient = delta_2 + h_2 * delta;", "let b_coefficient = delta_2 + h_1 * delta;"))
mutant("c08-muller-discriminant", "C08", "R8.9/roots::polynomial::muller_polynomial/step-is-root-of-parabola", (RP, "Complex::<N::RealField>::new(four, N::RealField::zero()) * poly_2_evaluated * delta)", "Complex::<N::RealField>::new(four, N::RealField::zero()) * poly_2_evaluated * delta_2)"))
mutant("c08-muller-smaller-denominator", "C08", "R8.9/roots::polynomial::muller_polynomial/larger-denominator", (RP, "let error = if (b_coefficient - determinate).abs() < (b_coefficient + determinate).abs() {", "let error = if (b_coefficient - determinate).abs() > (b_coefficient + determinate).abs() {"))
mutant("c08-muller-shift-delta", "C08", "R8.9/roots::polynomial::muller_polynomial/shift-invariant:delta", (RP, "        delta = (delta_2 - delta_1) / (h_1 + h_2);\n\n        n += 1;", "        delta = (delta_2 - delta_1) / h_2;\n\n        n += 1;"))
mutant("c08-muller-entry-delta", "C08", "R8.9/roots::polynomial::muller_polynomial/entry-invariant:delta", (RP, "    let mut delta = (delta_2 - delta_1) / (h_2 + h_1);", "    let mut delta = (delta_2 - delta_1) / h_2;"))
benign("c08-muller-refactor", "C08", (RP, "let b_coefficient = delta_2 + h_2 * delta;", "let b_coefficient = delta * h_2 + delta_2;"))
mutant("c03-bdf-broyden-u-transposed", "C03", "R3.8/BDFSolver::secant/broyden:secant-equation", (BD, "let u = s_transpose * &jac_inv;", "let u = (&jac_inv * &shift).transpose();"))
mutant("c03-bdf-broyden-stale-f", "C03", "R3.8/BDFSolver::secant/broyden:step", (BD, "            shift = -&jac_inv * &derivative;\n            guess += &shift;\n\n            if shift.norm()", "            shift = -&jac_inv * &derivative_last;\n            guess += &shift;\n\n            if shift.norm()"))
mutant("c11-fft-size16-butterflies", "C11", "R11.4/Polynomial::dft/values-at-roots-of-unity:len=3,size=16", ("src/polynomial/mod.rs", "            for j in 0..m / 2 {\n                for k in (j..len).step_by(m) {\n                    let temp = w * working[k + m / 2];", "            for j in 0..(m / 2).min(4) {\n                for k in (j..len).step_by(m) {\n                    let temp = w * working[k + m / 2];", (0, 2)))
mutant("c07-itp-nhalf-floor", "C07", "R7.10/roots::itp/n_half>=log2", (RM, "let n_half = ((right - left).abs() / (two * tol)).log2().ceil();", "let n_half = ((right - left).abs() / (two * tol)).log2().floor();"))
mutant("c07-itp-n0-unguarded", "C07", "R7.1/roots::itp/guard:n_0>=0", (RM, "    if !n_0.is_sign_positive() {\n        return Err(\"itp: n_0 must be non-negative\".to_owned());\n    }\n", ""))
mutant("c07-itp-radius-exponent", "C07", "R7.10/roots::itp/radius", (RM, "two.powf(n_max + n_0 - N::from_i32(j).unwrap())", "two.powf(n_max - n_0 - n_0 - N::from_i32(j).unwrap())"))
mutant("c08-newton-stops-on-residual", "C08", "R8.2/roots::newton/success-on-residual", (RM, "if adjustment.norm() <= tol {", "if f_val.norm() <= tol {"))
mutant("c09-gauss-prev-err-zero", "C09", "R9.5/integrate::gaussian::integrate_gaussian_core/first-rule-cannot-succeed", (GA, "    let mut prev_err = N::RealField::one() + tol;\n    let mut prev_area = N::zero();", "    let mut prev_err = N::RealField::zero();\n    let mut prev_area = N::zero();"))
benign("c09-gauss-prev-err-two", "C09", (GA, "    let mut prev_err = N::RealField::one() + tol;\n    let mut prev_area = N::zero();", "    let mut prev_err = N::RealField::one() + N::RealField::one() + tol;\n    let mut prev_area = N::zero();"))
mutant("c18-legendre-f32-reciprocal", "C18", "R18.1/special::polynomial::legendre/coefficients:n=3", ("src/special/polynomial/mod.rs", "        p_next /= N::from_u32(i + 1).unwrap();", "        p_next *= N::from_f32(1.0 / (i + 1) as f32).unwrap();"))
mutant("c02-adams-rollback-no-restore", "C02", "R2.5-T3/AdamsSolver::step", (AD, "            self.time -= self.dt * (self.order - Self::Field::one());\n            self.state = self.save_state.clone();", "            self.time -= self.dt * (self.order - Self::Field::one());"))
mutant("c19-second-derivative-centre-real", "C19", "R19.1/differentiate::second_derivative", (D, "N::from_f64(2.0).unwrap() * f(x) + f(x + h)", "N::from_real(N::from_f64(2.0).unwrap().real() * f(x).real()) + f(x + h)"))
mutant("c09-gaussian-tolerance-by-shift", "C09", "R9.2/integrate::gaussian::integrate_gaussian/tolerance-scale", (GA, "N::from_f64(0.25).unwrap().real() * tol / scale", "N::from_f64(0.25).unwrap().real() * tol / shift"))
benign("c09-gaussian-tolerance-tighter", "C09", (GA, "N::from_f64(0.25).unwrap().real() * tol / scale", "N::from_f64(0.125).unwrap().real() * tol / scale"))
mutant("c07-brent-returns-left", "C07", "R7.11/roots::brent/returned-point-is-the-converged-one:left", (RM, "    if f_s.abs() < tol {\n        Ok(s)\n    } else {\n        Ok(right)\n    }", "    if f_s.abs() < tol {\n        Ok(s)\n    } else {\n        Ok(left)\n    }"))
mutant("c15-hermite-table-early-break", "C15", "R15.4/interp::hermite/recovers-polynomial:vanishing-differences", ("src/interp/mod.rs", "                / (zs[i] - zs[i - j]);\n        }\n    }", "                / (zs[i] - zs[i - j]);\n            if qs[i + j * (2 * xs.len())].abs() < tol {\n                break;\n            }\n        }\n    }"))
PM = "src/polynomial/mod.rs"
mutant("c12-reserve-underflow", "C12", "R12.3/Polynomial::divide/panic", (PM, "        while remainder.coefficients.len() >= divisor.coefficients.len()\n", "        quotient.coefficients.reserve(remainder.coefficients.len() - divisor.coefficients.len());\n        while remainder.coefficients.len() >= divisor.coefficients.len()\n"))
benign("c12-reserve-saturating", "C12", (PM, "        while remainder.coefficients.len() >= divisor.coefficients.len()\n", "        quotient.coefficients.reserve(remainder.coefficients.len().saturating_sub(divisor.coefficients.len()));\n        while remainder.coefficients.len() >= divisor.coefficients.len()\n"))
mutant("c13-integrate-orders-limits", "C13", "R13.3/Polynomial::integrate/F(b)-F(a)", (PM, "        poly_anti.evaluate(upper) - poly_anti.evaluate(lower)\n    }", "        let (lower, upper) = if lower.real() > upper.real() { (upper, lower) } else { (lower, upper) };\n        poly_anti.evaluate(upper) - poly_anti.evaluate(lower)\n    }"))
benign("c13-integrate-orders-limits-and-negates", "C13", (PM, "        poly_anti.evaluate(upper) - poly_anti.evaluate(lower)\n    }", "        if lower.real() > upper.real() {\n            return -(poly_anti.evaluate(lower) - poly_anti.evaluate(upper));\n        }\n        poly_anti.evaluate(upper) - poly_anti.evaluate(lower)\n    }"))

# ---- iteration caps in other spellings (rules/caps.py), closures bound to locals, references to elements
RM = "src/roots/mod.rs"
benign("c08-steffensen-down-counter", "C08", (RM, "    let mut n = 0;\n\n    while n < n_max {\n        let guess = f(initial);", "    let mut remaining = n_max;\n\n    while remaining > 0 {\n        let guess = f(initial);"),
       (RM, "        initial = diff;\n        n += 1;", "        initial = diff;\n        remaining -= 1;"))
mutant("c08-steffensen-down-counter-no-dec", "C08", "R8.3/roots::steffensen/counter-loop", (RM, "    let mut n = 0;\n\n    while n < n_max {\n        let guess = f(initial);", "    let mut remaining = n_max;\n\n    while remaining > 0 {\n        let guess = f(initial);"),
       (RM, "        initial = diff;\n        n += 1;", "        initial = diff;\n        let _ = remaining;"))
mutant("c08-steffensen-down-counter-not-from-cap", "C08", "R8.3/roots::steffensen/counter-loop", (RM, "    let mut n = 0;\n\n    while n < n_max {\n        let guess = f(initial);", "    let _ = n_max;\n    let mut remaining = usize::MAX;\n\n    while remaining > 0 {\n        let guess = f(initial);"),
       (RM, "        initial = diff;\n        n += 1;", "        initial = diff;\n        remaining -= 1;"))
benign("c08-steffensen-for-range", "C08", (RM, "    let mut n = 0;\n\n    while n < n_max {\n        let guess = f(initial);", "    for _ in 0..n_max {\n        let guess = f(initial);"),
       (RM, "        initial = diff;\n        n += 1;", "        initial = diff;"))
mutant("c08-steffensen-for-range-wrong-end", "C08", "R8.3/roots::steffensen/counter-loop", (RM, "    let mut n = 0;\n\n    while n < n_max {\n        let guess = f(initial);", "    let _ = n_max;\n    for _ in 0..usize::MAX {\n        let guess = f(initial);"),
       (RM, "        initial = diff;\n        n += 1;", "        initial = diff;"))
benign("c08-steffensen-closure-test", "C08", (RM, "    let mut n = 0;\n\n    while n < n_max {\n        let guess = f(initial);", "    let mut n = 0;\n    let within = |a: N, b: N| (a - b).abs() <= tol;\n\n    while n < n_max {\n        let guess = f(initial);"),
       (RM, "        if (diff - initial).abs() <= tol {\n            return Ok(diff);", "        if within(diff, initial) {\n            return Ok(diff);"))
mutant("c08-steffensen-closure-test-wrong", "C08", "R8.2/roots::steffensen", (RM, "    let mut n = 0;\n\n    while n < n_max {\n        let guess = f(initial);", "    let mut n = 0;\n    let within = |a: N, _b: N| a.abs() <= tol;\n\n    while n < n_max {\n        let guess = f(initial);"),
       (RM, "        if (diff - initial).abs() <= tol {\n            return Ok(diff);", "        if within(diff, initial) {\n            return Ok(diff);"))

# ---- R11.6 as scenarios: the coefficient vector never becomes empty
PM = "src/polynomial/mod.rs"
mutant("c11-purge-coefficient-empties", "C11", "R11.6/polynomial::Polynomial::<N>::purge_coefficient/pop-guarded", (PM, "len if len == power + 1 && len != 1 => {", "len if len == power + 1 => {"))
mutant("c11-purge-leading-empties", "C11", "R11.6/polynomial::Polynomial::<N>::purge_leading/pop-guarded", (PM, "        while self.coefficients.len() > 1\n            && self.coefficients.last().unwrap().real().abs() <= self.tolerance", "        while !self.coefficients.is_empty()\n            && self.coefficients.last().unwrap().real().abs() <= self.tolerance"))
benign("c11-purge-coefficient-early-returns", "C11", (PM, "        match self.coefficients.len() {\n            len if power >= len => {}\n            len if len == power + 1 && len != 1 => {\n                self.coefficients.pop();\n            }\n            _ => {\n                self.coefficients[power] = N::from_f64(0.0).unwrap();\n            }\n        };",
       "        let count = self.coefficients.len();\n        if power >= count {\n            return;\n        }\n        let is_leading = count == power + 1;\n        if is_leading && count != 1 {\n            self.coefficients.pop();\n            return;\n        }\n        let slot = &mut self.coefficients[power];\n        *slot = N::from_f64(0.0).unwrap();"))

# ---- R7.12 Brent's safeguards
mutant("c07-brent-safeguard-third-clause-flag", "C07", "R7.12/roots::brent/bisects-when-step-not-halved:after-interpolation", (RM, "|| (!mflag && (s - right).abs() >= (c - d).abs() / two)", "|| (mflag && (s - right).abs() >= (c - d).abs() / two)"))
mutant("c07-brent-safeguard-tol-clause-dropped", "C07", "R7.12/roots::brent/bisects-when-previous-step-below-tol:after-bisection", (RM, "            || (mflag && (right - c).abs() < tol)\n", ""))
benign("c07-brent-safeguard-more-conservative", "C07", (RM, "|| (!mflag && (s - right).abs() >= (c - d).abs() / two)", "|| (!mflag && (s - right).abs() >= (c - d).abs() / four)"))

# ---- R14.9 (fix fde9295 inverted): the vanishing-denominator guard of the Laguerre step
mutant("c14-laguerre-no-zero-denominator-guard", "C14", "R14.9/Polynomial::roots/first-step-defined", (PM, "            let a = if denominator.abs() > N::RealField::zero() {\n                order / denominator\n            } else {", "            let a = if denominator.abs() >= N::RealField::zero() {\n                order / denominator\n            } else {"))

# ---- round 7: a quotient digit that is overwritten instead of corrected (R12.5), an edit that trims (R13.1), a complex back-substitution (R16.3 at 4 knots)
mutant("c12-quotient-digit-overwritten", "C12", "R12.5/Polynomial::divide/rounded-digit", (PM, "            quotient += &temp;\n", "            quotient.set_coefficient(order as u32, temp.coefficients[order]);\n"))
benign("c12-quotient-digit-get-add-set", "C12", (PM, "            quotient += &temp;\n", "            let digit = quotient.get_coefficient(order) + temp.coefficients[order];\n            quotient.set_coefficient(order as u32, digit);\n"))
mutant("c13-set-coefficient-trims", "C13", "R13.1/Polynomial::set_coefficient", (PM, "        self.coefficients[power as usize] = coefficient;\n", "        self.coefficients[power as usize] = coefficient;\n        self.purge_leading();\n"))
mutant("c16-free-backsub-real-part", "C16", "R16.3/interp::spline::spline_free/C1:rational-4-complex", ("src/interp/spline.rs", "        c_coefficient[i] = z[i] - mu[i] * c_coefficient[i + 1];\n        b_coefficient[i] = (ys[i + 1] - ys[i]) / N::from_real(hs[i])\n            - N::from_real(hs[i]) * (c_coefficient[i + 1] + two * c_coefficient[i]) * third;", "        c_coefficient[i] = z[i] - mu[i] * N::from_real(c_coefficient[i + 1].real());\n        b_coefficient[i] = (ys[i + 1] - ys[i]) / N::from_real(hs[i])\n            - N::from_real(hs[i]) * (c_coefficient[i + 1] + two * c_coefficient[i]) * third;"))

# ---- benign round 5: dt := min(2·dt, dt_max) computed before it is stored; a minimum-step test kept in a flag and read twice; match on partial_cmp
BDF = "src/ivp/bdf.rs"
_GROW = "                self.dt *= self.two;\n                if self.dt.real() > self.dt_max.real() {\n                    self.dt = self.dt_max;\n                }\n"
benign("c01-bdf-grow-min-form", "C01", (BDF, _GROW, "                let doubled = self.dt * self.two;\n                self.dt = if doubled.real() > self.dt_max.real() {\n                    self.dt_max\n                } else {\n                    doubled\n                };\n"))
mutant("c01-bdf-grow-min-form-reversed", "C01", "R1.3/BDFSolver::step", (BDF, _GROW, "                let doubled = self.dt * self.two;\n                self.dt = if doubled.real() < self.dt_max.real() {\n                    self.dt_max\n                } else {\n                    doubled\n                };\n"))
_REJ = "        if self.dt.real() < self.dt_min.real() {\n            return Err(IVPStatus::Failure(IVPError::MinimumTimeDeltaExceeded));\n        }\n\n        self.prev_values.clear();\n        Err(IVPStatus::Redo)\n    }\n"
benign("c01-bdf-too-small-flag", "C01", (BDF, _REJ, "        let too_small = self.dt.real() < self.dt_min.real();\n        if !too_small {\n            self.prev_values.clear();\n        }\n        Err(if too_small {\n            IVPStatus::Failure(IVPError::MinimumTimeDeltaExceeded)\n        } else {\n            IVPStatus::Redo\n        })\n    }\n"))
mutant("c05-bdf-too-small-flag-swapped", "C05", "R5.", (BDF, _REJ, "        let too_small = self.dt.real() < self.dt_min.real();\n        if !too_small {\n            self.prev_values.clear();\n        }\n        Err(if !too_small {\n            IVPStatus::Failure(IVPError::MinimumTimeDeltaExceeded)\n        } else {\n            IVPStatus::Redo\n        })\n    }\n"))
benign("c02-bdf-accept-partial-cmp", "C02", (BDF, "        if error <= self.tolerance.real() {\n            self.state = higher_step;", "        if matches!(error.partial_cmp(&self.tolerance.real()), Some(std::cmp::Ordering::Less | std::cmp::Ordering::Equal)) {\n            self.state = higher_step;"))
mutant("c02-bdf-accept-partial-cmp-greater", "C02", "R2.", (BDF, "        if error <= self.tolerance.real() {\n            self.state = higher_step;", "        if matches!(error.partial_cmp(&self.tolerance.real()), Some(std::cmp::Ordering::Greater | std::cmp::Ordering::Equal)) {\n            self.state = higher_step;"))

# ---- seed round 8: complex-scalar blind spots and a table digit seen from C09
mutant("c14-laguerre-stop-on-real-part", "C14", "R14.10/Polynomial::roots/residual-test-bounds-the-modulus", (PM, "            if val.abs() < tol {", "            if val.re.abs() < tol {"))
benign("c14-laguerre-stop-componentwise", "C14", (PM, "            if val.abs() < tol {", "            if val.abs() < tol && val.re.abs() < tol && val.im.abs() < tol {"))
mutant("c08-newton-stop-on-dot", "C08", "R8.2/roots::newton/success", (RM, "                if adjustment.norm() <= tol {", "                if adjustment.dot(&adjustment).real() <= tol * tol {"))
benign("c08-newton-stop-on-norm-squared", "C08", (RM, "                if adjustment.norm() <= tol {", "                if adjustment.norm() <= tol && adjustment.norm_squared() <= tol * tol {"))
mutant("c17-linear-fit-modulus-squared", "C17", "R17.1/optimize::linear_fit", ("src/optimize/mod.rs", "        sum_x_sq += x.powi(2);", "        sum_x_sq += N::from_real(x.modulus_squared());"))
mutant("c09-legendre12-weight-digits", "C09", "R10.3", (T, "(0.1252334085114689, 0.24914704581340288)", "(0.1252334085114689, 0.24914704518340288)"))

# ---- fixes a3d1b02 / 7aac680 inverted: the first step of the Broyden solves is not tested, a zero step reaches the 0/0 update
mutant("c08-secant-first-step-untested", "C08", "R8.5/roots::secant/zero-step-division", (RM, "    if shift.norm().abs() <= tol {\n        return Ok(guess);\n    }\n\n    while n < n_max {", "    while n < n_max {"))
mutant("c05-bdf-secant-first-step-untested", "C05", "R3.8/BDFSolver::secant/zero-step-division", (BDF, "        if shift.norm() <= self.tolerance.real() {\n            return Ok(guess);\n        }\n\n        while n < 1000 {", "        while n < 1000 {"))

# ---- seed round 9: slips that only show for complex scalars
GA = "src/integrate/gaussian.rs"
mutant("c09-gauss-err-real-part", "C09", "R9.5", (GA, "        let err = (area - prev_area).abs();", "        let err = (area - prev_area).real().abs();", (2, 5)))
mutant("c13-integrate-equal-real-parts", "C13", "R13.3/Polynomial::integrate/F(b)-F(a):complex", (PM, "        poly_anti.evaluate(upper) - poly_anti.evaluate(lower)\n", "        if lower.real() == upper.real() {\n            return N::zero();\n        }\n        poly_anti.evaluate(upper) - poly_anti.evaluate(lower)\n"))
benign("c13-integrate-equal-limits-shortcut", "C13", (PM, "        poly_anti.evaluate(upper) - poly_anti.evaluate(lower)\n", "        if lower == upper {\n            return N::zero();\n        }\n        poly_anti.evaluate(upper) - poly_anti.evaluate(lower)\n"))
mutant("c11-purge-leading-real-twice", "C11", "R11.7/Polynomial::purge_leading/keeps-imaginary-lead", (PM, "            && self.coefficients.last().unwrap().imaginary().abs() <= self.tolerance", "            && self.coefficients.last().unwrap().real().abs() <= self.tolerance"))
IM = "src/integrate/mod.rs"
mutant("c09-simpson-accept-real-part", "C09", "R9.", (IM, "        if (s1 + s2 - v_7).abs() < v_6 {", "        if (s1 + s2 - v_7).real().abs() < v_6 {"))
mutant("c09-de-delta-real-part", "C09", "R9.", (IM, "        current_delta = (half * integral - new_contribution).abs();", "        current_delta = (half * integral - new_contribution).real().abs();"))

# ---- seed round 10
mutant("c14-quadratic-denominator-real-doubled", "C14", "R14.1/Polynomial::roots/quadratic:complex-leading-coefficient",
       (PM, "                let leading = Complex::<N::RealField>::new(leading.real(), leading.imaginary());\n                let leading = leading\n                    * Complex::<N::RealField>::new(\n                        N::from_f64(2.0).unwrap().real(),\n                        N::zero().real(),\n                    );\n",
        "                let two = N::from_f64(2.0).unwrap().real();\n                let leading =\n                    Complex::<N::RealField>::new(two * leading.real(), leading.imaginary());\n"))
SP = "src/special/polynomial/mod.rs"
mutant("c18-laguerre-factorial-closed-form", "C18", "R18.5/special::polynomial::laguerre/range", (SP, "            choose::<N>(n, k) / factorial::<N>(k) * if k % 2 == 0 { N::one() } else { -N::one() },", "            factorial::<N>(n) / (factorial::<N>(k) * factorial::<N>(k) * factorial::<N>(n - k)) * if k % 2 == 0 { N::one() } else { -N::one() },"))
