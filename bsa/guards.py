"""Precondition-guard rule shared by the numeric entry points (roots, quadrature, interpolation, fitting):

the statements that precede the main loop are explored path-sensitively (comparisons-only domain, user functions
uninterpreted); every path that *falls through* to the loop must entail each stated precondition, and every path
that leaves early must return Err (unless listed as an allowed early success).
"""
import sympy as sp

from . import logic, paths, sym
from .hir import peel, place, pp, walk


def swap_hook(interp, n):
    a, b = n["args"]
    va, vb = interp.ev(a), interp.ev(b)
    interp.assign(peel(a)["e"] if peel(a).get("k") == "Ref" else a, vb, n)
    interp.assign(peel(b)["e"] if peel(b).get("k") == "Ref" else b, va, n)
    return None


class GInterp(paths.PathInterp):
    def __init__(self, F, body, decide):
        paths.PathInterp.__init__(self, F, body, decide)
        self.lazy_hooks["std::mem::swap"] = swap_hook
        self.calls = []

    def user_call(self, pl, args, n):
        v = paths.PathInterp.user_call(self, pl, args, n)
        self.calls.append((pl, args, n, v))
        return v

    def ev_MCall(self, n):
        if n["name"] in ("to_owned", "to_string", "into") and (n["recv"].get("ty") or "").startswith("&'static str"):
            return sym.Opaque("str")
        if n["name"] in ("log2", "ceil", "floor", "ln", "log10"):
            return sp.Function(n["name"])(self.num(self.ev(n["recv"]), n))
        if n["name"] == "len":
            r = self.ev(n["recv"])
            if isinstance(r, sp.Symbol):
                return sp.Symbol("len(%s)" % r.name, integer=True, nonnegative=True)
            if isinstance(r, (list, tuple)):
                return sp.Integer(len(r))
        if n["name"] == "is_empty":
            r = self.ev(n["recv"])
            if isinstance(r, sp.Symbol):
                return sp.Eq(sp.Symbol("len(%s)" % r.name, integer=True, nonnegative=True), 0)
        return paths.PathInterp.ev_MCall(self, n)

    def ev_Lit(self, n):
        if n["lit"] == "str":
            return sym.Opaque("str")
        return paths.PathInterp.ev_Lit(self, n)


def first_loop(body):
    for st in body["body"]["stmts"]:
        e = st.get("e") if st.get("k") in ("ExprS", "Semi") else (st.get("init") if st.get("k") == "LetS" else None)
        if e is not None and e.get("k") in ("While", "For", "Loop"):
            return st, e
    return None, None


class SoftGInterp(GInterp):
    """Guard prefixes may allocate or convert before the main computation starts: a call outside the domain evaluates its operands (so that a `?`
    or a user call inside them is still seen) and yields an opaque value."""
    def _soft(self, n, sup):
        try:
            return sup(self, n)
        except sym.Unsupported:
            for a in ([n["recv"]] if n.get("recv") else []) + list(n.get("args", [])):
                if a.get("k") != "Closure":
                    try:
                        self.ev(a)
                    except sym.Unsupported:
                        pass
            return sym.Opaque("call:" + (n.get("def") or n.get("name") or "?"), n)

    def ev_Call(self, n):
        if "ovl" in n:
            return GInterp.ev_Call(self, n)
        return self._soft(n, GInterp.ev_Call)

    def ev_MCall(self, n):
        return self._soft(n, GInterp.ev_MCall)


def prefix_paths(F, body, stop_stmt=None, setup=None, interp_cls=None):
    cls = interp_cls or GInterp
    if stop_stmt is None:
        stop_stmt, _ = first_loop(body)
    if stop_stmt is None:
        return paths.explore(F, body, setup=setup, interp_cls=cls)
    return paths.explore(F, body, setup=setup, stop_at=stop_stmt, interp_cls=cls)


def is_err(res):
    return isinstance(res, sym.Variant) and res.name == "Err"


def is_ok(res):
    return isinstance(res, sym.Variant) and res.name == "Ok"


def check_preconditions(F, run, rule, body, dp, reqs, stop_stmt=None, allow_early_ok=False, setup=None, floor=1, interp_cls=None):
    """reqs: list of (name, builder(interp) -> sympy formula that must hold when the main computation starts)."""
    where = F.loc(body)
    try:
        ps = prefix_paths(F, body, stop_stmt, setup, interp_cls)
    except sym.Unsupported as u:
        run.broken(rule, dp, "prefix", F.loc(body, u.node if isinstance(u.node, dict) else None), "cannot interpret the guard prefix: %s" % u)
        return []
    through = [p for p in ps if p.fell_through]
    early = [p for p in ps if not p.fell_through]
    run.check(len(through) >= 1, rule, dp, "reaches-main-computation", where, "no path reaches the main computation")
    for p in early:
        good = is_err(p.result) or (allow_early_ok and is_ok(p.result))
        run.check(good, rule, dp, "early-exit:[%s]" % ",".join(str(c)[:40] for c in p.pc), where,
                  "an early exit of the guard prefix returns %s instead of Err" % (p.result,))
    for name, builder in reqs:
        for p in through:
            try:
                req = builder(p.interp)
            except Exception as e:
                run.broken(rule, dp, "requirement:" + name, where, "cannot build the requirement: %s" % e)
                continue
            run.check(logic.entails(p.cond(), req), rule, dp, "guard:" + name, where,
                      "the main computation is reached on a path [%s] that does not establish `%s`: invalid input is not rejected with Err"
                      % (p.cond(), req), sample="%s: %s ⟸ [%s]" % (dp, req, p.cond()))
    run.floor(rule, dp, "guard requirements", len(reqs), floor, where)
    return ps
