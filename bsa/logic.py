"""Comparisons-only entailment: formulas are sympy Booleans over relationals between (linear) expressions
and boolean atoms.  `entails(G, T)` decides unsat(G ∧ ¬T) by DNF expansion and, per conjunct, one-dimensional
interval reasoning on each canonical linear form (no cross-expression arithmetic).  Sound for "unsat" answers:
if it says entailed, it is; a False answer means "could not show".
"""
import sympy as sp
from sympy.core.relational import Relational

_T = sp.Symbol("_t", real=True)


def canon(e):
    """Canonical representative of a linear form up to positive/negative scaling: (key_expr, scale) with e = scale*key + const."""
    e = sp.expand(e)
    const, rest = e.as_independent(*e.free_symbols, *e.atoms(sp.Function), as_Add=True) if (e.free_symbols or e.atoms(sp.Function)) else (e, sp.Integer(0))
    if rest == 0:
        return None, sp.Integer(0), const
    terms = sp.Add.make_args(rest)
    terms = sorted(terms, key=lambda t: sp.default_sort_key(t.as_coeff_Mul()[1]))
    lead = terms[0].as_coeff_Mul()[0]
    if lead == 0 or not lead.is_number:
        lead = sp.Integer(1)
    key = sp.expand(rest / lead)
    return key, lead, const


def rel_to_interval(r):
    """Relational a REL b -> (key, set of t) meaning key ∈ set; None if not a usable comparison."""
    if not isinstance(r, Relational):
        return None
    e = r.lhs - r.rhs
    key, scale, const = canon(e)
    if key is None:
        return None
    # scale*t + const REL 0
    try:
        s = sp.solveset(r.func(scale * _T + const, 0), _T, domain=sp.S.Reals)
    except Exception:
        return None
    return key, s


def conj_unsat(lits):
    """lits: iterable of sympy literals (relationals, boolean symbols, Not(symbol)/Not(rel))."""
    pos, neg = set(), set()
    groups = {}
    for l in lits:
        if l is sp.true:
            continue
        if l is sp.false:
            return True
        if isinstance(l, sp.Not) and isinstance(l.args[0], Relational):
            l = l.args[0].negated
        if isinstance(l, Relational):
            ri = rel_to_interval(l)
            if ri is None:
                # opaque relation: treat as boolean atom
                k = l.canonical
                if k.negated.canonical in pos or sp.Not(k) in pos:
                    return True
                pos.add(k)
                continue
            key, s = ri
            groups[key] = groups.get(key, sp.S.Reals).intersect(s)
            if groups[key] is sp.S.EmptySet or groups[key] == sp.S.EmptySet:
                return True
        elif isinstance(l, sp.Not):
            a = l.args[0]
            if a in pos:
                return True
            neg.add(a)
        else:
            if l in neg:
                return True
            pos.add(l)
    return False


def unsat(f):
    f = sp.sympify(f)
    if f is sp.false:
        return True
    if f is sp.true:
        return False
    try:
        d = sp.to_dnf(f, simplify=False)
    except Exception:
        return False
    if d is sp.false:
        return True
    conjs = d.args if isinstance(d, sp.Or) else (d,)
    for c in conjs:
        lits = c.args if isinstance(c, sp.And) else (c,)
        if not conj_unsat(lits):
            return False
    return True


def entails(g, t):
    return unsat(sp.And(g, sp.Not(t)))


def satisfiable_with(g, extra):
    return not unsat(sp.And(g, extra))
