"""Comparisons-only entailment: formulas are sympy Booleans over relationals between (linear) expressions
and boolean atoms.  `entails(G, T)` decides unsat(G ∧ ¬T) by DNF expansion and, per conjunct, one-dimensional
interval reasoning on each canonical linear form (no cross-expression arithmetic).  Sound for "unsat" answers:
if it says entailed, it is; a False answer means "could not show".
"""
import sympy as sp
from sympy.core.relational import Relational

_T = sp.Symbol("_t", real=True)


def canon(e):
    """Canonical representative of a linear form up to positive/negative scaling: (key_expr, scale) with e = scale*key + const."""
    e = sp.expand(e)
    const, rest = e.as_independent(*e.free_symbols, *e.atoms(sp.Function), as_Add=True) if (e.free_symbols or e.atoms(sp.Function)) else (e, sp.Integer(0))
    if rest == 0:
        return None, sp.Integer(0), const
    terms = sp.Add.make_args(rest)
    terms = sorted(terms, key=lambda t: sp.default_sort_key(t.as_coeff_Mul()[1]))
    lead = terms[0].as_coeff_Mul()[0]
    if lead == 0 or not lead.is_number:
        lead = sp.Integer(1)
    key = sp.expand(rest / lead)
    return key, lead, const


def rel_to_interval(r):
    """Relational a REL b -> (key, set of t) meaning key ∈ set; None if not a usable comparison."""
    if not isinstance(r, Relational):
        return None
    e = r.lhs - r.rhs
    key, scale, const = canon(e)
    if key is None:
        return None
    # scale*t + const REL 0
    try:
        s = sp.solveset(r.func(scale * _T + const, 0), _T, domain=sp.S.Reals)
    except Exception:
        return None
    return key, s


def conj_unsat(lits):
    """lits: iterable of sympy literals (relationals, boolean symbols, Not(symbol)/Not(rel))."""
    pos, neg = set(), set()
    groups = {}
    for l in lits:
        if l is sp.true:
            continue
        if l is sp.false:
            return True
        if isinstance(l, sp.Not) and isinstance(l.args[0], Relational):
            l = l.args[0].negated
        if isinstance(l, Relational):
            ri = rel_to_interval(l)
            if ri is None:
                # opaque relation: treat as boolean atom
                k = l.canonical
                if k.negated.canonical in pos or sp.Not(k) in pos:
                    return True
                pos.add(k)
                continue
            key, s = ri
            groups[key] = groups.get(key, sp.S.Reals).intersect(s)
            if groups[key] is sp.S.EmptySet or groups[key] == sp.S.EmptySet:
                return True
        elif isinstance(l, sp.Not):
            a = l.args[0]
            if a in pos:
                return True
            neg.add(a)
        else:
            if l in neg:
                return True
            pos.add(l)
    return False


def unsat(f):
    f = sp.sympify(f)
    if f is sp.false:
        return True
    if f is sp.true:
        return False
    try:
        d = sp.to_dnf(f, simplify=False)
    except Exception:
        return False
    if d is sp.false:
        return True
    conjs = d.args if isinstance(d, sp.Or) else (d,)
    for c in conjs:
        lits = c.args if isinstance(c, sp.And) else (c,)
        if not conj_unsat(lits):
            return False
    return True


def entails(g, t):
    return unsat(sp.And(g, sp.Not(t)))


def satisfiable_with(g, extra):
    return not unsat(sp.And(g, extra))


# ---- linear arithmetic over several variables: Fourier–Motzkin (exact rationals), Abs by case split -------------------------
def _lin_form(e):
    """expr -> ({monomial: coeff}, const); non-linear monomials are treated as opaque variables (sound for unsat)."""
    e = sp.expand(e)
    coeffs = {}
    const = sp.Integer(0)
    for t in sp.Add.make_args(e):
        c, m = t.as_coeff_Mul()
        if m == 1:
            const += c
        else:
            coeffs[m] = coeffs.get(m, 0) + c
    return {k: v for k, v in coeffs.items() if v != 0}, const


def _abs_free(lits):
    """Case split on the sign of every Abs argument / sign(); yields lists of literals without Abs."""
    lits = list(lits)
    for l in lits:
        for a in l.atoms(sp.Abs):
            arg = a.args[0]
            out = []
            for branch, rep in ((sp.Ge(arg, 0), arg), (sp.Lt(arg, 0), -arg)):
                out += _abs_free([x.subs(a, rep) for x in lits] + [branch])
            return out
        for a in l.atoms(sp.sign):
            arg = a.args[0]
            out = []
            for branch, rep in ((sp.Gt(arg, 0), 1), (sp.Lt(arg, 0), -1), (sp.Eq(arg, 0), 0)):
                out += _abs_free([x.subs(a, rep) for x in lits] + [branch])
            return out
    return [lits]


def _fm_unsat(rows):
    """rows: list of (coeffs, const, strict) meaning Σ c_i x_i + const <= 0 (or < 0). Exact Fourier–Motzkin."""
    rows = [(dict(c), k, s) for c, k, s in rows]
    for _ in range(64):
        # trivial rows
        keep = []
        for c, k, s in rows:
            if not c:
                if k > 0 or (s and k >= 0):
                    return True
                continue
            keep.append((c, k, s))
        rows = keep
        if not rows:
            return False
        vars_ = sorted({v for c, _, _ in rows for v in c}, key=sp.default_sort_key)
        if not vars_:
            return False
        v = min(vars_, key=lambda x: sum(1 for c, _, _ in rows if c.get(x, 0) > 0) * sum(1 for c, _, _ in rows if c.get(x, 0) < 0))
        pos = [r for r in rows if r[0].get(v, 0) > 0]
        neg = [r for r in rows if r[0].get(v, 0) < 0]
        rest = [r for r in rows if r[0].get(v, 0) == 0]
        new = list(rest)
        for cp, kp, sp_ in pos:
            for cn, kn, sn in neg:
                a, b = cp[v], -cn[v]
                c = {}
                for x in set(cp) | set(cn):
                    if x == v:
                        continue
                    val = cp.get(x, 0) * b + cn.get(x, 0) * a
                    if val != 0:
                        c[x] = val
                new.append((c, kp * b + kn * a, sp_ or sn))
        if len(new) > 4000:
            return False
        rows = new
    return False


def lin_conj_unsat(lits):
    for case in _abs_free(lits):
        rows = []
        feasible_unknown = False
        ne = []
        for l in case:
            if l is sp.true:
                continue
            if l is sp.false:
                rows = None
                break
            if isinstance(l, sp.Not) and isinstance(l.args[0], Relational):
                l = l.args[0].negated
            if isinstance(l, sp.Ne):
                ne.append(l)
                continue
            if not isinstance(l, Relational):
                continue     # boolean atoms are ignored here (sound: fewer constraints)
            e = l.lhs - l.rhs
            c, k = _lin_form(e)
            if isinstance(l, sp.Le):
                rows.append((c, k, False))
            elif isinstance(l, sp.Lt):
                rows.append((c, k, True))
            elif isinstance(l, sp.Ge):
                rows.append(({x: -v for x, v in c.items()}, -k, False))
            elif isinstance(l, sp.Gt):
                rows.append(({x: -v for x, v in c.items()}, -k, True))
            elif isinstance(l, sp.Eq):
                rows.append((c, k, False))
                rows.append(({x: -v for x, v in c.items()}, -k, False))
        if rows is None:
            continue
        # disequalities: split (at most a few)
        def rec(rows, ne):
            if not ne:
                return _fm_unsat(rows)
            l = ne[0]
            c, k = _lin_form(l.lhs - l.rhs)
            return rec(rows + [(c, k, True)], ne[1:]) and rec(rows + [({x: -v for x, v in c.items()}, -k, True)], ne[1:])
        if not rec(rows, ne[:4]):
            return False
    return True


def lin_unsat(f):
    f = sp.sympify(f)
    if f is sp.false:
        return True
    if f is sp.true:
        return False
    try:
        d = sp.to_dnf(f, simplify=False)
    except Exception:
        return False
    conjs = d.args if isinstance(d, sp.Or) else (d,)
    return all(lin_conj_unsat(c.args if isinstance(c, sp.And) else (c,)) for c in conjs)


def lin_entails(g, t):
    return lin_unsat(sp.And(g, sp.Not(t)))
