"""Structured control-flow helpers over HIR (no goto in Rust HIR): parents, guards that dominate a node,
early-exit divergence conditions, statement ordering.

A *guard* of node X is a formula over condition nodes that holds whenever X is reached:
  * enclosing `if c` branches (c or ¬c), enclosing `while c` bodies (c), match arms are not decomposed;
  * for every statement S that precedes X in an enclosing block: ¬div(S), where div(S) is the condition under
    which S leaves the function/loop (return / break / continue / `?` is ignored).
Formulas: ("lit", cond_node, polarity) | ("and", [..]) | ("or", [..]) | ("true",) | ("false",)
"""
from .hir import children


def parent_map(root):
    pm = {}
    stack = [root]
    while stack:
        n = stack.pop()
        for c in children(n):
            pm[id(c)] = n
            stack.append(c)
    return pm


def ancestors(pm, n):
    out = []
    while id(n) in pm:
        n = pm[id(n)]
        out.append(n)
    return out


TRUE = ("true",)
FALSE = ("false",)


def f_and(*xs):
    ys = []
    for x in xs:
        if x == FALSE:
            return FALSE
        if x == TRUE:
            continue
        ys.append(x)
    if not ys:
        return TRUE
    return ys[0] if len(ys) == 1 else ("and", ys)


def f_or(*xs):
    ys = []
    for x in xs:
        if x == TRUE:
            return TRUE
        if x == FALSE:
            continue
        ys.append(x)
    if not ys:
        return FALSE
    return ys[0] if len(ys) == 1 else ("or", ys)


def f_not(x):
    if x == TRUE:
        return FALSE
    if x == FALSE:
        return TRUE
    if x[0] == "lit":
        return ("lit", x[1], not x[2])
    if x[0] == "and":
        return f_or(*[f_not(y) for y in x[1]])
    if x[0] == "or":
        return f_and(*[f_not(y) for y in x[1]])
    raise ValueError(x)


def lit(c, pol=True):
    # split && / || / ! structurally so each literal is an atomic condition
    k = c.get("k")
    if k == "Bin" and c["op"] == "And":
        f = f_and(lit(c["l"]), lit(c["r"]))
        return f if pol else f_not(f)
    if k == "Bin" and c["op"] == "Or":
        f = f_or(lit(c["l"]), lit(c["r"]))
        return f if pol else f_not(f)
    if k == "Un" and c["op"] == "Not":
        return lit(c["e"], not pol)
    if k == "Block" and not c.get("stmts") and c.get("expr") is not None:
        return lit(c["expr"], pol)
    return ("lit", c, pol)


def div(n, kinds=("Ret",)):
    """Condition under which executing n leaves through one of `kinds` (Ret/Break/Continue)."""
    k = n.get("k")
    if k in kinds:
        return TRUE
    if k in ("ExprS", "Semi"):
        return div(n["e"], kinds)
    if k == "LetS":
        return div(n["init"], kinds) if "init" in n else FALSE
    if k == "Block":
        seq = list(n["stmts"]) + ([n["expr"]] if n.get("expr") is not None else [])
        if any(div(s, kinds) == TRUE for s in seq):
            # some statement always leaves: every path through the block leaves at it or before it
            return TRUE
        acc = FALSE
        notyet = TRUE
        for s in n["stmts"]:
            d = div(s, kinds)
            acc = f_or(acc, f_and(notyet, d))
            notyet = f_and(notyet, f_not(d))
        if n.get("expr") is not None:
            acc = f_or(acc, f_and(notyet, div(n["expr"], kinds)))
        return acc
    if k == "If":
        c = lit(n["c"])
        t = div(n["t"], kinds)
        e = div(n["e"], kinds) if "e" in n else FALSE
        if t == TRUE and e == TRUE:
            return TRUE            # both branches leave: the `if` always leaves, whatever its condition
        return f_or(f_and(c, t), f_and(f_not(c), e))
    if k == "Match":
        # not decomposed: diverges for sure only if every arm does
        ds = [div(a["body"], kinds) for a in n["arms"]]
        if ds and all(d == TRUE for d in ds):
            return TRUE
        return FALSE
    if k in ("For", "While", "Loop", "Closure"):
        if "Ret" in kinds and k != "Closure":
            # a return inside a loop body may or may not execute: no *must* information, treat as unknown (FALSE)
            return FALSE
        return FALSE
    if k in ("Ret",):
        return TRUE
    # expression wrappers: a diverging sub-expression evaluated unconditionally
    for key in ("e", "init"):
        if isinstance(n.get(key), dict) and k in ("Try", "Ref", "Un", "Cast"):
            return div(n[key], kinds)
    return FALSE


def guards_of(root, target):
    """Formula that holds whenever `target` (a node inside root) is reached."""
    pm = parent_map(root)
    chain = [target] + ancestors(pm, target)
    g = TRUE
    for child, par in zip(chain[:-1], chain[1:]):
        k = par.get("k")
        if k == "If":
            if child is par.get("t"):
                g = f_and(g, lit(par["c"]))
            elif child is par.get("e"):
                g = f_and(g, f_not(lit(par["c"])))
        elif k == "While":
            if child is par.get("body"):
                g = f_and(g, lit(par["c"]))
        elif k == "Block":
            seq = list(par["stmts"]) + ([par["expr"]] if par.get("expr") is not None else [])
            for s in seq:
                if s is child:
                    break
                g = f_and(g, f_not(div(s, ("Ret", "Break", "Continue"))))
        elif k == "Closure":
            # guards outside a closure do not govern its (later) invocations
            break
    return g


def conj_lits(f):
    """Literals that hold for sure: the top-level conjuncts of the guard formula."""
    if f[0] == "lit":
        return [f]
    if f[0] == "and":
        out = []
        for x in f[1]:
            out += conj_lits(x)
        return out
    return []


def lits_of(f):
    if f[0] == "lit":
        return [f]
    if f[0] in ("and", "or"):
        out = []
        for x in f[1]:
            out += lits_of(x)
        return out
    return []


def preceding_statements(root, node):
    """Statements that precede `node` in the blocks enclosing it, outermost block first (the straight-line prefix leading to it)."""
    pm = parent_map(root)
    chain = [node] + ancestors(pm, node)
    out = []
    for child, par in reversed(list(zip(chain[:-1], chain[1:]))):
        if par.get("k") == "Block":
            for st in par.get("stmts", []):
                e = st.get("e") if st.get("k") in ("ExprS", "Semi") else None
                if st is child or e is child:
                    break
                out.append(st)
    return out


def before(root, a, b):
    """True if `a` lies in a statement that comes earlier than the statement containing `b` in their closest common block
    (a may be conditional; no claim that it executes)."""
    pm = parent_map(root)
    chain_b = [b] + ancestors(pm, b)
    chain_a = [a] + ancestors(pm, a)
    ids_b = {id(x): i for i, x in enumerate(chain_b)}
    for i, x in enumerate(chain_a):
        if id(x) in ids_b:
            lca, ia, ib = x, i, ids_b[id(x)]
            break
    else:
        return False
    if lca.get("k") != "Block" or ia == 0 or ib == 0:
        return False
    sa, sb = chain_a[ia - 1], chain_b[ib - 1]
    seq = list(lca["stmts"]) + ([lca["expr"]] if lca.get("expr") is not None else [])
    pa = [i for i, s_ in enumerate(seq) if s_ is sa]
    pb = [i for i, s_ in enumerate(seq) if s_ is sb]
    return bool(pa and pb and pa[0] < pb[0])


def precedes(root, a, b):
    """True if statement/expression `a` is executed before `b` on every path reaching b (a is, or is inside the
    unconditional part of, a statement preceding b in a block that encloses b)."""
    pm = parent_map(root)
    chain_b = [b] + ancestors(pm, b)
    chain_a = [a] + ancestors(pm, a)
    ids_b = {id(x): i for i, x in enumerate(chain_b)}
    # lowest common ancestor
    for i, x in enumerate(chain_a):
        if id(x) in ids_b:
            lca = x
            ia, ib = i, ids_b[id(x)]
            break
    else:
        return False
    if lca.get("k") != "Block" or ia == 0 or ib == 0:
        return False
    sa, sb = chain_a[ia - 1], chain_b[ib - 1]
    seq = list(lca["stmts"]) + ([lca["expr"]] if lca.get("expr") is not None else [])
    pa = [i for i, s in enumerate(seq) if s is sa]
    pb = [i for i, s in enumerate(seq) if s is sb]
    if not pa or not pb or pa[0] >= pb[0]:
        return False
    # a must be unconditional within its statement: no If/Match/loop/closure between sa and a
    for x in chain_a[:ia - 1]:
        par = pm.get(id(x))
        if par is not None and par.get("k") in ("If", "Match", "For", "While", "Loop", "Closure") and x is not par.get("c") and x is not par.get("iter"):
            if par.get("k") == "Match" and x is par.get("e"):
                continue
            return False
    return True


def in_return_position(body_root, pm, n):
    """True when the value of expression n is the value the *function* returns: operand of a `return`, or the function's tail expression,
    through blocks / if branches / match arms — not the value of a block under `?`, in a `let`, an argument, a condition."""
    cur = n
    while id(cur) in pm:
        par = pm[id(cur)]
        k = par.get("k")
        if k == "Ret":
            return True
        if k == "Block":
            if par.get("expr") is not cur:
                return False
        elif k == "If":
            if cur is par.get("c"):
                return False
        elif k == "Match":
            if cur is par.get("e"):
                return False
        elif k in ("ExprS", "Semi"):
            return False
        elif k is None and "body" in par and "pat" in par:
            pass                     # a match arm record {pat, guard, body}
        elif k in ("Paren", "DropTemps", "Use"):
            pass
        else:
            return False
        cur = par
    return cur is body_root
