"""Access layer over the typed-HIR facts: lookup by def-path, walkers, pretty printer, small matchers."""
import os
import re


class Facts:
    def __init__(self, raw, meta=None):
        self.raw = raw
        self.meta = meta or {}
        self.bodies = raw["bodies"]
        self.by_path = {}
        for b in self.bodies:
            self.by_path.setdefault(b["path"], []).append(b)
        self.adts = {a["path"]: a for a in raw["adts"]}
        self.impls = raw["impls"]
        self.repo = (meta or {}).get("repo", "/repo")

    # ---- lookup -------------------------------------------------------------------------------
    def fn(self, path, impl_trait=None, impl_self=None):
        """Exactly one body with this def path (optionally filtered by impl trait / self substrings)."""
        c = [b for b in self.by_path.get(path, [])]
        if impl_trait is not None:
            c = [b for b in c if impl_trait in (b.get("impl_trait") or "")]
        if impl_self is not None:
            c = [b for b in c if impl_self in (b.get("impl_self") or "")]
        if len(c) != 1:
            raise Missing("anchor %r (trait=%r self=%r): %d candidates" % (path, impl_trait, impl_self, len(c)))
        return c[0]

    def fns(self, pred):
        return [b for b in self.bodies if pred(b)]

    def find(self, regex, **kw):
        r = re.compile(regex)
        out = [b for b in self.bodies if r.search(b["path"])]
        for k, v in kw.items():
            out = [b for b in out if v in (b.get(k) or "")]
        return out

    def loc(self, body, node=None):
        sp = (node or body).get("sp") if node is not None else body.get("sp")
        if node is not None and "sp" not in node:
            sp = body.get("sp")
        return "%s:%d" % (body["file"], sp[0]) if sp else body["file"]

    def excerpt(self, body, node, maxlen=160):
        sp = node.get("sp")
        if not sp:
            return ""
        try:
            with open(os.path.join(self.repo, body["file"])) as fh:
                lines = fh.read().split("\n")
            l0, c0, l1, c1 = sp
            if l0 == l1:
                s = lines[l0 - 1][c0 - 1:c1 - 1]
            else:
                s = " ".join(x.strip() for x in ([lines[l0 - 1][c0 - 1:]] + lines[l0:l1 - 1] + [lines[l1 - 1][:c1 - 1]]))
            return s[:maxlen]
        except Exception:
            return ""


class Missing(Exception):
    """An anchor or a required shape was not found: the check fails closed."""


# ---- walkers --------------------------------------------------------------------------------------
CHILD_KEYS = ("f", "args", "recv", "es", "e", "l", "r", "init", "c", "t", "body", "arms", "stmts", "expr",
              "fields", "base", "iter", "i", "els", "guard")


def children(n):
    """Direct sub-expressions/statements of a node (patterns excluded)."""
    for k in CHILD_KEYS:
        v = n.get(k)
        if v is None:
            continue
        if isinstance(v, dict):
            yield v
        elif isinstance(v, list):
            for x in v:
                if isinstance(x, dict):
                    if "k" in x:
                        yield x
                    else:
                        # arm {pat,guard,body} or struct field {name,e}
                        for kk in ("guard", "body", "e"):
                            if isinstance(x.get(kk), dict):
                                yield x[kk]


def walk(n, into_closures=True):
    """Pre-order walk over expression and statement nodes."""
    stack = [n]
    while stack:
        x = stack.pop()
        yield x
        if x.get("k") == "Closure" and not into_closures:
            continue
        ch = list(children(x))
        stack.extend(reversed(ch))


def walk_with_parents(n, parents=()):
    yield n, parents
    p2 = parents + (n,)
    for c in children(n):
        yield from walk_with_parents(c, p2)


def pat_binds(p):
    """All (id, name) bound by a pattern."""
    out = []

    def go(q):
        if not isinstance(q, dict):
            return
        if q.get("k") == "Bind":
            out.append((q["id"], q["name"]))
            if "sub" in q:
                go(q["sub"])
        for key in ("ps", "before", "after"):
            for x in q.get(key, []) or []:
                go(x)
        for key in ("p", "mid"):
            if key in q:
                go(q[key])
        for f in q.get("fields", []) or []:
            go(f.get("pat"))
    go(p)
    return out


# ---- peeling ownership noise -----------------------------------------------------------------------
NOISE_METHODS = {"clone", "to_owned", "borrow", "as_ref", "into", "copied", "cloned", "to_vec", "clone_owned",
                 "into_owned"}


def peel(n):
    """Strip &, *, .clone() and friends, single-expression blocks."""
    while True:
        k = n.get("k")
        if k == "Ref":
            n = n["e"]
        elif k == "Un" and n.get("op") == "Deref":
            n = n["e"]
        elif k == "MCall" and n["name"] in NOISE_METHODS and not n["args"]:
            n = n["recv"]
        elif k == "Block" and not n.get("stmts") and n.get("expr") is not None:
            n = n["expr"]
        elif k == "Cast":
            return n
        else:
            return n


def callee(n):
    """Resolved def-path of a Call/MCall, or None."""
    if n.get("k") == "MCall":
        return n.get("def")
    if n.get("k") == "Call":
        f = n["f"]
        if f.get("k") == "Path":
            return f.get("ctor_of") or f.get("def")
    return None


def is_local(n, name=None):
    n = peel(n)
    return n.get("k") == "Local" and (name is None or n["name"] == name)


def place(n):
    """Canonical string for a place expression (`self.dt`, `x`, `self.a.b`), else None."""
    n = peel(n)
    k = n.get("k")
    if k == "Local":
        return n["name"]
    if k == "Field":
        b = place(n["e"])
        return None if b is None else b + "." + n["name"]
    if k == "Index":
        b = place(n["e"])
        return None if b is None else b + "[" + pp(n["i"]) + "]"
    return None


# ---- pretty printer ---------------------------------------------------------------------------------
BINOPS = {"Add": "+", "Sub": "-", "Mul": "*", "Div": "/", "Rem": "%", "And": "&&", "Or": "||", "BitXor": "^",
          "BitAnd": "&", "BitOr": "|", "Shl": "<<", "Shr": ">>", "Eq": "==", "Lt": "<", "Le": "<=", "Ne": "!=",
          "Ge": ">=", "Gt": ">"}
ASSIGNOPS = {"AddAssign": "+=", "SubAssign": "-=", "MulAssign": "*=", "DivAssign": "/=", "RemAssign": "%=",
             "BitXorAssign": "^=", "BitAndAssign": "&=", "BitOrAssign": "|=", "ShlAssign": "<<=", "ShrAssign": ">>="}


def pp_pat(p):
    k = p.get("k")
    if k == "Bind":
        m = "mut " if "Mut)" in p.get("mode", "") else ""
        r = "ref " if "BindingMode(Ref" in p.get("mode", "") else ""
        return r + m + p["name"]
    if k == "Wild":
        return "_"
    if k == "PTuple":
        return "(" + ", ".join(pp_pat(x) for x in p["ps"]) + ")"
    if k == "PTupleStruct":
        return p.get("def", "?").split("::")[-1] + "(" + ", ".join(pp_pat(x) for x in p["ps"]) + ")"
    if k == "PStruct":
        return p.get("def", "?").split("::")[-1] + "{" + ", ".join(f["name"] + ": " + pp_pat(f["pat"]) for f in p["fields"]) + "}"
    if k == "PPath":
        return p.get("def", "?")
    if k == "PRef":
        return "&" + pp_pat(p["p"])
    if k == "PLit":
        return ("-" if p.get("neg") else "") + p.get("v", "?")
    if k == "POr":
        return " | ".join(pp_pat(x) for x in p["ps"])
    return k or "?"


def pp(n, depth=0):
    """One-line pseudo-Rust rendering (for reports and debugging)."""
    k = n.get("k")
    if k == "Lit":
        return n["v"] if n["lit"] != "str" else repr(n["v"])
    if k == "Local":
        return n["name"]
    if k == "Path":
        return n.get("ctor_of") or n["def"]
    if k == "Call":
        return pp(n["f"]) + "(" + ", ".join(pp(a) for a in n["args"]) + ")"
    if k == "MCall":
        return pp(n["recv"]) + "." + n["name"] + "(" + ", ".join(pp(a) for a in n["args"]) + ")"
    if k == "Bin":
        return "(" + pp(n["l"]) + " " + BINOPS.get(n["op"], n["op"]) + " " + pp(n["r"]) + ")"
    if k == "Un":
        return {"Neg": "-", "Not": "!", "Deref": "*"}.get(n["op"], n["op"]) + pp(n["e"])
    if k == "Ref":
        return ("&mut " if n.get("mut") else "&") + pp(n["e"])
    if k == "Field":
        return pp(n["e"]) + "." + n["name"]
    if k == "Index":
        return pp(n["e"]) + "[" + pp(n["i"]) + "]"
    if k == "Tup":
        return "(" + ", ".join(pp(a) for a in n["es"]) + ")"
    if k == "Array":
        return "[" + ", ".join(pp(a) for a in n["es"]) + "]"
    if k == "Repeat":
        return "[" + pp(n["e"]) + "; " + str(n.get("n")) + "]"
    if k == "Cast":
        return pp(n["e"]) + " as " + n.get("ty", "?")
    if k == "Assign":
        return pp(n["l"]) + " = " + pp(n["r"])
    if k == "AssignOp":
        return pp(n["l"]) + " " + ASSIGNOPS.get(n["op"], n["op"]) + " " + pp(n["r"])
    if k == "Try":
        return pp(n["e"]) + "?"
    if k == "Ret":
        return "return " + (pp(n["e"]) if "e" in n else "")
    if k == "Break":
        return "break" + (" " + pp(n["e"]) if "e" in n else "")
    if k == "Continue":
        return "continue"
    if k == "Struct":
        return n["def"] + "{" + ", ".join(f["name"] + ": " + pp(f["e"]) for f in n["fields"]) + "}"
    if k == "Closure":
        return "|" + ", ".join(pp_pat(p) for p in n["params"]) + "| " + pp(n["body"])
    if k == "Let":
        return "let " + pp_pat(n["pat"]) + " = " + pp(n["init"])
    if k == "If":
        s = "if " + pp(n["c"]) + " " + pp(n["t"])
        if "e" in n:
            s += " else " + pp(n["e"])
        return s
    if k == "Block":
        parts = [pp(s) for s in n["stmts"]]
        if n.get("expr") is not None:
            parts.append(pp(n["expr"]))
        return "{ " + "; ".join(parts) + " }"
    if k == "LetS":
        s = "let " + pp_pat(n["pat"])
        if "init" in n:
            s += " = " + pp(n["init"])
        return s
    if k in ("ExprS", "Semi"):
        return pp(n["e"])
    if k == "ItemS":
        return "<item>"
    if k == "For":
        return "for " + pp_pat(n["pat"]) + " in " + pp(n["iter"]) + " " + pp(n["body"])
    if k == "While":
        return "while " + pp(n["c"]) + " " + pp(n["body"])
    if k == "Loop":
        return "loop " + pp(n["body"])
    if k == "Match":
        return "match " + pp(n["e"]) + " { " + ", ".join(
            pp_pat(a["pat"]) + (" if " + pp(a["guard"]) if "guard" in a else "") + " => " + pp(a["body"]) for a in n["arms"]) + " }"
    return "<" + str(k) + ">"


def pp_body(n, ind=0):
    """Multi-line rendering of statements, for debugging."""
    pad = "  " * ind
    k = n.get("k")
    out = []
    if k == "Block":
        for s in n["stmts"]:
            out += pp_body(s, ind)
        if n.get("expr") is not None:
            out += pp_body(n["expr"], ind)
        return out
    if k in ("ExprS", "Semi"):
        return pp_body(n["e"], ind)
    if k == "LetS" and "init" in n and n["init"].get("k") in ("If", "Match", "Block", "Loop"):
        out.append(pad + "let " + pp_pat(n["pat"]) + " =")
        return out + pp_body(n["init"], ind + 1)
    if k == "If":
        out.append(pad + "if " + pp(n["c"]) + " {")
        out += pp_body(n["t"], ind + 1)
        if "e" in n:
            out.append(pad + "} else {")
            out += pp_body(n["e"], ind + 1)
        out.append(pad + "}")
        return out
    if k == "For":
        out.append(pad + "for " + pp_pat(n["pat"]) + " in " + pp(n["iter"]) + " {")
        out += pp_body(n["body"], ind + 1)
        out.append(pad + "}")
        return out
    if k == "While":
        out.append(pad + "while " + pp(n["c"]) + " {")
        out += pp_body(n["body"], ind + 1)
        out.append(pad + "}")
        return out
    if k == "Loop":
        out.append(pad + "loop {")
        out += pp_body(n["body"], ind + 1)
        out.append(pad + "}")
        return out
    if k == "Match":
        out.append(pad + "match " + pp(n["e"]) + " {")
        for a in n["arms"]:
            out.append(pad + "  " + pp_pat(a["pat"]) + (" if " + pp(a["guard"]) if "guard" in a else "") + " =>")
            out += pp_body(a["body"], ind + 2)
        out.append(pad + "}")
        return out
    ln = n.get("sp", [0])[0]
    out.append(pad + pp(n) + "    // L%d" % ln)
    return out
