"""Access layer over the typed-HIR facts: lookup by def-path, walkers, pretty printer, small matchers."""
import os
import re


class Facts:
    def __init__(self, raw, meta=None, canonicalise=True):
        self.raw = raw
        self.meta = meta or {}
        self.bodies = raw["bodies"]
        self.by_path = {}
        impl_assigned = {}
        for b in self.bodies:
            if b.get("_loops_normalised"):
                continue
            acc = impl_assigned.setdefault(b.get("impl_self") or "", set())
            for n in walk(b.get("body") or {}):
                if n.get("k") in ("Assign", "AssignOp"):
                    l = peel(n["l"])
                    if l.get("k") == "Index":
                        l = peel(l["e"])
                    if l.get("k") == "Field" and place(l):
                        acc.add(place(l))
                if n.get("k") == "Ref" and n.get("mut") and peel(n["e"]).get("k") == "Field" and place(peel(n["e"])):
                    acc.add(place(peel(n["e"])))
                if n.get("k") == "MCall" and n["name"] not in _PURE_M and peel(n["recv"]).get("k") == "Field" and place(peel(n["recv"])):
                    acc.add(place(peel(n["recv"])))
        for b in self.bodies:
            if not b.get("_loops_normalised"):
                b["_impl_assigned_fields"] = sorted(impl_assigned.get(b.get("impl_self") or "", ()))
                try:
                    split_destructuring(b)
                except Exception:
                    pass
                try:
                    normalise_loops(b)
                except Exception:
                    pass
                try:
                    normalise_find_map(b)
                except Exception:
                    pass
                try:
                    normalise_matches(b)
                except Exception:
                    pass
                try:
                    simplify_lets(b)
                except Exception:
                    pass
                b["_loops_normalised"] = True
            self.by_path.setdefault(b["path"], []).append(b)
        if canonicalise:
            try:
                inline_new_helpers(self)
            except Exception:
                pass
        if canonicalise:
            try:
                canonicalise_locals(self.bodies)
            except Exception:
                pass
        self.adts = {a["path"]: a for a in raw["adts"]}
        self.impls = raw["impls"]
        self.repo = (meta or {}).get("repo", "/repo")

    # ---- lookup -------------------------------------------------------------------------------
    def fn(self, path, impl_trait=None, impl_self=None):
        """Exactly one body with this def path (optionally filtered by impl trait / self substrings)."""
        c = [b for b in self.by_path.get(path, [])]
        if impl_trait is not None:
            c = [b for b in c if impl_trait in (b.get("impl_trait") or "")]
        if impl_self is not None:
            c = [b for b in c if impl_self in (b.get("impl_self") or "")]
        if len(c) != 1:
            raise Missing("anchor %r (trait=%r self=%r): %d candidates" % (path, impl_trait, impl_self, len(c)))
        return c[0]

    def fns(self, pred):
        return [b for b in self.bodies if pred(b)]

    def find(self, regex, **kw):
        r = re.compile(regex)
        out = [b for b in self.bodies if r.search(b["path"])]
        for k, v in kw.items():
            out = [b for b in out if v in (b.get(k) or "")]
        return out

    def loc(self, body, node=None):
        sp = (node or body).get("sp") if node is not None else body.get("sp")
        if node is not None and "sp" not in node:
            sp = body.get("sp")
        return "%s:%d" % (body["file"], sp[0]) if sp else body["file"]

    def excerpt(self, body, node, maxlen=160):
        sp = node.get("sp")
        if not sp:
            return ""
        try:
            with open(os.path.join(self.repo, body["file"])) as fh:
                lines = fh.read().split("\n")
            l0, c0, l1, c1 = sp
            if l0 == l1:
                s = lines[l0 - 1][c0 - 1:c1 - 1]
            else:
                s = " ".join(x.strip() for x in ([lines[l0 - 1][c0 - 1:]] + lines[l0:l1 - 1] + [lines[l1 - 1][:c1 - 1]]))
            return s[:maxlen]
        except Exception:
            return ""


class Missing(Exception):
    """An anchor or a required shape was not found: the check fails closed."""


# ---- walkers --------------------------------------------------------------------------------------
CHILD_KEYS = ("f", "args", "recv", "es", "e", "l", "r", "init", "c", "t", "body", "arms", "stmts", "expr",
              "fields", "base", "iter", "i", "els", "guard")


def children(n):
    """Direct sub-expressions/statements of a node (patterns excluded)."""
    for k in CHILD_KEYS:
        v = n.get(k)
        if v is None:
            continue
        if isinstance(v, dict):
            yield v
        elif isinstance(v, list):
            for x in v:
                if isinstance(x, dict):
                    if "k" in x:
                        yield x
                    else:
                        # arm {pat,guard,body} or struct field {name,e}
                        for kk in ("guard", "body", "e"):
                            if isinstance(x.get(kk), dict):
                                yield x[kk]


def walk(n, into_closures=True):
    """Pre-order walk over expression and statement nodes."""
    stack = [n]
    while stack:
        x = stack.pop()
        yield x
        if x.get("k") == "Closure" and not into_closures:
            continue
        ch = list(children(x))
        stack.extend(reversed(ch))


def walk_with_parents(n, parents=()):
    yield n, parents
    p2 = parents + (n,)
    for c in children(n):
        yield from walk_with_parents(c, p2)


def pat_binds(p):
    """All (id, name) bound by a pattern."""
    out = []

    def go(q):
        if not isinstance(q, dict):
            return
        if q.get("k") == "Bind":
            out.append((q["id"], q["name"]))
            if "sub" in q:
                go(q["sub"])
        for key in ("ps", "before", "after"):
            for x in q.get(key, []) or []:
                go(x)
        for key in ("p", "mid"):
            if key in q:
                go(q[key])
        for f in q.get("fields", []) or []:
            go(f.get("pat"))
    go(p)
    return out


# ---- peeling ownership noise -----------------------------------------------------------------------
NOISE_METHODS = {"clone", "to_owned", "borrow", "as_ref", "into", "copied", "cloned", "to_vec", "clone_owned",
                 "into_owned"}


def peel(n):
    """Strip &, *, .clone() and friends, single-expression blocks."""
    while True:
        k = n.get("k")
        if k == "Ref":
            n = n["e"]
        elif k == "Un" and n.get("op") == "Deref":
            n = n["e"]
        elif k == "MCall" and n["name"] in NOISE_METHODS and not n["args"]:
            n = n["recv"]
        elif k == "Block" and not n.get("stmts") and n.get("expr") is not None:
            n = n["expr"]
        elif k == "Cast":
            return n
        else:
            return n


def callee(n):
    """Resolved def-path of a Call/MCall, or None."""
    if n.get("k") == "MCall":
        return n.get("def")
    if n.get("k") == "Call":
        f = n["f"]
        if f.get("k") == "Path":
            return f.get("ctor_of") or f.get("def")
    return None


def is_local(n, name=None):
    n = peel(n)
    return n.get("k") == "Local" and (name is None or n["name"] == name)


def place(n):
    """Canonical string for a place expression (`self.dt`, `x`, `self.a.b`), else None."""
    n = peel(n)
    k = n.get("k")
    if k == "Local":
        return n["name"]
    if k == "Field":
        b = place(n["e"])
        return None if b is None else b + "." + n["name"]
    if k == "Index":
        b = place(n["e"])
        return None if b is None else b + "[" + pp(n["i"]) + "]"
    return None


# ---- pretty printer ---------------------------------------------------------------------------------
BINOPS = {"Add": "+", "Sub": "-", "Mul": "*", "Div": "/", "Rem": "%", "And": "&&", "Or": "||", "BitXor": "^",
          "BitAnd": "&", "BitOr": "|", "Shl": "<<", "Shr": ">>", "Eq": "==", "Lt": "<", "Le": "<=", "Ne": "!=",
          "Ge": ">=", "Gt": ">"}
ASSIGNOPS = {"AddAssign": "+=", "SubAssign": "-=", "MulAssign": "*=", "DivAssign": "/=", "RemAssign": "%=",
             "BitXorAssign": "^=", "BitAndAssign": "&=", "BitOrAssign": "|=", "ShlAssign": "<<=", "ShrAssign": ">>="}


def pp_pat(p):
    k = p.get("k")
    if k == "Bind":
        m = "mut " if "Mut)" in p.get("mode", "") else ""
        r = "ref " if "BindingMode(Ref" in p.get("mode", "") else ""
        return r + m + p["name"]
    if k == "Wild":
        return "_"
    if k == "PTuple":
        return "(" + ", ".join(pp_pat(x) for x in p["ps"]) + ")"
    if k == "PTupleStruct":
        return p.get("def", "?").split("::")[-1] + "(" + ", ".join(pp_pat(x) for x in p["ps"]) + ")"
    if k == "PStruct":
        return p.get("def", "?").split("::")[-1] + "{" + ", ".join(f["name"] + ": " + pp_pat(f["pat"]) for f in p["fields"]) + "}"
    if k == "PPath":
        return p.get("def", "?")
    if k == "PRef":
        return "&" + pp_pat(p["p"])
    if k == "PLit":
        return ("-" if p.get("neg") else "") + p.get("v", "?")
    if k == "POr":
        return " | ".join(pp_pat(x) for x in p["ps"])
    return k or "?"


def pp(n, depth=0):
    """One-line pseudo-Rust rendering (for reports and debugging)."""
    k = n.get("k")
    if k == "Lit":
        return n["v"] if n["lit"] != "str" else repr(n["v"])
    if k == "Local":
        return n["name"]
    if k == "Path":
        return n.get("ctor_of") or n["def"]
    if k == "Call":
        return pp(n["f"]) + "(" + ", ".join(pp(a) for a in n["args"]) + ")"
    if k == "MCall":
        return pp(n["recv"]) + "." + n["name"] + "(" + ", ".join(pp(a) for a in n["args"]) + ")"
    if k == "Bin":
        return "(" + pp(n["l"]) + " " + BINOPS.get(n["op"], n["op"]) + " " + pp(n["r"]) + ")"
    if k == "Un":
        return {"Neg": "-", "Not": "!", "Deref": "*"}.get(n["op"], n["op"]) + pp(n["e"])
    if k == "Ref":
        return ("&mut " if n.get("mut") else "&") + pp(n["e"])
    if k == "Field":
        return pp(n["e"]) + "." + n["name"]
    if k == "Index":
        return pp(n["e"]) + "[" + pp(n["i"]) + "]"
    if k == "Tup":
        return "(" + ", ".join(pp(a) for a in n["es"]) + ")"
    if k == "Array":
        return "[" + ", ".join(pp(a) for a in n["es"]) + "]"
    if k == "Repeat":
        return "[" + pp(n["e"]) + "; " + str(n.get("n")) + "]"
    if k == "Cast":
        return pp(n["e"]) + " as " + n.get("ty", "?")
    if k == "Assign":
        return pp(n["l"]) + " = " + pp(n["r"])
    if k == "AssignOp":
        return pp(n["l"]) + " " + ASSIGNOPS.get(n["op"], n["op"]) + " " + pp(n["r"])
    if k == "Try":
        return pp(n["e"]) + "?"
    if k == "Ret":
        return "return " + (pp(n["e"]) if "e" in n else "")
    if k == "Break":
        return "break" + (" " + pp(n["e"]) if "e" in n else "")
    if k == "Continue":
        return "continue"
    if k == "Struct":
        return n["def"] + "{" + ", ".join(f["name"] + ": " + pp(f["e"]) for f in n["fields"]) + "}"
    if k == "Closure":
        return "|" + ", ".join(pp_pat(p) for p in n["params"]) + "| " + pp(n["body"])
    if k == "Let":
        return "let " + pp_pat(n["pat"]) + " = " + pp(n["init"])
    if k == "If":
        s = "if " + pp(n["c"]) + " " + pp(n["t"])
        if "e" in n:
            s += " else " + pp(n["e"])
        return s
    if k == "Block":
        parts = [pp(s) for s in n["stmts"]]
        if n.get("expr") is not None:
            parts.append(pp(n["expr"]))
        return "{ " + "; ".join(parts) + " }"
    if k == "LetS":
        s = "let " + pp_pat(n["pat"])
        if "init" in n:
            s += " = " + pp(n["init"])
        return s
    if k in ("ExprS", "Semi"):
        return pp(n["e"])
    if k == "ItemS":
        return "<item>"
    if k == "For":
        return "for " + pp_pat(n["pat"]) + " in " + pp(n["iter"]) + " " + pp(n["body"])
    if k == "While":
        return "while " + pp(n["c"]) + " " + pp(n["body"])
    if k == "Loop":
        return "loop " + pp(n["body"])
    if k == "Match":
        return "match " + pp(n["e"]) + " { " + ", ".join(
            pp_pat(a["pat"]) + (" if " + pp(a["guard"]) if "guard" in a else "") + " => " + pp(a["body"]) for a in n["arms"]) + " }"
    return "<" + str(k) + ">"


def pp_body(n, ind=0):
    """Multi-line rendering of statements, for debugging."""
    pad = "  " * ind
    k = n.get("k")
    out = []
    if k == "Block":
        for s in n["stmts"]:
            out += pp_body(s, ind)
        if n.get("expr") is not None:
            out += pp_body(n["expr"], ind)
        return out
    if k in ("ExprS", "Semi"):
        return pp_body(n["e"], ind)
    if k == "LetS" and "init" in n and n["init"].get("k") in ("If", "Match", "Block", "Loop"):
        out.append(pad + "let " + pp_pat(n["pat"]) + " =")
        return out + pp_body(n["init"], ind + 1)
    if k == "If":
        out.append(pad + "if " + pp(n["c"]) + " {")
        out += pp_body(n["t"], ind + 1)
        if "e" in n:
            out.append(pad + "} else {")
            out += pp_body(n["e"], ind + 1)
        out.append(pad + "}")
        return out
    if k == "For":
        out.append(pad + "for " + pp_pat(n["pat"]) + " in " + pp(n["iter"]) + " {")
        out += pp_body(n["body"], ind + 1)
        out.append(pad + "}")
        return out
    if k == "While":
        out.append(pad + "while " + pp(n["c"]) + " {")
        out += pp_body(n["body"], ind + 1)
        out.append(pad + "}")
        return out
    if k == "Loop":
        out.append(pad + "loop {")
        out += pp_body(n["body"], ind + 1)
        out.append(pad + "}")
        return out
    if k == "Match":
        out.append(pad + "match " + pp(n["e"]) + " {")
        for a in n["arms"]:
            out.append(pad + "  " + pp_pat(a["pat"]) + (" if " + pp(a["guard"]) if "guard" in a else "") + " =>")
            out += pp_body(a["body"], ind + 2)
        out.append(pad + "}")
        return out
    ln = n.get("sp", [0])[0]
    out.append(pad + pp(n) + "    // L%d" % ln)
    return out


# ---- loop normal form ----------------------------------------------------------------------------------------------------------
def _only(block, kind):
    """block consists of a single `break` (kind 'Break', no value, innermost target) / `return e` (kind 'Ret')."""
    x = block
    while isinstance(x, dict) and x.get("k") == "Block":
        items = list(x.get("stmts") or []) + ([x["expr"]] if x.get("expr") is not None else [])
        if len(items) != 1:
            return None
        x = items[0]
        if x.get("k") in ("ExprS", "Semi"):
            x = x["e"]
    if isinstance(x, dict) and x.get("k") == kind:
        return x
    return None


def _not(c):
    if c.get("k") == "Un" and c.get("op") == "Not":
        return c["e"]
    return {"k": "Un", "op": "Not", "e": c, "ty": "bool", "sp": c.get("sp")}


def split_destructuring(body):
    """`let (a, b) = (x, y);` becomes `let a = x; let b = y;` and `let Self { f, g: h, .. } = self;` (any struct pattern of plain bindings on a place)
    becomes `let f = self.f; let h = self.g;`.  Bindings introduce fresh locals, so the right-hand sides cannot see them: order is immaterial for the
    tuple form when the components are pure or there is only one impure component."""
    root = body.get("body")
    if not isinstance(root, dict):
        return

    def plain(p_):
        return p_.get("k") == "Bind" and "sub" not in p_ or p_.get("k") == "Wild"
    for blk in walk(root):
        if blk.get("k") != "Block" or not blk.get("stmts"):
            continue
        out = []
        for st in blk["stmts"]:
            if st.get("k") == "LetS" and "init" in st and "els" not in st:
                pat, init = st["pat"], st["init"]
                names_ = [q.get("name") for q in pat.get("ps", []) if q.get("k") == "Bind"]
                if pat.get("k") == "PTuple" and len(set(names_)) != len(names_):
                    out.append(st)          # `(a, b) = (b, a)` desugars to `let (lhs, lhs) = (b, a); a = lhs; b = lhs`: the binders share a name; rules that follow names must not see them apart
                    continue
                if pat.get("k") == "PTuple" and init.get("k") == "Tup" and len(pat["ps"]) == len(init.get("es", [])) >= 2 and all(plain(q) for q in pat["ps"]) \
                        and sum(0 if _pure_expr(e) else 1 for e in init["es"]) <= 1 and all(q.get("k") == "Bind" or _pure_expr(e) for q, e in zip(pat["ps"], init["es"])):
                    for q, e in zip(pat["ps"], init["es"]):
                        if q.get("k") == "Bind":
                            out.append({"k": "LetS", "pat": q, "init": e, "sp": st.get("sp")})
                    continue
                pl = init
                while isinstance(pl, dict) and pl.get("k") in ("Paren", "DropTemps"):
                    pl = pl.get("e")
                if pat.get("k") == "PStruct" and isinstance(pl, dict) and pl.get("k") in ("Local", "Field") and place(pl) is not None and pat.get("fields") \
                        and all(plain(f["pat"]) for f in pat["fields"]):
                    for f in pat["fields"]:
                        if f["pat"].get("k") == "Bind":
                            out.append({"k": "LetS", "pat": f["pat"], "init": {"k": "Field", "e": _deep(pl), "name": f["name"], "ty": f["pat"].get("ty"), "sp": st.get("sp")}, "sp": st.get("sp")})
                    continue
            out.append(st)
        blk["stmts"] = out


def normalise_loops(body):
    """`loop { if C { break } REST }`  ->  `while !C { REST }`;
    a function body ending in `loop { if C { return E } REST }`  ->  `while !C { REST }` followed by the tail expression E.
    (Equivalent control flow; lets every rule treat the three spellings of a conditional loop alike.)"""
    def stmts_of(loop):
        blk = loop.get("body")
        if not isinstance(blk, dict) or blk.get("k") != "Block":
            return None
        return blk

    PURE_METHODS = {"abs", "real", "imaginary", "clone", "len", "modulus", "norm", "recip", "powi", "powf", "sqrt", "signum", "is_sign_positive", "is_sign_negative",
                    "max", "min", "is_empty", "unwrap", "ln", "log2", "ceil", "floor"}

    def pure(e):
        for x in walk(e):
            k = x.get("k")
            if k == "MCall" and x["name"] not in PURE_METHODS:
                return False
            if k == "Call" and ("ovl" in x or not (callee(x) or "").startswith(("num_traits", "std::convert", "nalgebra::ComplexField", "core::convert"))):
                return False
            if k in ("Assign", "AssignOp", "Closure", "Loop", "While", "For", "Ret", "Break", "Continue", "Try"):
                return False
        return True

    def subst(e, mapping):
        """Deep copy of e with Local nodes replaced by (copies of) their defining expressions."""
        if isinstance(e, dict):
            if e.get("k") == "Local" and e.get("id") in mapping:
                return subst(mapping[e["id"]], mapping)
            return {k: subst(v, mapping) for k, v in e.items()}
        if isinstance(e, list):
            return [subst(x, mapping) for x in e]
        return e

    def first_if(blk):
        """(statements to keep in the body, the exit `if`, substitution for pure `let`s that precede it)."""
        items = list(blk.get("stmts") or [])
        lets = {}
        for i, st in enumerate(items + ([blk["expr"]] if blk.get("expr") is not None else [])):
            if st.get("k") == "LetS" and st["pat"].get("k") == "Bind" and "init" in st and "Mut)" not in st["pat"].get("mode", "") and pure(st["init"]):
                lets[st["pat"]["id"]] = st["init"]
                continue
            e = st["e"] if st.get("k") in ("ExprS", "Semi") else st
            if isinstance(e, dict) and e.get("k") == "If" and "e" not in e:
                return st, e, lets
            break
        return None, None, None

    def rewrite(loop, allow_return):
        blk = stmts_of(loop)
        if blk is None:
            return None
        first, iff, lets = first_if(blk)
        if iff is None:
            return None
        brk = _only(iff["t"], "Break")
        ret = _only(iff["t"], "Ret") if allow_return else None
        if brk is not None and "e" not in brk and brk.get("target") in (None, loop.get("id")):
            pass
        elif ret is not None:
            pass
        else:
            return None
        # no other break out of this loop may carry a value
        rest_stmts = [x for x in (blk.get("stmts") or []) if x is not first]
        new_body = {"k": "Block", "stmts": rest_stmts, "sp": blk.get("sp"), "ty": "()"}
        if blk.get("expr") is not None and blk["expr"] is not first:
            new_body["expr"] = blk["expr"]
        cond = _not(iff["c"])
        if lets:
            cond = subst(cond, lets)
        wh = {"k": "While", "id": loop.get("id"), "c": cond, "body": new_body, "ty": "()", "sp": loop.get("sp")}
        return wh, (ret["e"] if (ret is not None and brk is None) else None)

    def visit(node, is_fn_tail):
        if isinstance(node, dict):
            if node.get("k") == "Block":
                items = node.get("stmts") or []
                for i, st in enumerate(items):
                    e = st["e"] if st.get("k") in ("ExprS", "Semi") else None
                    if isinstance(e, dict) and e.get("k") == "Loop":
                        r = rewrite(e, False)
                        if r is not None and r[1] is None:
                            st["e"] = r[0]
                tail = node.get("expr")
                if isinstance(tail, dict) and tail.get("k") == "Loop":
                    r = rewrite(tail, is_fn_tail)
                    if r is not None:
                        wh, ret_e = r
                        if ret_e is None:
                            node["expr"] = wh
                        else:
                            node["stmts"] = list(items) + [{"k": "Semi", "e": wh, "sp": wh.get("sp")}]
                            node["expr"] = ret_e
            for k, v in list(node.items()):
                if k == "expr" and node.get("k") == "Block":
                    visit(v, is_fn_tail)
                elif isinstance(v, (dict, list)):
                    visit(v, False)
        elif isinstance(node, list):
            for x in node:
                visit(x, False)
    # a `loop` that is the function's tail expression yields its `break V` values as the function's result: `break V` there is `return V`
    def tail_loop(node):
        while isinstance(node, dict) and node.get("k") == "Block" and node.get("expr") is not None:
            node = node["expr"]
        return node if isinstance(node, dict) and node.get("k") == "Loop" else None

    def breaks_to_returns(node, loop_id, depth):
        if isinstance(node, list):
            for x in node:
                breaks_to_returns(x, loop_id, depth)
            return
        if not isinstance(node, dict):
            return
        if node.get("k") == "Closure":
            return
        inner = depth + (1 if node.get("k") in ("Loop", "While", "For") and node.get("id") != loop_id else 0)
        if node.get("k") == "Break" and "e" in node and (node.get("target") == loop_id or (node.get("target") is None and depth == 0)):
            v = node["e"]
            node.clear()
            node.update({"k": "Ret", "e": v, "ty": "!", "sp": v.get("sp")})
            return
        for v in node.values():
            if isinstance(v, (dict, list)):
                breaks_to_returns(v, loop_id, inner)
    tl = tail_loop(body.get("body"))
    if tl is not None:
        breaks_to_returns(tl.get("body"), tl.get("id"), 0)
    visit(body.get("body"), True)


# ---- reference names for renamed locals ----------------------------------------------------------------------------------------
def _anon(e):
    """Pretty-printed expression with every local name replaced by `_` (rename-invariant)."""
    if isinstance(e, dict):
        if e.get("k") == "Local":
            return dict(e, name="_")
        return {k: _anon(v) for k, v in e.items()}
    if isinstance(e, list):
        return [_anon(x) for x in e]
    return e


def local_fingerprints(body):
    """[{name, fp}] for the parameters and `let` bindings of a body; fp = (kind/position, type, mutability, loop depth, anonymised initialiser)."""
    out = []
    seen = set()

    def binds(p):
        if isinstance(p, dict):
            if p.get("k") == "Bind":
                yield p
            for v in p.values():
                if isinstance(v, (dict, list)):
                    yield from binds(v)
        elif isinstance(p, list):
            for x in p:
                yield from binds(x)
    for k, prm in enumerate(body.get("params", [])):
        for j, bd in enumerate(binds(prm)):
            out.append({"name": bd["name"], "fp": "param#%d.%d|%s" % (k, j, bd.get("ty"))})
            seen.add(bd["id"])

    def visit(n, depth):
        if isinstance(n, dict):
            k = n.get("k")
            if k == "LetS" and n["pat"].get("k") == "Bind" and n["pat"]["id"] not in seen:
                bd = n["pat"]
                seen.add(bd["id"])
                init = pp(_anon(n["init"]))[:200] if "init" in n else ""
                out.append({"name": bd["name"], "fp": "let|%s|%s|d%d|%s" % (bd.get("ty"), "mut" if "Mut)" in bd.get("mode", "") else "imm", depth, init)})
            nd = depth + 1 if k in ("While", "For", "Loop") else depth
            if k == "Closure":
                nd = depth + 10
            for v in n.values():
                if isinstance(v, (dict, list)):
                    visit(v, nd)
        elif isinstance(n, list):
            for x in n:
                visit(x, depth)
    visit(body.get("body"), 0)
    return out


_LOCAL_REF = None
_FN_REF = None


def _subst_locals(n, mapping, offset):
    """Deep copy of a callee body with its local ids shifted by `offset` and the locals in `mapping` (callee id -> replacement node) replaced."""
    if isinstance(n, list):
        return [_subst_locals(x, mapping, offset) for x in n]
    if not isinstance(n, dict):
        return n
    if n.get("k") == "Local" and n.get("id") in mapping:
        return _deep(mapping[n["id"]])
    out = {}
    for k, v in n.items():
        if k == "id" and isinstance(v, int) and n.get("k") in ("Local", "Bind", "While", "For", "Loop", "Block", "Closure"):
            out[k] = v + offset
        elif k == "target" and isinstance(v, int):
            out[k] = v + offset
        else:
            out[k] = _subst_locals(v, mapping, offset)
    return out


def _ends_with_return(blk):
    """A block whose last statement is `return X` (nothing after it): -> (statements before, X) or None."""
    if not (isinstance(blk, dict) and blk.get("k") == "Block"):
        return None
    stmts = blk.get("stmts") or []
    if blk.get("expr") is not None:
        t = blk["expr"]
        if isinstance(t, dict) and t.get("k") == "Ret" and "e" in t:
            return stmts, t["e"]
        return None
    if not stmts:
        return None
    last = stmts[-1]
    e = last.get("e") if last.get("k") in ("ExprS", "Semi") else None
    if isinstance(e, dict) and e.get("k") == "Ret" and "e" in e:
        return stmts[:-1], e["e"]
    return None


def eliminate_returns(blk):
    """`{ A; if c { B; return X; } R; T }`  ==  `{ A; if c { B; X } else { R; T } }` — applied from the top of a function body, recursively into the
    remainder.  Returns a new Block without `return`, or None when some `return` is not of this shape."""
    if not (isinstance(blk, dict) and blk.get("k") == "Block"):
        return None
    stmts = list(blk.get("stmts") or [])
    for i, st in enumerate(stmts):
        e = st.get("e") if st.get("k") in ("ExprS", "Semi") else None
        if not any(x.get("k") == "Ret" for x in walk(st, into_closures=False)):
            continue
        if not (isinstance(e, dict) and e.get("k") == "If" and e["c"].get("k") != "Let"):
            return None
        if any(x.get("k") == "Ret" for x in walk(e["c"], into_closures=False)):
            return None
        t_ret = _ends_with_return(e["t"])
        rest = {"k": "Block", "stmts": stmts[i + 1:], "expr": blk.get("expr"), "ty": blk.get("ty"), "sp": blk.get("sp")}
        if t_ret is not None and not any(x.get("k") == "Ret" for s_ in t_ret[0] for x in walk(s_, into_closures=False)):
            then_blk = {"k": "Block", "stmts": list(t_ret[0]), "expr": t_ret[1], "ty": blk.get("ty"), "sp": e["t"].get("sp")}
            else_src = rest
            if "e" in e:
                eb = e["e"] if e["e"].get("k") == "Block" else {"k": "Block", "stmts": [], "expr": e["e"]}
                if eb.get("expr") is not None:
                    return None
                else_src = dict(rest, stmts=list(eb.get("stmts") or []) + rest["stmts"])
            else_blk = eliminate_returns(else_src) if any(x.get("k") == "Ret" for x in walk(else_src, into_closures=False)) else else_src
            if else_blk is None:
                return None
            new_if = {"k": "If", "c": e["c"], "t": then_blk, "e": else_blk, "ty": blk.get("ty"), "sp": e.get("sp")}
            return {"k": "Block", "stmts": stmts[:i], "expr": new_if, "ty": blk.get("ty"), "sp": blk.get("sp")}
        return None
    te = blk.get("expr")
    if isinstance(te, dict) and any(x.get("k") == "Ret" for x in walk(te, into_closures=False)):
        return None
    return blk


def inline_new_helpers(F):
    """Normal form: a call of a crate function that the reference tree (refs/functions.json) does not have — a helper extracted by a later
    refactoring — is replaced by the helper's body, parameters substituted (places and simple expressions directly, anything else through a
    fresh `let`), local ids shifted.  Only helpers without `return`; a helper that uses `?` is inlined only where its own result is propagated
    with `?` (its tail `Ok(e)` becomes `e`; the `?`s inside then propagate from the caller, which is what the call with `?` did).  The
    statements of an inlined block that sits in a `let` initialiser or an expression statement are hoisted in front of that statement."""
    global _FN_REF
    import json
    if _FN_REF is None:
        p = os.path.join(os.path.dirname(os.path.dirname(os.path.abspath(__file__))), "refs", "functions.json")
        _FN_REF = set(json.load(open(p))) if os.path.exists(p) else None
    if not _FN_REF:
        return
    new = {}
    for b in F.bodies:
        if b["path"] in _FN_REF or not b["file"].startswith("src/") or b.get("impl_trait") or not isinstance(b.get("body"), dict) or b.get("body", {}).get("k") != "Block":
            continue
        if len(F.by_path.get(b["path"], [])) != 1:
            continue
        body = b["body"]
        has_ret = any(x.get("k") == "Ret" for x in walk(body, into_closures=False))
        has_try = any(x.get("k") == "Try" for x in walk(body, into_closures=False))
        if has_ret and not has_try:
            nb = eliminate_returns(_deep(body))
            if nb is not None:
                b = dict(b, body=nb)
                body, has_ret = nb, False
        if has_ret:
            # `return Err(e)` in a helper whose result is propagated with `?` leaves the caller with that error either way: such a helper is
            # inlined like one that uses `?` (only under `?`, tail `Ok(v)` becomes `v`)
            rets = [x for x in walk(body, into_closures=False) if x.get("k") == "Ret"]
            def is_err(r):
                e = r.get("e")
                while isinstance(e, dict) and e.get("k") == "Block" and not e.get("stmts") and e.get("expr") is not None:
                    e = e["expr"]
                return isinstance(e, dict) and e.get("k") == "Call" and (callee(e) or "").split("::")[-1] == "Err"
            if rets and all(is_err(r) for r in rets):
                has_ret, has_try = False, True
        calls_self = any(x.get("k") in ("Call", "MCall") and ((callee(x) if x.get("k") == "Call" else x.get("def")) == b["path"]) for x in walk(body))
        if has_ret or calls_self or not all(p_.get("k") == "Bind" for p_ in b["params"]):
            continue
        new[b["path"]] = (b, has_try)
    if not new:
        return
    counter = [0]

    def simple_arg(a):
        x = a
        while isinstance(x, dict) and x.get("k") in ("Ref", "Paren", "DropTemps", "Use"):
            x = x.get("e")
        if not isinstance(x, dict):
            return False
        if x.get("k") in ("Local", "Lit", "Path"):
            return True
        return x.get("k") == "Field" and place(x) is not None

    def expand(call, under_try):
        """-> Block node or None."""
        if call.get("k") == "Call":
            d = callee(call)
            args = list(call.get("args", []))
        else:
            d = call.get("def")
            args = [call["recv"]] + list(call.get("args", []))
        if d not in new:
            return None
        hb, has_try = new[d]
        if has_try and not under_try:
            return None
        if len(hb["params"]) != len(args):
            return None
        counter[0] += 1
        off = 1000000 * counter[0]
        mapping, lets = {}, []
        for prm, a in zip(hb["params"], args):
            if simple_arg(a):
                mapping[prm["id"]] = a
            else:
                nid = prm["id"] + off
                lets.append({"k": "LetS", "pat": dict(_deep(prm), id=nid), "init": a, "sp": a.get("sp")})
                mapping[prm["id"]] = {"k": "Local", "id": nid, "name": prm["name"], "ty": prm.get("ty"), "sp": a.get("sp")}
        body = _subst_locals(hb["body"], mapping, off)
        tail = body.get("expr")
        if has_try:
            t = tail
            while isinstance(t, dict) and t.get("k") == "Block" and not t.get("stmts") and t.get("expr") is not None:
                t = t["expr"]
            if not (isinstance(t, dict) and t.get("k") == "Call" and (callee(t) or "").split("::")[-1] == "Ok" and len(t.get("args", [])) == 1):
                return None
            tail = t["args"][0]
        return {"k": "Block", "stmts": lets + list(body.get("stmts", [])), "expr": tail, "ty": call.get("ty"), "sp": call.get("sp"), "_inlined": d, "_unwrapped": bool(has_try)}

    def visit(n, depth):
        """Replace eligible calls inside n (in place); returns True when something was inlined."""
        hit = False
        if isinstance(n, list):
            for x in n:
                hit = visit(x, depth) or hit
            return hit
        if not isinstance(n, dict):
            return False
        for k, v in list(n.items()):
            if isinstance(v, dict):
                tgt, under = v, False
                if v.get("k") == "Try" and isinstance(v.get("e"), dict) and v["e"].get("k") in ("Call", "MCall"):
                    tgt, under = v["e"], True
                blk = expand(tgt, under) if tgt.get("k") in ("Call", "MCall") and depth < 4 else None
                if blk is not None:
                    visit(blk, depth + 1)
                    if under and not blk.get("_unwrapped"):
                        v["e"] = blk           # the helper's own Result is still propagated by the `?`
                    else:
                        n[k] = blk
                    hit = True
                else:
                    hit = visit(v, depth) or hit
            elif isinstance(v, list):
                for i, x in enumerate(v):
                    if isinstance(x, dict):
                        tgt, under = x, False
                        if x.get("k") == "Try" and isinstance(x.get("e"), dict) and x["e"].get("k") in ("Call", "MCall"):
                            tgt, under = x["e"], True
                        blk = expand(tgt, under) if tgt.get("k") in ("Call", "MCall") and depth < 4 else None
                        if blk is not None:
                            visit(blk, depth + 1)
                            if under and not blk.get("_unwrapped"):
                                x["e"] = blk
                            else:
                                v[i] = blk
                            hit = True
                        else:
                            hit = visit(x, depth) or hit
        return hit

    def hoist(blk):
        """Splice the statements of inlined blocks that are a statement's whole expression / a let's initialiser in front of that statement."""
        if isinstance(blk, list):
            for x in blk:
                hoist(x)
            return
        if not isinstance(blk, dict):
            return
        for v in blk.values():
            if isinstance(v, (dict, list)):
                hoist(v)
        if blk.get("k") == "Block" and blk.get("stmts") is not None:
            out = []
            for st in blk["stmts"]:
                key = "init" if st.get("k") == "LetS" else ("e" if st.get("k") in ("ExprS", "Semi") else None)
                e = st.get(key) if key else None
                holder, hk = st, key
                # look through one assignment / compound assignment / deref-free wrapper on the way to the inlined block
                if isinstance(e, dict) and e.get("k") in ("Assign", "AssignOp") and isinstance(e.get("r"), dict):
                    holder, hk, e = e, "r", e["r"]
                if isinstance(e, dict) and e.get("k") == "If" and isinstance(e.get("c"), dict) and e["c"].get("k") == "Let" and isinstance(e["c"].get("init"), dict):
                    holder, hk, e = e["c"], "init", e["c"]["init"]       # `if let PAT = helper() { … }`: the scrutinee is evaluated first
                if isinstance(e, dict) and e.get("k") == "Ret" and isinstance(e.get("e"), dict):
                    holder, hk, e = e, "e", e["e"]
                while isinstance(e, dict) and e.get("k") == "Call" and len(e.get("args", [])) == 1 and (callee(e) or "").split("::")[-1] in ("Ok", "Err", "Some") \
                        and isinstance(e["args"][0], dict) and e["args"][0].get("k") == "Block" and e["args"][0].get("_inlined"):
                    blk_in = e["args"][0]
                    out.extend(blk_in.get("stmts") or [])
                    e["args"][0] = blk_in.get("expr")
                    break
                # … and through the receiver of a chain of method calls (`helper().unwrap_or(d)`: the receiver is evaluated first)
                probe, chain_holder, chain_key = e, holder, hk
                while isinstance(probe, dict) and probe.get("k") == "MCall" and isinstance(probe.get("recv"), dict):
                    chain_holder, chain_key, probe = probe, "recv", probe["recv"]
                if probe is not e and isinstance(probe, dict) and probe.get("k") == "Block" and probe.get("_inlined") and probe.get("stmts") and probe.get("expr") is not None:
                    out.extend(probe["stmts"])
                    chain_holder[chain_key] = probe["expr"]
                    out.append(st)
                    continue
                if isinstance(e, dict) and e.get("k") == "Block" and e.get("_inlined") and e.get("stmts"):
                    out.extend(e["stmts"])
                    if e.get("expr") is not None:
                        holder[hk] = e["expr"]
                        out.append(st)
                    elif holder is st and st.get("k") != "LetS":
                        pass                         # `helper();` — the statements are all there is
                    else:
                        holder[hk] = {"k": "Tup", "es": [], "ty": "()", "sp": e.get("sp")}     # the unit value of the helper
                        out.append(st)
                else:
                    out.append(st)
            blk["stmts"] = out
            te = blk.get("expr")
            if isinstance(te, dict) and te.get("k") == "Block" and te.get("_inlined") and blk is not te:
                blk["stmts"] = blk["stmts"] + list(te.get("stmts", []))
                blk["expr"] = te.get("expr")
    for b in F.bodies:
        if b["path"] in new or not isinstance(b.get("body"), dict):
            continue
        if visit(b["body"], 0):
            hoist(b["body"])
            b["_inlined_helpers"] = True
            for fn_ in (split_destructuring, normalise_loops, normalise_find_map, normalise_matches, simplify_lets):
                try:
                    fn_(b)
                except Exception:
                    pass


def canonicalise_locals(bodies):
    """Give renamed locals their reference names back: a local whose name is unknown to the reference (refs/locals.json, written from the tree
    the instance tables were confirmed on) but whose rename-invariant fingerprint matches exactly one reference local that has disappeared is
    renamed to it (consistently, per function).  Purely a change of names: the analysed program is the same."""
    global _LOCAL_REF
    import json
    if _LOCAL_REF is None:
        p = os.path.join(os.path.dirname(os.path.dirname(os.path.abspath(__file__))), "refs", "locals.json")
        _LOCAL_REF = json.load(open(p)) if os.path.exists(p) else {}
    for b in bodies:
        if b.get("_locals_canonical"):
            continue
        b["_locals_canonical"] = True
        ref = _LOCAL_REF.get(b["path"] + "|" + (b.get("impl_self") or "") + "|" + (b.get("impl_trait") or ""))
        if not ref:
            continue
        cur = local_fingerprints(b)
        cur_names = {c["name"] for c in cur}
        ref_names = {r["name"] for r in ref}
        missing = [r for r in ref if r["name"] not in cur_names]
        extra = [c for c in cur if c["name"] not in ref_names]
        if not missing or not extra:
            continue
        ren = {}
        for r in missing:
            c = [x for x in extra if x["fp"] == r["fp"] and x["name"] not in ren]
            m = [x for x in missing if x["fp"] == r["fp"]]
            if len(c) == 1 and len(m) == 1:
                ren[c[0]["name"]] = r["name"]
        if not ren:
            continue
        b["_renamed_locals"] = dict(ren)

        def apply(n):
            if isinstance(n, dict):
                if n.get("k") in ("Local", "Bind") and n.get("name") in ren:
                    n["name"] = ren[n["name"]]
                for v in n.values():
                    if isinstance(v, (dict, list)):
                        apply(v)
            elif isinstance(n, list):
                for x in n:
                    apply(x)
        apply(b.get("params"))
        apply(b.get("body"))


# ---- temporaries --------------------------------------------------------------------------------------------------------------
_PURE_M = {"abs", "real", "imaginary", "clone", "len", "modulus", "norm", "recip", "powi", "powf", "sqrt", "signum", "is_sign_positive", "is_sign_negative",
           "max", "min", "is_empty", "ln", "log2", "ceil", "floor", "to_owned", "copied", "cloned", "is_some", "is_none"}


def _pure_expr(e):
    for x in walk(e):
        k = x.get("k")
        if k == "MCall" and x["name"] not in _PURE_M:
            return False
        if k == "Call" and ("ovl" in x or not (callee(x) or "").startswith(("num_traits", "std::convert", "nalgebra::ComplexField", "core::convert", "nalgebra::RealField",
                                                                                 "simba"))):
            return False
        if k in ("Assign", "AssignOp", "Closure", "Loop", "While", "For", "Ret", "Break", "Continue", "Try", "Match", "Index"):
            return False
    return True


def _deep(e):
    if isinstance(e, dict):
        return {k: _deep(v) for k, v in e.items()}
    if isinstance(e, list):
        return [_deep(x) for x in e]
    return e


def build_tree(arms, rows, e, n, blockify):
    used = set()

    def build(assign):
        for a, row in zip(arms, rows):
            if all(want is None or assign.get(j, want) == want for j, want in enumerate(row)):
                need = [j for j, want in enumerate(row) if want is not None and j not in assign]
                if not need:
                    bd = a["body"] if id(a) not in used else _deep(a["body"])
                    used.add(id(a))
                    return blockify(bd)
                j = need[0]
                at, ae = dict(assign), dict(assign)
                at[j], ae[j] = True, False
                t_, e_ = build(at), build(ae)
                if t_ is None or e_ is None:
                    return None
                return {"k": "If", "c": _deep(e["es"][j]), "t": t_, "e": e_, "ty": n.get("ty"), "sp": n.get("sp")}
        return None
    return build({})


def normalise_matches(body):
    """Two behaviour-preserving rewrites of expression forms into `if`:
    (1) a `match` whose arms are all a plain binding, `_` or an integer / bool literal, with optional guards and an irrefutable last arm, becomes
        `{ let m = scrutinee; if c1 { a1 } else if c2 { a2 } … else { an } }` (a binding arm's variable is the temporary; a literal arm tests
        `m == literal`; guards are and-ed);
    (2) `cond.then(|| v).ok_or(e)` / `cond.then_some(v).ok_or(e)` (and `ok_or_else(|| e)`) becomes `if cond { Ok(v) } else { Err(e) }`."""
    root = body.get("body")
    if not isinstance(root, dict):
        return
    fresh = [max([x.get("id", 0) for x in walk(root) if isinstance(x.get("id"), int)] + [0]) + 500000]

    def blockify(e):
        if isinstance(e, dict) and e.get("k") == "Block":
            return e
        return {"k": "Block", "stmts": [], "expr": e, "ty": (e or {}).get("ty"), "sp": (e or {}).get("sp")}

    def rewrite_match(n):
        arms = n.get("arms") or []
        if len(arms) < 2:
            return None
        kinds = []
        for a in arms:
            p_ = a["pat"]
            k = p_.get("k")
            if k == "Wild":
                kinds.append("wild")
            elif k == "Bind" and "sub" not in p_:
                kinds.append("bind")
            elif k == "PLit" and p_.get("lit") in ("int", "bool"):
                kinds.append("lit")
            else:
                return None
        if kinds[-1] == "lit" or "guard" in arms[-1]:
            return None
        if all(k == "lit" for k in kinds[:-1]) and (n["e"].get("ty") == "bool"):
            pass
        fresh[0] += 1
        tid = fresh[0]
        sty = n["e"].get("ty")
        tmp = {"k": "Local", "id": tid, "name": "__match", "ty": sty, "sp": n["e"].get("sp")}
        # name the temporary after the first binding arm, if any (rules that name roles see the author's name)
        for a in arms:
            if a["pat"].get("k") == "Bind":
                tmp["name"] = a["pat"]["name"]
                break
        let = {"k": "LetS", "pat": {"k": "Bind", "id": tid, "name": tmp["name"], "mode": "BindingMode(No, Not)", "ty": sty}, "init": n["e"], "sp": n["e"].get("sp")}

        def subst(e, bid):
            return _subst_locals(e, {bid: tmp}, 0)
        chain = None
        for a, kind in reversed(list(zip(arms, kinds))):
            bodyx, guard = a["body"], a.get("guard")
            if kind == "bind":
                bodyx = subst(bodyx, a["pat"]["id"])
                guard = subst(guard, a["pat"]["id"]) if guard is not None else None
            cond = None
            if kind == "lit":
                pl = a["pat"]
                if pl.get("lit") == "bool":
                    cond = _deep(tmp) if pl.get("v") == "true" else {"k": "Un", "op": "Not", "e": _deep(tmp), "ty": "bool"}
                else:
                    lit = {"k": "Lit", "lit": "int", "v": pl["v"], "ty": sty}
                    if pl.get("neg"):
                        lit = {"k": "Un", "op": "Neg", "e": lit, "ty": sty}
                    cond = {"k": "Bin", "op": "Eq", "l": _deep(tmp), "r": lit, "ty": "bool"}
            if guard is not None:
                cond = guard if cond is None else {"k": "Bin", "op": "And", "l": cond, "r": guard, "ty": "bool"}
            if chain is None:
                if cond is not None:
                    return None
                chain = blockify(bodyx)
            else:
                if cond is None:
                    return None          # an irrefutable arm before the last one: the rest is dead; leave such code alone
                chain = {"k": "If", "c": cond, "t": blockify(bodyx), "e": chain if chain.get("k") == "If" else chain, "ty": n.get("ty"), "sp": a["body"].get("sp")}
        return {"k": "Block", "stmts": [let], "expr": chain, "ty": n.get("ty"), "sp": n.get("sp"), "_from_match": True}

    def rewrite_try_match(n):
        """`match e { Ok(v) => v, Err(x) => return Err(G(x)) }` is `e.map_err(|x| G(x))?` (the spelled-out `?`)."""
        arms = n.get("arms") or []
        if len(arms) != 2 or any("guard" in a for a in arms):
            return None
        okarm = [a for a in arms if (a["pat"].get("def") or "").split("::")[-1] == "Ok" and a["pat"].get("k") == "PTupleStruct" and len(a["pat"].get("ps", [])) == 1]
        errarm = [a for a in arms if (a["pat"].get("def") or "").split("::")[-1] == "Err" and a["pat"].get("k") == "PTupleStruct" and len(a["pat"].get("ps", [])) == 1]
        if len(okarm) != 1 or len(errarm) != 1:
            return None
        pv, px = okarm[0]["pat"]["ps"][0], errarm[0]["pat"]["ps"][0]
        if pv.get("k") != "Bind" or px.get("k") != "Bind":
            return None
        bv = okarm[0]["body"]
        while isinstance(bv, dict) and bv.get("k") == "Block" and not bv.get("stmts") and bv.get("expr") is not None:
            bv = bv["expr"]
        if not (isinstance(bv, dict) and bv.get("k") == "Local" and bv.get("id") == pv["id"]):
            return None
        be = errarm[0]["body"]
        while isinstance(be, dict) and be.get("k") == "Block" and not be.get("stmts") and be.get("expr") is not None:
            be = be["expr"]
        if isinstance(be, dict) and be.get("k") == "Block" and len(be.get("stmts") or []) == 1 and be.get("expr") is None and be["stmts"][0].get("k") in ("ExprS", "Semi"):
            be = be["stmts"][0]["e"]
        if not (isinstance(be, dict) and be.get("k") == "Ret" and isinstance(be.get("e"), dict)):
            return None
        r = be["e"]
        if not (r.get("k") == "Call" and (callee(r) or "").split("::")[-1] == "Err" and len(r.get("args", [])) == 1):
            return None
        g = r["args"][0]
        closure = {"k": "Closure", "params": [px], "body": g, "ty": "closure", "sp": g.get("sp")}
        me = {"k": "MCall", "name": "map_err", "recv": n["e"], "args": [closure], "def": "std::result::Result::<T, E>::map_err", "ty": n["e"].get("ty"), "sp": n.get("sp")}
        return {"k": "Try", "e": me, "ty": n.get("ty"), "sp": n.get("sp")}

    def rewrite_cmp_match(n):
        """`match a.partial_cmp(&b) { Some(Less | Equal) => X, _ => Y }` (and `a.cmp(&b)` with bare orderings) is `if a <= b { X } else { Y }`: each arm's set of
        outcomes {Less, Equal, Greater, None}, minus what earlier arms took, must be one comparison; the last arm takes what is left.  a and b pure, no guards."""
        e = n.get("e")
        while isinstance(e, dict) and e.get("k") in ("Paren", "DropTemps"):
            e = e.get("e")
        if not (isinstance(e, dict) and e.get("k") == "MCall" and e["name"] in ("partial_cmp", "cmp") and len(e.get("args", [])) == 1):
            return None
        partial = e["name"] == "partial_cmp"
        a_, b_ = e["recv"], e["args"][0]
        while isinstance(a_, dict) and a_.get("k") == "Ref":
            a_ = a_["e"]
        while isinstance(b_, dict) and b_.get("k") == "Ref":
            b_ = b_["e"]
        if not (_pure_expr(a_) and _pure_expr(b_)):
            return None
        arms = n.get("arms") or []
        if len(arms) < 2 or any(a.get("guard") is not None for a in arms):
            return None
        full = {"L", "E", "G"} | ({"N"} if partial else set())

        def inner(p_):
            k = p_.get("k")
            if k == "Wild":
                return {"L", "E", "G"}
            if k == "PPath":
                return {"Less": {"L"}, "Equal": {"E"}, "Greater": {"G"}}.get((p_.get("def") or "").split("::")[-1])
            if k == "POr":
                out = set()
                for q in p_["ps"]:
                    r_ = inner(q)
                    if r_ is None:
                        return None
                    out |= r_
                return out
            return None

        def outer(p_):
            k = p_.get("k")
            if k == "Wild":
                return set(full)
            if not partial:
                return inner(p_)
            if k == "PPath" and (p_.get("def") or "").split("::")[-1] == "None":
                return {"N"}
            if k == "PTupleStruct" and (p_.get("def") or "").split("::")[-1] == "Some" and len(p_.get("ps", [])) == 1:
                return inner(p_["ps"][0])
            if k == "POr":
                out = set()
                for q in p_["ps"]:
                    r_ = outer(q)
                    if r_ is None:
                        return None
                    out |= r_
                return out
            return None
        ops = {frozenset("L"): "Lt", frozenset("E"): "Eq", frozenset("G"): "Gt", frozenset("LE"): "Le", frozenset("GE"): "Ge"}
        taken, conds = set(), []
        for i, a in enumerate(arms):
            st_ = outer(a["pat"])
            if st_ is None:
                return None
            eff = st_ - taken
            taken |= st_
            if i == len(arms) - 1:
                if taken != full:
                    return None
                conds.append(None)
            else:
                if frozenset(eff) not in ops:
                    return None
                conds.append(ops[frozenset(eff)])
        def bool_lit(x):
            while isinstance(x, dict) and x.get("k") == "Block" and not x.get("stmts") and x.get("expr") is not None:
                x = x["expr"]
            return x.get("v") if isinstance(x, dict) and x.get("k") == "Lit" and x.get("lit") == "bool" else None
        if len(arms) == 2 and {bool_lit(arms[0]["body"]), bool_lit(arms[1]["body"])} == {"true", "false"}:
            # `matches!(a.partial_cmp(&b), Some(Less | Equal))`: the comparison itself (negated when the arms are the other way round)
            c = {"k": "Bin", "op": conds[0], "l": _deep(a_), "r": _deep(b_), "ty": "bool", "sp": e.get("sp")}
            return c if bool_lit(arms[0]["body"]) == "true" else {"k": "Un", "op": "Not", "e": c, "ty": "bool", "sp": e.get("sp")}
        chain = blockify(arms[-1]["body"])
        for a, op in reversed(list(zip(arms[:-1], conds[:-1]))):
            c = {"k": "Bin", "op": op, "l": _deep(a_), "r": _deep(b_), "ty": "bool", "sp": e.get("sp")}
            chain = {"k": "If", "c": c, "t": blockify(a["body"]), "e": chain, "ty": n.get("ty"), "sp": n.get("sp")}
        return chain

    def rewrite_bool_tuple_match(n):
        """`match (p, q) { (true, _) => A, (false, true) => B, (false, false) => C }` over pure boolean components becomes the if chain
        `if p { A } else if !p && q { B } else { C }` (rustc has checked that the arms are exhaustive, so the last arm is the else)."""
        e = n.get("e")
        if not (isinstance(e, dict) and e.get("k") == "Tup" and len(e.get("es", [])) >= 2 and all(x.get("ty") == "bool" and _pure_expr(x) for x in e["es"])):
            return None
        arms = n.get("arms") or []
        if len(arms) < 2 or any(a.get("guard") is not None for a in arms):
            return None
        rows = []
        for a in arms:
            p_ = a["pat"]
            if p_.get("k") == "Wild":
                rows.append([None] * len(e["es"]))
                continue
            if p_.get("k") != "PTuple" or len(p_["ps"]) != len(e["es"]):
                return None
            row = []
            for q in p_["ps"]:
                if q.get("k") == "Wild":
                    row.append(None)
                elif q.get("k") == "PLit" and q.get("lit") == "bool":
                    row.append(q.get("v") == "true")
                else:
                    return None
            rows.append(row)
        # decision tree on the components, in the order the first still-possible arm needs them: `if p { A } else if q { B } else { C }`
        return build_tree(arms, rows, e, n, blockify)

    def rewrite_then(n):
        # recv.ok_or(E) / recv.ok_or_else(|| E) with recv = cond.then(|| V) / cond.then_some(V)
        if n.get("k") != "MCall" or n["name"] not in ("ok_or", "ok_or_else") or len(n.get("args", [])) != 1:
            return None
        r = n["recv"]
        if not (isinstance(r, dict) and r.get("k") == "MCall" and r["name"] in ("then", "then_some") and "bool" in (r.get("def") or "") and len(r.get("args", [])) == 1):
            return None
        v, e = r["args"][0], n["args"][0]
        if r["name"] == "then":
            if v.get("k") != "Closure" or v.get("params"):
                return None
            v = v["body"]
        elif not _pure_expr(v):
            return None
        if n["name"] == "ok_or_else":
            if e.get("k") != "Closure" or e.get("params"):
                return None
            e = e["body"]

        def ctor(name, arg):
            return {"k": "Call", "f": {"k": "Path", "def": "std::prelude::v1::" + name, "ctor_of": "std::result::Result::" + name, "dk": "Ctor(Variant, Fn)", "ty": ""}, "args": [arg], "ty": n.get("ty"), "sp": arg.get("sp")}
        return {"k": "If", "c": r["recv"], "t": blockify(ctor("Ok", v)), "e": blockify(ctor("Err", e)), "ty": n.get("ty"), "sp": n.get("sp")}

    def then_parts(r):
        """cond.then(|| V) / cond.then_some(V) -> (cond, V) or None"""
        if not (isinstance(r, dict) and r.get("k") == "MCall" and r["name"] in ("then", "then_some") and "bool" in (r.get("def") or "") and len(r.get("args", [])) == 1):
            return None
        v = r["args"][0]
        if r["name"] == "then":
            if v.get("k") != "Closure" or v.get("params"):
                return None
            v = v["body"]
        elif not _pure_expr(v):
            return None
        return r["recv"], v

    def rewrite_then_unwrap(n):
        # cond.then(|| V).unwrap_or(D)  ->  if cond { V } else { D }     (D pure: `unwrap_or` evaluates it eagerly)
        if n.get("k") != "MCall" or n["name"] not in ("unwrap_or", "unwrap_or_else") or len(n.get("args", [])) != 1:
            return None
        tp = then_parts(n["recv"])
        if tp is None:
            return None
        d = n["args"][0]
        if n["name"] == "unwrap_or_else":
            if d.get("k") != "Closure" or d.get("params"):
                return None
            d = d["body"]
        elif not _pure_expr(d):
            return None
        return {"k": "If", "c": tp[0], "t": blockify(tp[1]), "e": blockify(d), "ty": n.get("ty"), "sp": n.get("sp")}

    def rewrite_iflet_then(n):
        # if let Some(x) = cond.then(|| V) { B } [else { E }]  ->  if cond { let x = V; B } [else { E }]
        if n.get("k") != "If" or not isinstance(n.get("c"), dict) or n["c"].get("k") != "Let":
            return None
        pat = n["c"]["pat"]
        if not ((pat.get("def") or "").split("::")[-1] == "Some" and pat.get("k") == "PTupleStruct" and len(pat.get("ps", [])) == 1):
            return None
        tp = then_parts(n["c"]["init"])
        if tp is None:
            return None
        let = {"k": "LetS", "pat": pat["ps"][0], "init": tp[1], "sp": tp[1].get("sp")}
        tb = n["t"] if n["t"].get("k") == "Block" else blockify(n["t"])
        newt = dict(tb, stmts=[let] + list(tb.get("stmts") or []))
        out = {"k": "If", "c": tp[0], "t": newt, "ty": n.get("ty"), "sp": n.get("sp")}
        if "e" in n:
            out["e"] = n["e"]
        return out

    def visit(n):
        if isinstance(n, list):
            for i, x in enumerate(n):
                n[i] = visit(x)
            return n
        if not isinstance(n, dict):
            return n
        for k, v in list(n.items()):
            if isinstance(v, (dict, list)):
                n[k] = visit(v)
        if n.get("k") == "MCall":
            r = rewrite_then_unwrap(n)
            if r is not None:
                return r
        if n.get("k") == "If":
            r = rewrite_iflet_then(n)
            if r is not None:
                return r
        if n.get("k") == "Match":
            r = rewrite_try_match(n)
            if r is not None:
                return r
            r = rewrite_cmp_match(n)
            if r is not None:
                return r
            r = rewrite_bool_tuple_match(n)
            if r is not None:
                return r
            r = rewrite_match(n)
            if r is not None:
                return r
        if n.get("k") == "MCall":
            r = rewrite_then(n)
            if r is not None:
                return r
        return n
    body["body"] = visit(root)
    # a rewritten match that is a statement's whole expression: splice `let m = …` in front of the statement, leave the `if` chain as the statement
    for blk in walk(body["body"]):
        if blk.get("k") == "Block" and blk.get("stmts") is not None:
            out = []
            for st in blk["stmts"]:
                key = "init" if st.get("k") == "LetS" else ("e" if st.get("k") in ("ExprS", "Semi") else None)
                e = st.get(key) if key else None
                holder, hk = st, key
                if isinstance(e, dict) and e.get("k") in ("Assign", "AssignOp") and isinstance(e.get("r"), dict) and _pure_expr(e["l"]):
                    holder, hk, e = e, "r", e["r"]
                if isinstance(e, dict) and e.get("k") == "Ret" and isinstance(e.get("e"), dict):
                    holder, hk, e = e, "e", e["e"]
                if isinstance(e, dict) and e.get("_from_match"):
                    out.extend(e["stmts"])
                    holder[hk] = e["expr"]
                out.append(st)
            blk["stmts"] = out
            te = blk.get("expr")
            if isinstance(te, dict) and te.get("_from_match"):
                blk["stmts"] = blk["stmts"] + list(te["stmts"])
                blk["expr"] = te["expr"]


def assigned_locals_direct(root, lid):
    """{lid} if the local itself is re-assigned (`r = …`, not `*r = …`) somewhere, else empty."""
    for n in walk(root):
        if n.get("k") == "Assign":
            l = n["l"]
            while isinstance(l, dict) and l.get("k") in ("Paren", "DropTemps", "Use"):
                l = l.get("e")
            if isinstance(l, dict) and l.get("k") == "Local" and l.get("id") == lid:
                return {lid}
    return set()


def normalise_find_map(body):
    """In return position, `RANGE.find_map(|PAT| BODY).ok_or_else(|| E)` (or `.ok_or(E)`) is the loop
    `for PAT in RANGE { if let Some(v) = BODY { return Ok(v) } }  Err(E)` — provided BODY has no `return` of its own (which would leave the closure)."""
    root = body.get("body")
    if not isinstance(root, dict) or root.get("k") != "Block":
        return
    fresh = [max([x.get("id", 0) for x in walk(root) if isinstance(x.get("id"), int)] + [0]) + 700000]

    def rewrite(e):
        x = e
        while isinstance(x, dict) and x.get("k") == "Block" and not x.get("stmts") and x.get("expr") is not None:
            x = x["expr"]
        if not (isinstance(x, dict) and x.get("k") == "MCall" and x["name"] in ("ok_or", "ok_or_else") and len(x.get("args", [])) == 1):
            return None
        fm = x["recv"]
        if not (isinstance(fm, dict) and fm.get("k") == "MCall" and fm["name"] == "find_map" and len(fm.get("args", [])) == 1 and fm["args"][0].get("k") == "Closure"):
            return None
        rng = fm["recv"]
        rp = rng
        while isinstance(rp, dict) and rp.get("k") in ("Paren", "DropTemps", "Use"):
            rp = rp.get("e")
        is_range = isinstance(rp, dict) and ((rp.get("k") == "Struct" and (rp.get("def") or "").endswith("ops::Range")) or (rp.get("k") == "Call" and (callee(rp) or "").endswith("RangeInclusive::<Idx>::new")))
        cl = fm["args"][0]
        if not is_range or len(cl.get("params", [])) != 1 or any(q.get("k") == "Ret" for q in walk(cl["body"], into_closures=False)):
            return None
        err = x["args"][0]
        if x["name"] == "ok_or_else":
            if err.get("k") != "Closure" or err.get("params"):
                return None
            err = err["body"]
        fresh[0] += 1
        vid = fresh[0]
        oty = cl["body"].get("ty")
        found = {"k": "Local", "id": vid, "name": "__found", "sp": cl.get("sp")}
        okc = {"k": "Call", "f": {"k": "Path", "def": "std::prelude::v1::Ok", "ctor_of": "std::result::Result::Ok", "dk": "Ctor(Variant, Fn)", "ty": ""}, "args": [found], "ty": e.get("ty"), "sp": cl.get("sp")}
        errc = {"k": "Call", "f": {"k": "Path", "def": "std::prelude::v1::Err", "ctor_of": "std::result::Result::Err", "dk": "Ctor(Variant, Fn)", "ty": ""}, "args": [err], "ty": e.get("ty"), "sp": err.get("sp")}
        let = {"k": "Let", "pat": {"k": "PTupleStruct", "def": "std::option::Option::Some", "ps": [{"k": "Bind", "id": vid, "name": "__found", "mode": "BindingMode(No, Not)"}]}, "init": cl["body"], "ty": "bool", "sp": cl.get("sp")}
        iff = {"k": "If", "c": let, "t": {"k": "Block", "stmts": [{"k": "Semi", "e": {"k": "Ret", "e": okc, "ty": "!", "sp": cl.get("sp")}, "sp": cl.get("sp")}], "ty": "()", "sp": cl.get("sp")}, "ty": "()", "sp": cl.get("sp")}
        fresh[0] += 1
        loop = {"k": "For", "id": fresh[0], "pat": cl["params"][0], "iter": rng, "body": {"k": "Block", "stmts": [{"k": "Semi", "e": iff, "sp": cl.get("sp")}], "ty": "()", "sp": cl.get("sp")}, "ty": "()", "sp": fm.get("sp")}
        return {"k": "Block", "stmts": [{"k": "Semi", "e": loop, "sp": fm.get("sp")}], "expr": errc, "ty": e.get("ty"), "sp": e.get("sp")}
    if root.get("expr") is not None:
        r = rewrite(root["expr"])
        if r is not None:
            root["stmts"] = list(root.get("stmts") or []) + r["stmts"]
            root["expr"] = r["expr"]
    for n in walk(root):
        if n.get("k") == "Ret" and isinstance(n.get("e"), dict):
            r = rewrite(n["e"])
            if r is not None:
                n["e"] = r


def simplify_lets(body):
    """Three behaviour-preserving rewrites that undo common "introduce a temporary" refactorings, so that rules see one spelling:
    (1) an immutable `let b: bool = <pure test>` is substituted at its uses;
    (2) an immutable `let t = <pure expr>` used exactly once, as the whole right-hand side of an assignment, is substituted there;
    (3) `place op= if c { a } else { b }` becomes `if c { place op= a } else { place op= b }` (also for else-if chains).
    "Pure" = arithmetic, comparisons, field reads and side-effect-free methods; the locals and fields read must not be assigned anywhere in
    the function (so moving the expression cannot change its value)."""
    root = body.get("body")
    if not isinstance(root, dict):
        return
    assigned_locals, assigned_fields = set(), set()
    for n in walk(root):
        if n.get("k") in ("Assign", "AssignOp"):
            l = peel(n["l"])
            if l.get("k") == "Local":
                assigned_locals.add(l["id"])
            elif l.get("k") == "Field":
                assigned_fields.add(place(l))
            elif l.get("k") == "Index":
                b_ = peel(l["e"])
                if b_.get("k") == "Local":
                    assigned_locals.add(b_["id"])
                elif b_.get("k") == "Field":
                    assigned_fields.add(place(b_))
        if n.get("k") == "Ref" and n.get("mut"):
            t = peel(n["e"])
            if t.get("k") == "Local":
                assigned_locals.add(t["id"])
            elif t.get("k") == "Field":
                assigned_fields.add(place(t))
        if n.get("k") == "MCall" and n["name"] not in _PURE_M:
            r = peel(n["recv"])
            if r.get("k") == "Field":
                assigned_fields.add(place(r))       # a method that may mutate its receiver
            elif r.get("k") == "Local" and r.get("name") == "self":
                # a method of the same impl: it may assign any field that some method of the impl assigns
                assigned_fields.update(body.get("_impl_assigned_fields") or [])
            elif r.get("k") == "Local":
                assigned_locals.add(r["id"])

    def stable(e):
        for x in walk(e):
            if x.get("k") == "Local" and x["id"] in assigned_locals and x.get("name") != "self":
                return False
            if x.get("k") == "Field":
                pl = place(x)
                if pl is None or any(pl == f or pl.startswith(f + ".") or f.startswith(pl + ".") for f in assigned_fields):
                    return False
        return True
    uses = {}
    for n, parents in walk_with_parents(root):
        if n.get("k") == "Local":
            uses.setdefault(n["id"], []).append((n, parents))
    subst = {}
    drop = []
    for n in walk(root):
        if n.get("k") != "LetS" or n["pat"].get("k") != "Bind" or "init" not in n or "Mut)" in n["pat"].get("mode", ""):
            continue
        lid = n["pat"]["id"]
        if lid in assigned_locals or not _pure_expr(n["init"]) or not stable(n["init"]):
            continue
        us = uses.get(lid, [])
        def field_alias(e):
            x = e
            while isinstance(x, dict) and ((x.get("k") == "MCall" and x["name"] in ("real", "clone", "to_owned", "copied") and not x["args"]) or x.get("k") in ("Ref",)
                                           or (x.get("k") == "Un" and x.get("op") == "Deref")):
                x = x["recv"] if x.get("k") == "MCall" else x["e"]
            return isinstance(x, dict) and x.get("k") == "Field" and (place(x) or "").startswith("self.")
        def fields_only(e):
            """a pure expression over `self.*` fields and constants only (no locals): an alias of a field expression"""
            has_field = False
            for x in walk(e):
                if x.get("k") == "Local" and x.get("name") != "self":
                    return False
                if x.get("k") == "Field":
                    has_field = True
            return has_field
        if (n["pat"].get("ty") == "bool" or field_alias(n["init"]) or fields_only(n["init"])) and us:
            subst[lid] = n["init"]
            drop.append(n)
        elif len(us) == 1:
            u, parents = us[0]
            par = parents[-1] if parents else None
            # the single use is the entire right-hand side of an assignment (possibly through a by-value conversion)
            x, ps = u, list(parents)
            while ps and ps[-1].get("k") == "Call" and len(ps[-1].get("args", [])) == 1 and (callee(ps[-1]) or "").split("::")[-1] in ("from_real", "from", "into"):
                x = ps.pop()
            if ps and ps[-1].get("k") in ("Assign", "AssignOp") and ps[-1].get("r") is x:
                subst[lid] = n["init"]
                drop.append(n)
    # (2b) an immutable pure `let` used exactly once, in the *very next* statement, at a point that statement evaluates before any effect (the
    #      condition of an `if`, the initialiser of a `let`, the right-hand side of an assignment — all pure): nothing can change between the
    #      two, so the value can be written where it is used even when it reads fields that are assigned elsewhere
    for blk in walk(root):
        if blk.get("k") != "Block" or not blk.get("stmts"):
            continue
        seq = list(blk["stmts"]) + ([{"k": "ExprS", "e": blk["expr"], "_tail": True}] if blk.get("expr") is not None else [])
        for a, b_ in zip(seq, seq[1:]):
            if a.get("k") != "LetS" or a["pat"].get("k") != "Bind" or "init" not in a or "Mut)" in a["pat"].get("mode", "") or "els" in a:
                continue
            lid = a["pat"]["id"]
            if lid in subst or lid in assigned_locals or not _pure_expr(a["init"]) or len(uses.get(lid, [])) != 1:
                continue
            e = b_.get("init") if b_.get("k") == "LetS" else (b_.get("e") if b_.get("k") in ("ExprS", "Semi") else None)
            zone = None
            if isinstance(e, dict) and e.get("k") == "If" and e["c"].get("k") != "Let":
                zone = e["c"]
            elif isinstance(e, dict) and e.get("k") in ("Assign", "AssignOp") and peel(e["l"]).get("k") in ("Local", "Field"):
                zone = e["r"]
            elif b_.get("k") == "LetS" and isinstance(e, dict):
                zone = e
            if zone is None or not _pure_expr(zone):
                continue
            if any(x is uses[lid][0][0] for x in walk(zone)):
                subst[lid] = a["init"]
                drop.append(a)
    # (1b) an immutable `let flag: bool = <pure test>` that reads fields assigned elsewhere in the function, all of whose uses lie in the statements
    #      that follow it in its own block, none of which (up to the last use) writes anything the test reads: the test has the same value at
    #      each use, so it is written there (`let too_small = dt < dt_min; if !too_small { history.clear() } Err(if too_small { … } else { … })`)
    def writes_of(st):
        """(places, local ids, everything?) a statement may write"""
        pls, ids, anything = set(), set(), False
        for x in walk(st):
            k = x.get("k")
            if k in ("Assign", "AssignOp") or (k == "Ref" and x.get("mut")):
                t = peel(x["l"] if k != "Ref" else x["e"])
                if t.get("k") == "Index":
                    t = peel(t["e"])
                if t.get("k") == "Local":
                    ids.add(t["id"])
                elif t.get("k") == "Field" and place(t):
                    pls.add(place(t))
                else:
                    anything = True
            elif k == "MCall" and x["name"] not in _PURE_M:
                r = peel(x["recv"])
                if r.get("k") == "Field" and place(r):
                    pls.add(place(r))
                elif r.get("k") == "Local" and r.get("name") == "self":
                    anything = True
                elif r.get("k") == "Local":
                    ids.add(r["id"])
            elif k == "Call" and "ovl" in x:
                anything = True            # a call through a closure-typed field / parameter: it may hold a mutable borrow of anything it captured
        return pls, ids, anything
    for blk in walk(root):
        if blk.get("k") != "Block" or not blk.get("stmts"):
            continue
        seq = list(blk["stmts"]) + ([{"k": "ExprS", "e": blk["expr"], "_tail": True}] if blk.get("expr") is not None else [])
        for i, a in enumerate(seq):
            if a.get("k") != "LetS" or a["pat"].get("k") != "Bind" or "init" not in a or "Mut)" in a["pat"].get("mode", "") or "els" in a or a["pat"].get("ty") != "bool":
                continue
            lid = a["pat"]["id"]
            us = uses.get(lid, [])
            if lid in subst or lid in assigned_locals or not us or not _pure_expr(a["init"]):
                continue
            rd_pl = {place(x) for x in walk(a["init"]) if x.get("k") == "Field" and place(x)}
            rd_id = {x["id"] for x in walk(a["init"]) if x.get("k") == "Local"}
            left = len(us)
            ok = True
            for st in seq[i + 1:]:
                inside = sum(1 for x in walk(st) if x.get("k") == "Local" and x.get("id") == lid)
                if inside == 0 and left == 0:
                    break
                pls, ids, anything = writes_of(st)
                if anything or ids & rd_id or any(p_ == r_ or p_.startswith(r_ + ".") or r_.startswith(p_ + ".") for p_ in pls for r_ in rd_pl):
                    ok = False
                    break
                left -= inside
                if left == 0:
                    break
            if ok and left == 0:
                subst[lid] = a["init"]
                drop.append(a)
    # (2c) `let v = if c { A } else { B };` (any content) used exactly once in the *very next* statement as the operand of `return` / of a result
    #      constructor in return or tail position: nothing runs in between, so the `if` can be written there (rules (4)/(5) then distribute over it)
    for blk in walk(root):
        if blk.get("k") != "Block" or not blk.get("stmts"):
            continue
        seq = list(blk["stmts"]) + ([{"k": "ExprS", "e": blk["expr"], "_tail": True}] if blk.get("expr") is not None else [])
        for a, b_ in zip(seq, seq[1:]):
            if a.get("k") != "LetS" or a["pat"].get("k") != "Bind" or "init" not in a or "Mut)" in a["pat"].get("mode", "") or "els" in a:
                continue
            lid = a["pat"]["id"]
            init = a["init"]
            while isinstance(init, dict) and init.get("k") == "Block" and not init.get("stmts") and init.get("expr") is not None:
                init = init["expr"]
            if lid in subst or lid in assigned_locals or len(uses.get(lid, [])) != 1 or not (isinstance(init, dict) and init.get("k") == "If" and "e" in init):
                continue
            e = b_.get("e") if b_.get("k") in ("ExprS", "Semi") else None
            x = e
            if isinstance(x, dict) and x.get("k") == "Ret" and "e" in x:
                x = x["e"]
            while isinstance(x, dict) and x.get("k") == "Call" and len(x.get("args", [])) == 1 and (callee(x) or "").split("::")[-1] in ("Ok", "Err", "Some"):
                x = x["args"][0]
            if x is uses[lid][0][0] and (b_.get("_tail") or (isinstance(e, dict) and e.get("k") == "Ret")):
                subst[lid] = a["init"]
                drop.append(a)
    # (2d) `let r = &mut self.f;` / `let r = &self.f;` — a reference to a field *is* that field wherever it is used
    for n in walk(root):
        if n.get("k") != "LetS" or n["pat"].get("k") != "Bind" or "init" not in n or "Mut)" in n["pat"].get("mode", "") or "els" in n:
            continue
        lid = n["pat"]["id"]
        init = n["init"]
        if lid in subst or lid in assigned_locals_direct(root, lid):
            continue
        if isinstance(init, dict) and init.get("k") == "Ref" and isinstance(init.get("e"), dict) and init["e"].get("k") == "Field" and (place(init["e"]) or "").startswith("self."):
            subst[lid] = init
            drop.append(n)
    if subst:
        def repl(e):
            if isinstance(e, dict):
                if e.get("k") == "Local" and e.get("id") in subst:
                    return repl(_deep(subst[e["id"]]))
                for k, v in list(e.items()):
                    if isinstance(v, (dict, list)):
                        e[k] = repl(v)
                return e
            if isinstance(e, list):
                return [repl(x) for x in e]
            return e
        repl(root)
        dropset = {id(d) for d in drop}
        for n in walk(root):
            if n.get("k") == "Block" and n.get("stmts"):
                n["stmts"] = [st for st in n["stmts"] if id(st) not in dropset]
    # (3) distribute an assignment over an if-expression
    def distribute(asg):
        r = asg["r"]
        wrap = []
        while r.get("k") == "Call" and len(r.get("args", [])) == 1 and (callee(r) or "").split("::")[-1] in ("from_real",):
            wrap.append(r)
            r = r["args"][0]
        while r.get("k") == "Block" and not r.get("stmts") and r.get("expr") is not None:
            r = r["expr"]
        if r.get("k") != "If" or "e" not in r:
            return None

        def tail_of(blk):
            x = blk
            while isinstance(x, dict) and x.get("k") == "Block" and not x.get("stmts") and x.get("expr") is not None:
                x = x["expr"]
            return x

        def mk(branch):
            t = tail_of(branch)
            if isinstance(t, dict) and t.get("k") == "If" and "e" in t:
                inner = dict(asg, r=t)
                d = distribute(inner)
                if d is not None:
                    return {"k": "Block", "stmts": [], "expr": d, "ty": "()", "sp": branch.get("sp")}
            if isinstance(branch, dict) and branch.get("k") == "Block" and branch.get("stmts"):
                return None
            val = t
            for w in reversed(wrap):
                val = dict(w, args=[val])
            return {"k": "Block", "stmts": [{"k": "Semi", "e": dict(_deep(asg), r=val), "sp": asg.get("sp")}], "ty": "()", "sp": branch.get("sp")}
        tb, eb = mk(r["t"]), mk(r["e"])
        if tb is None or eb is None:
            return None
        out_if = {"k": "If", "c": r["c"], "t": tb, "e": eb, "ty": "()", "sp": asg.get("sp")}
        # `place = place` in the else branch (from `… .unwrap_or(place)`) does nothing
        def self_assign(b_):
            if b_.get("k") == "Block" and len(b_.get("stmts") or []) == 1 and b_.get("expr") is None:
                a_ = b_["stmts"][0].get("e", {})
                return a_.get("k") == "Assign" and _pure_expr(a_["l"]) and place(peel(a_["l"])) is not None and pp(peel(a_["l"])) == pp(peel(a_["r"]))
            return False
        if self_assign(eb):
            del out_if["e"]
        return out_if
    for n in walk(root):
        if n.get("k") == "Block" and n.get("stmts"):
            for st in n["stmts"]:
                e = st.get("e") if st.get("k") in ("ExprS", "Semi") else None
                if isinstance(e, dict) and e.get("k") in ("Assign", "AssignOp") and peel(e["l"]).get("k") in ("Local", "Field"):
                    d = distribute(e)
                    if d is not None:
                        st["e"] = d
    # (4) distribute a result constructor over an if-expression in return position: `Ok(if c { a } else { b })` is `if c { Ok(a) } else { Ok(b) }`
    def ctor_over_if(e):
        if not (isinstance(e, dict) and e.get("k") == "Call" and len(e.get("args", [])) == 1 and (callee(e) or "").split("::")[-1] in ("Ok", "Err", "Some")):
            return None
        r = e["args"][0]
        while isinstance(r, dict) and r.get("k") == "Block" and not r.get("stmts") and r.get("expr") is not None:
            r = r["expr"]
        if not (isinstance(r, dict) and r.get("k") == "If" and "e" in r):
            return None

        def mk(branch):
            pre = []
            t = branch
            while isinstance(t, dict) and t.get("k") == "Block" and t.get("expr") is not None:
                pre += list(t.get("stmts") or [])        # statements of the branch stay in front of the constructed value
                t = t["expr"]
            if isinstance(t, dict) and t.get("k") == "Block":
                return None
            inner = dict(_deep(e), args=[t])
            d = ctor_over_if(inner)
            return {"k": "Block", "stmts": pre, "expr": d if d is not None else inner, "ty": e.get("ty"), "sp": branch.get("sp")}
        tb, eb = mk(r["t"]), mk(r["e"])
        if tb is None or eb is None:
            return None
        return {"k": "If", "c": r["c"], "t": tb, "e": eb, "ty": e.get("ty"), "sp": e.get("sp")}
    if isinstance(root, dict) and root.get("k") == "Block" and root.get("expr") is not None:
        d = ctor_over_if(root["expr"])
        if d is not None:
            root["expr"] = d
    for n in walk(root):
        if n.get("k") == "Ret" and "e" in n:
            d = ctor_over_if(n["e"])
            if d is not None:
                n["e"] = d
    # (6) `(if c { Err(e) } else { Ok(v) })?` is `if c { return Err(e) } else { v }` (through blocks and else-if chains; the `?` of a block whose
    #     every leaf is a result constructor)
    def try_over_if(v):
        pre, t = [], v
        while isinstance(t, dict) and t.get("k") == "Block" and t.get("expr") is not None:
            pre += list(t.get("stmts") or [])
            t = t["expr"]
        if not isinstance(t, dict):
            return None
        if t.get("k") == "Call" and len(t.get("args", [])) == 1 and (callee(t) or "").split("::")[-1] == "Err":
            return {"k": "Block", "stmts": pre + [{"k": "Semi", "e": {"k": "Ret", "e": t, "ty": "!", "sp": t.get("sp")}, "sp": t.get("sp")}], "ty": "!", "sp": t.get("sp")}
        if t.get("k") == "Call" and len(t.get("args", [])) == 1 and (callee(t) or "").split("::")[-1] == "Ok":
            return {"k": "Block", "stmts": pre, "expr": t["args"][0], "ty": t["args"][0].get("ty"), "sp": t.get("sp")}
        if t.get("k") == "If" and "e" in t and t["c"].get("k") != "Let":
            a, b_ = try_over_if(t["t"]), try_over_if(t["e"])
            if a is None or b_ is None:
                return None
            new_if = {"k": "If", "c": t["c"], "t": a, "e": b_, "ty": v.get("ty"), "sp": t.get("sp")}
            return {"k": "Block", "stmts": pre, "expr": new_if, "ty": v.get("ty"), "sp": v.get("sp")} if pre else new_if
        return None

    def rewrite_try(n):
        if isinstance(n, list):
            for i, x in enumerate(n):
                n[i] = rewrite_try(x)
            return n
        if not isinstance(n, dict):
            return n
        for k, v in list(n.items()):
            if isinstance(v, (dict, list)):
                n[k] = rewrite_try(v)
        if n.get("k") == "Try" and isinstance(n.get("e"), dict):
            inner = n["e"]
            probe = inner
            while isinstance(probe, dict) and probe.get("k") == "Block" and probe.get("expr") is not None:
                probe = probe["expr"]
            if isinstance(probe, dict) and probe.get("k") == "If":
                d = try_over_if(inner)
                if d is not None:
                    return d
        return n
    body["body"] = root = rewrite_try(root)
    # an `if c { return Err(e) } else { () }` left as a statement's expression: drop the empty else
    for n in walk(root):
        if n.get("k") == "If" and isinstance(n.get("e"), dict) and n["e"].get("k") == "Block" and not n["e"].get("stmts"):
            ex = n["e"].get("expr")
            if ex is None or (isinstance(ex, dict) and ex.get("k") == "Tup" and not ex.get("es")):
                if n.get("ty") in ("()", None, "!") or ex is not None:
                    pm_used_as_value = False
                    # only when the `if` is a statement of its own (its value is not used): checked through the parent kind below
                    n["_maybe_drop_else"] = True
    for blk in walk(root):
        if blk.get("k") == "Block" and blk.get("stmts"):
            for st in blk["stmts"]:
                e = st.get("e") if st.get("k") in ("ExprS", "Semi") else None
                if isinstance(e, dict) and e.get("_maybe_drop_else"):
                    del e["e"]
    # (7) `if a { if b { X } }` (neither has an else, the inner `if` is all the outer one contains) is `if a && b { X }`
    changed = True
    while changed:
        changed = False
        for n in walk(root):
            if n.get("k") == "If" and "e" not in n and n["c"].get("k") != "Let" and isinstance(n.get("t"), dict) and n["t"].get("k") == "Block":
                t = n["t"]
                inner = None
                if not t.get("stmts") and isinstance(t.get("expr"), dict) and t["expr"].get("k") == "If":
                    inner = t["expr"]
                elif len(t.get("stmts") or []) == 1 and t.get("expr") is None and t["stmts"][0].get("k") in ("ExprS", "Semi") and isinstance(t["stmts"][0].get("e"), dict) \
                        and t["stmts"][0]["e"].get("k") == "If":
                    inner = t["stmts"][0]["e"]
                if inner is not None and "e" not in inner and inner["c"].get("k") != "Let":
                    n["c"] = {"k": "Bin", "op": "And", "l": n["c"], "r": inner["c"], "ty": "bool", "sp": n["c"].get("sp")}
                    n["t"] = inner["t"]
                    changed = True
    # (5) `return if c { A } else { B };` as a statement is `if c { return A } else { return B }` (recursively through else-if chains)
    def ret_over_if(v):
        t = v
        while isinstance(t, dict) and t.get("k") == "Block" and not t.get("stmts") and t.get("expr") is not None:
            t = t["expr"]
        if not (isinstance(t, dict) and t.get("k") == "If" and "e" in t and t["c"].get("k") != "Let"):
            return None

        def br(b_):
            pre, x = [], b_
            while isinstance(x, dict) and x.get("k") == "Block" and x.get("expr") is not None:
                pre += list(x.get("stmts") or [])
                x = x["expr"]
            if isinstance(x, dict) and x.get("k") == "Block":
                return None
            inner = ret_over_if(x)
            last = {"k": "Semi", "e": inner if inner is not None else {"k": "Ret", "e": x, "ty": "!", "sp": x.get("sp")}, "sp": x.get("sp")}
            return {"k": "Block", "stmts": pre + [last], "ty": "()", "sp": b_.get("sp")}
        tb, eb = br(t["t"]), br(t["e"])
        if tb is None or eb is None:
            return None
        return {"k": "If", "c": t["c"], "t": tb, "e": eb, "ty": "()", "sp": t.get("sp")}
    for blk in walk(root):
        if blk.get("k") == "Block" and blk.get("stmts"):
            for st in blk["stmts"]:
                e = st.get("e") if st.get("k") in ("ExprS", "Semi") else None
                if isinstance(e, dict) and e.get("k") == "Ret" and isinstance(e.get("e"), dict):
                    d = ret_over_if(e["e"])
                    if d is not None:
                        st["e"] = d
