"""Exact abstract evaluation of the crate's vector/polynomial code: Vec<N> values are Python lists of exact symbolic
entries of *concrete length*, struct values are dicts, operator overloads and inherent methods of the crate are
inlined from their own HIR bodies (resolved by the operand types / def-paths recorded by the compiler).

Numbers are exact (rationals, symbols); comparisons with a tolerance are decided for exact values (0 <= tol) and by the
`generic` policy for symbolic ones (a generic coefficient is not negligible).  Nothing is executed in floating point.
"""
import sympy as sp

from . import sym
from .hir import callee, pat_binds, peel, place, pp


ElemRef = sym.ElemRef


class ListView(list):
    """A sub-slice `v[a..b]` (also split_at / split_first / chunks …): a list holding the elements, whose element writes go through to the
    slice it was taken of — so that `v[1..].iter_mut()`, `split_at_mut`, `slice.swap(..)` on a sub-slice update the vector itself.  (Rust's
    borrow rules guarantee the parent is not written by other means while the view is alive.)  Length-changing operations are not slices'."""
    def __init__(self, base, a, b):
        list.__init__(self, base[a:b])
        self._base, self._off = base, a

    def __setitem__(self, i, val):
        if isinstance(i, slice):
            idx = range(*i.indices(len(self)))
            vals = list(val)
            if len(vals) != len(idx):
                raise sym.Unsupported({}, "length-changing assignment into a slice view")
            for k_, x in zip(idx, vals):
                self[k_] = x
            return
        if i < 0:
            i += len(self)
        list.__setitem__(self, i, val)
        self._base[self._off + i] = val

    def _frozen(self, *a, **k):
        raise sym.Unsupported({}, "length-changing operation on a slice view")
    append = extend = insert = pop = remove = clear = __delitem__ = __iadd__ = _frozen

    def reverse(self):
        vals = list(self)[::-1]
        for i, x in enumerate(vals):
            self[i] = x

    def sort(self, *a, **k):
        vals = sorted(list(self), *a, **k)
        for i, x in enumerate(vals):
            self[i] = x


class Budget(sym.Unsupported):
    pass


class VInterp(sym.Interp):
    MAX_DEPTH = 40
    WHILE_LIMIT = 64           # iterations of one `while`/`loop` in an abstract execution
    TIME_LIMIT = 90.0          # seconds per top-level abstract call

    def tick(self, n):
        import time
        sh = self.shared
        if "t0" not in sh:
            sh["t0"] = time.time()
        sh["steps"] = sh.get("steps", 0) + 1
        if sh["steps"] % 50 == 0 and time.time() - sh["t0"] > self.TIME_LIMIT:
            raise Budget(n, "abstract execution exceeds its time budget (non-terminating or exploding loop?)")

    def __init__(self, F, body, consts=None, depth=0, shared=None):
        self.consts = dict(consts or {})
        self.depth = depth
        self.shared = shared if shared is not None else {"undecided": [], "calls": [], "generic": True, "trace_fns": []}
        sym.Interp.__init__(self, F, body)
        self.unroll_limit = 4096
        self.tol_symbols = set()

    # ---- values ---------------------------------------------------------------------------------
    def deref(self, v):
        if isinstance(v, sym.PlaceRef):
            return self.deref(self.ev(self.place_of_ref(v, v.node)))
        return v.get() if isinstance(v, ElemRef) else v

    def ev_Local(self, n):
        v = sym.Interp.ev_Local(self, n)
        return v

    def ev_Un(self, n):
        if n["op"] == "Deref":
            return self.deref(self.ev(n["e"]))
        v = self.deref(self.ev(n["e"]))
        if n["op"] == "Neg":
            if isinstance(v, dict) and "ovl" in n:
                return self.dispatch_unop("neg", n, v)
            return -self.num(v, n)
        if n["op"] == "Not":
            return sp.Not(v)
        raise sym.Unsupported(n, "unary op")

    def num(self, v, n):
        v = self.deref(v)
        return sym.Interp.num(self, v, n)

    def ev_Ref(self, n):
        v = self.ev(n["e"])
        return v

    def ev_Path(self, n):
        if n.get("dk") == "ConstParam":
            nm = n["def"].split("::")[-1]
            if nm in self.consts:
                return sp.Integer(self.consts[nm])
        return sym.Interp.ev_Path(self, n)

    def ev_Repeat(self, n):
        cnt = n.get("n")
        if cnt is not None and str(cnt).isdigit():
            v = self.ev(n["e"])
            return [v] * int(cnt)
        raise sym.Unsupported(n, "array repeat")

    def ev_Field(self, n):
        if n["name"] in ("re", "im") and "Complex<" in (n["e"].get("ty") or ""):
            e = sp.expand(self.num(self.deref(self.ev(n["e"])), n))
            return sp.re(e) if n["name"] == "re" else sp.im(e)
        base = self.deref(self.ev(n["e"])) if peel(n["e"]).get("k") != "Local" or not isinstance(self.env.get(peel(n["e"]).get("id")), sp.Symbol) else None
        if isinstance(base, dict):
            if n["name"] in base:
                return base[n["name"]]
            raise sym.Unsupported(n, "no field %s" % n["name"])
        if isinstance(base, tuple) and n["name"].isdigit():
            return base[int(n["name"])]
        if n["name"] in ("re", "im") and isinstance(base, sp.Expr) and "Complex<" in (n["e"].get("ty") or ""):
            e = sp.expand(base)
            return sp.re(e) if n["name"] == "re" else sp.im(e)
        return sym.Interp.ev_Field(self, n)

    def ev_Index(self, n):
        base = self.deref(self.ev(n["e"]))
        idx = self.ev(n["i"])
        if isinstance(base, list):
            if isinstance(idx, tuple) and idx and idx[0] == "range":
                _, a, b = idx
                a = 0 if a is None else int(a)
                b = len(base) if b is None else int(b)
                if not (0 <= a <= b <= len(base)):
                    raise IndexPanic(n, "slice %d..%d out of bounds of a vector of length %d" % (a, b, len(base)))
                return ListView(base, a, b)
            if getattr(idx, "is_Integer", False):
                i = int(idx)
                if not (0 <= i < len(base)):
                    raise IndexPanic(n, "index %d out of bounds of a vector of length %d" % (i, len(base)))
                return base[i]
            raise sym.Unsupported(n, "symbolic index %s" % idx)
        return sym.Interp.ev_Index(self, n)

    def ev_Struct(self, n):
        d = n["def"]
        if d.endswith("ops::Range") or d.endswith("ops::RangeFrom") or d.endswith("ops::RangeTo") or d.endswith("RangeInclusive"):
            f = {x["name"]: self.ev(x["e"]) for x in n["fields"]}
            return ("range", f.get("start"), f.get("end"))
        if d.endswith("RangeFull"):
            return ("range", None, None)
        return sym.Interp.ev_Struct(self, n)

    def ev_Cast(self, n):
        v = self.ev(n["e"])
        t = n.get("ty", "")
        if t in ("usize", "u32", "u64", "i32", "i64", "u8") and hasattr(v, "is_number") and v.is_number and not v.is_Integer:
            return sp.Integer(int(v))    # `as usize` truncates
        if t == "f32" and getattr(v, "is_Rational", False):
            return sym.round_to_f32(v)
        return v

    def ev_Bin(self, n):
        op = n["op"]
        if op in ("And", "Or"):
            a = self.ev(n["l"])
            # short-circuit with exact values
            if op == "And" and (a is sp.false or a is False):
                return sp.false
            if op == "Or" and (a is sp.true or a is True):
                return sp.true
            b = self.ev(n["r"])
            return sp.And(a, b) if op == "And" else sp.Or(a, b)
        a = self.deref(self.ev(n["l"]))
        b = self.deref(self.ev(n["r"]))
        if isinstance(a, dict) or isinstance(b, dict):
            return self.dispatch_binop(op, n, a, b)
        if isinstance(a, sym.Opaque) and isinstance(b, sym.Opaque) and a.what.startswith("typeid:") and op in ("Eq", "Ne"):
            # TypeId::of::<N::RealField>() == TypeId::of::<N>(): "N is a real field" — a configuration of the analysis
            both = {a.what, b.what}
            s_ = sp.Symbol("N_is_real") if both == {"typeid:<N as nalgebra::ComplexField>::RealField", "typeid:N"} else sp.Symbol("typeid_eq(%s,%s)" % (a.what, b.what))
            return s_ if op == "Eq" else sp.Not(s_)
        if op in ("Shl", "Shr", "BitAnd", "BitOr", "BitXor") and getattr(a, "is_Integer", False) and getattr(b, "is_Integer", False):
            x, y = int(a), int(b)
            return sp.Integer({"Shl": x << y, "Shr": x >> y, "BitAnd": x & y, "BitOr": x | y, "BitXor": x ^ y}[op])
        if op in ("Eq", "Ne") and isinstance(a, (int, sp.Integer)) and isinstance(b, (int, sp.Integer)):
            return sp.true if ((a == b) == (op == "Eq")) else sp.false
        if op == "Sub" and n.get("ty") in ("usize", "u8", "u16", "u32", "u64") and getattr(a, "is_Integer", False) and getattr(b, "is_Integer", False) and a < b:
            # unsigned subtraction below zero: panic in debug builds, wrap-around in release builds — neither is a value the caller wants
            raise IndexPanic(n, "unsigned subtraction %s - %s underflows (%s)" % (a, b, n.get("ty")))
        return self.binop(op, self.num(a, n["l"]), self.num(b, n["r"]), n)

    def ev_AssignOp(self, n):
        cur = self.deref(self.ev(n["l"]))
        rhs = self.deref(self.ev(n["r"]))
        op = n["op"].replace("Assign", "")
        if isinstance(cur, dict):
            # operator-assign impl of the crate: mutates `self`
            self.dispatch_assignop(n["op"], n, cur, rhs)
            return None
        if op in ("Shl", "Shr", "BitAnd", "BitOr", "BitXor"):
            x, y = int(cur), int(rhs)
            val = sp.Integer({"Shl": x << y, "Shr": x >> y, "BitAnd": x & y, "BitOr": x | y, "BitXor": x ^ y}[op])
        else:
            val = self.binop(op, self.num(cur, n["l"]), self.num(rhs, n["r"]), n if op == "Div" else None)
        self.assign(n["l"], val, n)
        return None

    def assign(self, lhs, val, node):
        lhs = self.through_ref(lhs)          # `*r = …` with `let r = &mut place`: the place
        l = lhs
        # explicit deref of a reference cell
        while l.get("k") == "Ref":
            l = l["e"]
        if l.get("k") == "Un" and l.get("op") == "Deref":
            tgt = self.ev(l["e"])
            if isinstance(tgt, ElemRef):
                tgt.set(val)
                return
            if isinstance(tgt, sym.PlaceRef):
                return self.assign(self.place_of_ref(tgt, node), val, node)
            return self.assign(l["e"], val, node)
        if l.get("k") == "Local":
            cur = self.env.get(l["id"])
            if isinstance(cur, ElemRef):
                cur.set(val)
                return
            self.env[l["id"]] = val
            return
        if l.get("k") == "Field":
            base = self.deref(self.ev(l["e"]))
            if isinstance(base, dict):
                base[l["name"]] = val
                return
            return sym.Interp.assign(self, lhs, val, node)
        if l.get("k") == "Index":
            base = self.deref(self.ev(l["e"]))
            idx = self.ev(l["i"])
            if isinstance(base, list) and getattr(idx, "is_Integer", False):
                i = int(idx)
                if not (0 <= i < len(base)):
                    raise IndexPanic(node, "index %d out of bounds of a vector of length %d" % (i, len(base)))
                base[i] = val
                return
        return sym.Interp.assign(self, lhs, val, node)

    # ---- conditions -----------------------------------------------------------------------------
    def decide(self, c, n):
        if c is sp.true or c is True:
            return True
        if c is sp.false or c is False:
            return False
        try:
            s = sp.simplify(c)
        except Exception:
            s = c
        if s is sp.true:
            return True
        if s is sp.false:
            return False
        if self.if_hook is not None:
            r = self.if_hook(self, n, s)
            if r is not None:
                return r
        raise sym.Unsupported(n, "undecided condition %s" % s)

    def ev_If(self, n):
        c = self.ev(n["c"])
        if self.decide(c, n):
            return self.ev(n["t"])
        if "e" in n:
            return self.ev(n["e"])
        return None

    def ev_While(self, n):
        for _ in range(self.WHILE_LIMIT):
            self.tick(n)
            c = self.ev(n["c"])
            if not self.decide(c, n):
                return None
            try:
                self.ev(n["body"])
            except sym.Continue as cc:
                if cc.target not in (None, n["id"]):
                    raise
            except sym.Break as b:
                if b.target not in (None, n["id"]):
                    raise
                return None
        raise Budget(n, "a `while` loop does not terminate within %d abstract iterations" % self.WHILE_LIMIT)

    def ev_Match(self, n):
        v = self.deref(self.ev(n["e"]))
        for a in n["arms"]:
            ok, binds = self.match_pat(a["pat"], v)
            if not ok:
                continue
            saved = {}
            for i, nm, val in binds:
                self.env[i] = val
                self.names[i] = nm
            if "guard" in a:
                g = self.ev(a["guard"])
                if not self.decide(g, a["guard"]):
                    continue
            return self.ev(a["body"])
        raise sym.Unsupported(n, "no arm matches %r" % (v,))

    def match_pat(self, p, v):
        k = p.get("k")
        if k == "Wild":
            return True, []
        if k == "Bind":
            return True, [(p["id"], p["name"], v)]
        if k == "PLit" and p.get("lit") == "bool":
            want = p.get("v") == "true"
            if v is True or v is sp.true:
                return want, []
            if v is False or v is sp.false:
                return (not want), []
            if isinstance(v, sp.Basic):
                return (self.decide(v, p) == want), []       # a symbolic condition matched against `true` / `false`: decided like an `if`
            return False, []
        if k == "PLit":
            lit = sp.Integer(int(p["v"])) if p.get("lit") == "int" else None
            if lit is None:
                return False, []
            if p.get("neg"):
                lit = -lit
            return (getattr(v, "is_Integer", False) and int(v) == int(lit)), []
        if k == "PStruct" and isinstance(self.deref(v), dict):
            d = self.deref(v)
            out = []
            for f in p["fields"]:
                if f["name"] not in d:
                    return False, []
                ok, b = self.match_pat(f["pat"], d[f["name"]])
                if not ok:
                    return False, []
                out += b
            return True, out
        if k in ("PTupleStruct", "PStruct", "PPath"):
            name = (p.get("def") or "").split("::")[-1]
            if isinstance(v, sym.Variant) and v.name == name:
                subs = p.get("ps") or [f["pat"] for f in p.get("fields", [])]
                if len(subs) != len(v.args):
                    return False, []
                out = []
                for sp_, sv in zip(subs, v.args):
                    ok, b = self.match_pat(sp_, sv)
                    if not ok:
                        return False, []
                    out += b
                return True, out
            return False, []
        if k == "PTuple" and isinstance(v, tuple) and len(v) == len(p["ps"]):
            out = []
            for sp_, sv in zip(p["ps"], v):
                ok, b = self.match_pat(sp_, sv)
                if not ok:
                    return False, []
                out += b
            return True, out
        if k in ("PRef", "PDeref"):
            return self.match_pat(p["p"], self.deref(v))
        if k == "PSlice":
            v = self.deref(v)
            if isinstance(v, LazyIter):
                v = v.items
            if not isinstance(v, list):
                raise sym.Unsupported(p, "slice pattern against %r" % (v,))
            nb, na = len(p.get("before") or []), len(p.get("after") or [])
            has_rest = "mid" in p
            if (not has_rest and len(v) != nb + na) or (has_rest and len(v) < nb + na):
                return False, []
            out = []
            for sp_, sv in list(zip(p.get("before") or [], v[:nb])) + list(zip(p.get("after") or [], v[len(v) - na:] if na else [])):
                ok, b = self.match_pat(sp_, sv)
                if not ok:
                    return False, []
                out += b
            if has_rest and p["mid"].get("k") != "Wild":
                ok, b = self.match_pat(p["mid"], ListView(v, nb, len(v) - na))
                if not ok:
                    return False, []
                out += b
            return True, out
        if k == "POr":
            for q in p["ps"]:
                ok, b = self.match_pat(q, v)
                if ok:
                    return True, b
            return False, []
        if k == "PRange":
            def bound(q):
                if q is None:
                    return None
                if q.get("lit") != "int":
                    raise sym.Unsupported(p, "range pattern with a non-integer bound")
                x = int(q["v"])
                return -x if q.get("neg") else x
            lo, hi = bound(p.get("lo")), bound(p.get("hi"))
            v = self.deref(v)
            if not getattr(v, "is_Integer", False):
                raise sym.Unsupported(p, "range pattern against a symbolic value")
            x = int(v)
            if lo is not None and x < lo:
                return False, []
            if hi is not None and (x > hi if p.get("inclusive") else x >= hi):
                return False, []
            return True, []
        raise sym.Unsupported(p, "pattern %s" % k)

    def ev_Let(self, n):
        """`if let PAT = e` / `while let PAT = e` as a condition: binds on success."""
        v = self.deref(self.ev(n["init"]))
        ok, binds = self.match_pat(n["pat"], v)
        if not ok:
            return sp.false
        for i, nm, val in binds:
            self.env[i] = val
            self.names[i] = nm
        return sp.true

    def bind(self, pat, val, node=None):
        k = pat.get("k")
        if k in ("PRef", "PDeref"):
            return self.bind(pat["p"], self.deref(val), node)
        if k == "PTuple" and isinstance(val, tuple):
            for q, v in zip(pat["ps"], val):
                self.bind(q, v, node)
            return
        if k == "PStruct" and isinstance(self.deref(val), dict):
            # destructuring a struct value: `let Polynomial { coefficients, .. } = p;`
            d = self.deref(val)
            for f in pat["fields"]:
                if f["name"] not in d:
                    raise sym.Unsupported(node or pat, "no field %s to destructure" % f["name"])
                self.bind(f["pat"], d[f["name"]], node)
            return
        if k in ("PSlice", "POr", "PLit", "PRange"):
            ok, binds = self.match_pat(pat, val)
            if not ok:
                raise sym.Unsupported(node or pat, "irrefutable binding does not match")
            for i, nm, v in binds:
                self.env[i] = v
                self.names[i] = nm
            return
        return sym.Interp.bind(self, pat, val, node)

    def ev_Try(self, n):
        v = self.ev(n["e"])
        if isinstance(v, sym.Variant):
            if v.name in ("Ok", "Some") and len(v.args) == 1:
                return v.args[0]
            if v.name in ("Err", "None"):
                raise sym.Return(v)
        return v

    def ev_Loop(self, n):
        for _ in range(self.WHILE_LIMIT):
            self.tick(n)
            try:
                self.ev(n["body"])
            except sym.Continue as cc:
                if cc.target not in (None, n["id"]):
                    raise
            except sym.Break as b:
                if b.target not in (None, n["id"]):
                    raise
                return b.value
        raise sym.Unsupported(n, "loop unroll limit")

    # ---- iteration ------------------------------------------------------------------------------
    def iter_values(self, it):
        v = self.ev(it)
        v = self.deref(v)
        if isinstance(v, tuple) and v and v[0] == "range":
            a, b = v[1], v[2]
            if getattr(a, "is_Integer", False) and getattr(b, "is_Integer", False):
                return [sp.Integer(i) for i in range(int(a), int(b))]
            raise sym.Unsupported(it, "range with symbolic bounds %s..%s" % (a, b))
        if isinstance(v, list):
            if (it.get("k") == "Ref" and it.get("mut")):
                return [ElemRef(v, i) for i in range(len(v))]
            return list(v)
        if isinstance(v, LazyIter):
            return v.items
        raise sym.Unsupported(it, "iteration over %r" % (v,))

    def ev_For(self, n):
        # `for i in a..b` with a concrete start and a *symbolic* end (an iteration cap): the counter form `i = a; while i < b { …; i += 1 }`,
        # the continuation test decided like any other condition
        itp = peel(n["iter"])
        if itp.get("k") == "Struct" and (itp.get("def") or "").endswith("ops::Range"):
            f_ = {x["name"]: x["e"] for x in itp["fields"]}
            if "start" in f_ and "end" in f_:
                a, b = self.ev(f_["start"]), self.ev(f_["end"])
                if getattr(a, "is_Integer", False) and not getattr(b, "is_Integer", False) and isinstance(b, sp.Basic):
                    i = int(a)
                    for _ in range(self.WHILE_LIMIT):
                        self.tick(n)
                        if not self.decide(sp.Lt(sp.Integer(i), b), n):
                            return None
                        self.bind(n["pat"], sp.Integer(i), n)
                        try:
                            self.ev(n["body"])
                        except sym.Continue as c:
                            if c.target not in (None, n["id"]):
                                raise
                        except sym.Break as b_:
                            if b_.target not in (None, n["id"]):
                                raise
                            return None
                        i += 1
                    raise Budget(n, "a `for` loop over a symbolic range does not terminate within %d abstract iterations" % self.WHILE_LIMIT)
        items = self.iter_values(n["iter"])
        for v in items:
            self.tick(n)
            self.bind(n["pat"], v, n)
            try:
                self.ev(n["body"])
            except sym.Continue as c:
                if c.target not in (None, n["id"]):
                    raise
            except sym.Break as b:
                if b.target not in (None, n["id"]):
                    raise
                break
        return None

    # ---- calls ----------------------------------------------------------------------------------
    def ev_Call(self, n):
        d = callee(n) or ""
        last = d.split("::")[-1]
        if n.get("mac") in ("format", "format_args", "panic", "write", "println") or d.startswith("std::fmt::") or d.startswith("alloc::fmt::") or d.startswith("core::fmt::"):
            return sym.Opaque("formatted string")
        if "ovl" not in n:
            if d.endswith("RangeInclusive::<Idx>::new"):
                a, b = self.ev(n["args"][0]), self.ev(n["args"][1])
                return ("range", a, b + 1)
            if d.startswith("std::vec::Vec") and last in ("new", "with_capacity"):
                return []
            if d.startswith("std::collections::VecDeque") and last in ("new", "with_capacity"):
                return []
            if (d.startswith("std::vec::Vec") or d.startswith("std::collections::VecDeque") or "Vec::<T" in d) and last in ("from", "from_iter"):
                v = self.deref(self.ev(n["args"][0]))
                return list(v.items if isinstance(v, LazyIter) else v)
            if last == "from_elem" and "vec" in d:
                v, cnt = self.ev(n["args"][0]), self.ev(n["args"][1])
                return [v] * int(cnt)
            if d.endswith("Complex::<T>::new"):
                a, b = self.num(self.ev(n["args"][0]), n), self.num(self.ev(n["args"][1]), n)
                return a + sp.I * b if b != 0 else a
            if last in sym.FROM_PRIM and ("FromPrimitive" in d or "num_traits" in d):
                v = self.ev(n["args"][0])
                if last == "from_f32" and getattr(v, "is_Rational", False):
                    v = sym.round_to_f32(v)
                return sym.Variant("Some", [v])
            if d.startswith("std::any::TypeId"):
                return sym.Opaque("typeid:" + (n["f"].get("gargs") or ["?"])[0])
            if d in ("std::iter::once", "core::iter::once"):
                return LazyIter([self.deref(self.ev(n["args"][0]))])
            if d in ("std::iter::empty", "core::iter::empty"):
                return LazyIter([])
            if d in ("std::iter::repeat", "core::iter::repeat"):
                return RepeatIter(self.deref(self.ev(n["args"][0])))
            if d in ("std::iter::repeat_n", "core::iter::repeat_n"):
                return LazyIter([self.deref(self.ev(n["args"][0]))] * int(self.ev(n["args"][1])))
            if d in ("std::cmp::min", "std::cmp::max", "core::cmp::min", "core::cmp::max", "std::cmp::Ord::min", "std::cmp::Ord::max"):
                a, b = self.num(self.ev(n["args"][0]), n), self.num(self.ev(n["args"][1]), n)
                if a.is_number and b.is_number:
                    return (min if last == "min" else max)(a, b)
                return (sp.Min if last == "min" else sp.Max)(a, b)
            if d in ("std::mem::replace", "core::mem::replace"):
                tgt = n["args"][0]
                tgt = peel(tgt)["e"] if peel(tgt).get("k") == "Ref" else tgt
                old_ = self.deref(self.ev(tgt))
                self.assign(tgt, self.deref(self.ev(n["args"][1])), n)
                return old_
            if d in ("std::mem::take", "core::mem::take"):
                tgt = n["args"][0]
                tgt = peel(tgt)["e"] if peel(tgt).get("k") == "Ref" else tgt
                old_ = self.deref(self.ev(tgt))
                self.assign(tgt, [] if isinstance(old_, list) else sp.Integer(0), n)
                return old_
            if d in ("std::mem::swap", "core::mem::swap"):
                a_, b_ = n["args"]
                a_ = peel(a_)["e"] if peel(a_).get("k") == "Ref" else a_
                b_ = peel(b_)["e"] if peel(b_).get("k") == "Ref" else b_
                va, vb = self.deref(self.ev(a_)), self.deref(self.ev(b_))
                self.assign(a_, vb, n)
                self.assign(b_, va, n)
                return None
            if d in self.F.by_path and len(self.F.by_path[d]) == 1:
                return self.inline_fn(self.F.by_path[d][0], [self.ev(a) for a in n["args"]], n)
            if d == "std::iter::FromIterator::from_iter":
                v = self.deref(self.ev(n["args"][0]))
                v = v if isinstance(v, LazyIter) else LazyIter(list(v))
                ty = n.get("ty") or ""
                if "Polynomial<" in ty and not ty.startswith("std::vec::Vec"):
                    c = [b for b in self.F.bodies if b["name"] == "from_iter" and "FromIterator" in (b.get("impl_trait") or "") and "Polynomial" in (b.get("impl_self") or "")]
                    if len(c) != 1:
                        raise sym.Unsupported(n, "FromIterator impl for Polynomial not found")
                    return self.inline_fn(c[0], [v], n)
                return [self.deref(x) for x in v.items]
            if d == "std::iter::IntoIterator::into_iter":
                v = self.deref(self.ev(n["args"][0]))
                return v if isinstance(v, LazyIter) else LazyIter(list(v))
        return sym.Interp.ev_Call(self, n)

    def inline_fn(self, body, args, n, consts=None):
        if self.depth > self.MAX_DEPTH:
            raise sym.Unsupported(n, "inlining depth")
        sub = self.__class__(self.F, body, consts or self.consts, self.depth + 1, self.shared)
        sub.if_hook = self.if_hook
        sub.call_hooks = self.call_hooks
        sub.lazy_hooks = self.lazy_hooks
        sub.method_hooks = self.method_hooks
        sub.fn_atoms = self.fn_atoms
        sub.user_fn = getattr(self, "user_fn", None)
        self.shared["trace_fns"].append(body["path"])
        if len(body["params"]) != len(args):
            raise sym.Unsupported(n, "arity mismatch inlining %s" % body["path"])
        for p, a in zip(body["params"], args):
            sub.bind(p, a, n)
        try:
            return sub.ev(body["body"])
        except sym.Return as r:
            return r.value

    def find_impl(self, name, trait_sub, self_ty, rhs_ty=None):
        def norm(t):
            return (t or "").replace("&mut ", "&").replace("'_ ", "").strip()
        c = []
        for b in self.F.bodies:
            if b["name"] != name or trait_sub not in (b.get("impl_trait") or ""):
                continue
            if norm(b.get("impl_self")) != norm(self_ty):
                continue
            if rhs_ty is not None:
                tr = b.get("impl_trait") or ""
                i = tr.find(" as std::ops::")
                rest = tr[i + len(" as std::ops::"):-1] if i >= 0 else ""
                j = rest.find("<")
                rhs = rest[j + 1:-1] if j >= 0 else (b.get("impl_self") or "")
                if norm(rhs) != norm(rhs_ty):
                    continue
            c.append(b)
        return c

    def dispatch_binop(self, op, n, a, b):
        name = {"Add": "add", "Sub": "sub", "Mul": "mul", "Div": "div"}.get(op)
        if name is None:
            raise sym.Unsupported(n, "operator %s on structs" % op)
        lty, rty = n["l"].get("ty"), n["r"].get("ty")
        c = self.find_impl(name, "ops::" + op, lty, rty)
        if len(c) != 1:
            raise sym.Unsupported(n, "no unique impl of %s for (%s, %s): %d" % (op, lty, rty, len(c)))
        # by-value operands are moved: copy so that aliasing in the abstract heap cannot leak
        if not (lty or "").startswith("&"):
            a = clone_val(a)
        return self.inline_fn(c[0], [a, b], n)

    def dispatch_unop(self, name, n, a):
        c = self.find_impl(name, "ops::Neg", n["e"].get("ty"))
        if len(c) != 1:
            raise sym.Unsupported(n, "no unique impl of Neg for %s" % n["e"].get("ty"))
        if not (n["e"].get("ty") or "").startswith("&"):
            a = clone_val(a)
        return self.inline_fn(c[0], [a], n)

    def dispatch_assignop(self, op, n, a, b):
        name = {"AddAssign": "add_assign", "SubAssign": "sub_assign", "MulAssign": "mul_assign", "DivAssign": "div_assign"}[op]
        c = self.find_impl(name, "ops::" + op, n["l"].get("ty"), n["r"].get("ty"))
        if len(c) != 1:
            raise sym.Unsupported(n, "no unique impl of %s for (%s, %s): %d" % (op, n["l"].get("ty"), n["r"].get("ty"), len(c)))
        return self.inline_fn(c[0], [a, b], n)

    def ev_MCall(self, n):
        name = n["name"]
        d = n.get("def") or ""
        if name in self.method_hooks:
            r = self.method_hooks[name](self, n)
            if r is not NotImplemented:
                return r
        recv = self.ev(n["recv"])
        rv = self.deref(recv)
        # crate-local inherent / trait methods: inline
        if d in self.F.by_path and len(self.F.by_path[d]) == 1 and not isinstance(rv, (list, LazyIter)):
            return self.inline_fn(self.F.by_path[d][0], [rv] + [self.ev(a) for a in n["args"]], n)
        if isinstance(rv, list):
            r = self.list_method(n, name, rv)
            if r is not NotImplemented:
                return r
        if isinstance(rv, LazyIter):
            r = self.iter_method(n, name, rv)
            if r is not NotImplemented:
                return r
        if isinstance(rv, RepeatIter):
            if name == "take":
                return LazyIter([rv.value] * int(self.ev(n["args"][0])))
            if name == "zip":
                o = self.deref(self.ev(n["args"][0]))
                o = o.items if isinstance(o, LazyIter) else list(o)
                return LazyIter([(rv.value, x) for x in o])
            if name in ("copied", "cloned", "by_ref"):
                return rv
            raise sym.Unsupported(n, "unbounded repeat() consumed by %s" % name)
        if isinstance(rv, tuple) and rv and rv[0] == "range" and rv[2] is None and name in ("zip", "take"):
            # an unbounded range `a..` consumed by zip / take
            lo = 0 if rv[1] is None else int(rv[1])
            if name == "take":
                k_ = int(self.ev(n["args"][0]))
                return LazyIter([sp.Integer(i) for i in range(lo, lo + k_)])
            o = self.deref(self.ev(n["args"][0]))
            o = o.items if isinstance(o, LazyIter) else list(o)
            return LazyIter([(sp.Integer(lo + i), x) for i, x in enumerate(o)])
        if isinstance(rv, tuple) and rv and rv[0] == "range" and rv[2] is not None:
            items = LazyIter([sp.Integer(i) for i in range(0 if rv[1] is None else int(rv[1]), int(rv[2]))])
            r = self.iter_method(n, name, items)
            if r is not NotImplemented:
                return r
        if isinstance(rv, sym.Variant):
            if name in ("unwrap", "expect") and rv.name in ("Some", "Ok") and len(rv.args) == 1:
                return rv.args[0]
            if name in ("unwrap", "expect"):
                raise IndexPanic(n, "unwrap on %s" % rv.name)
            if name in ("ok_or", "ok_or_else") and rv.name in ("Some", "None"):
                if rv.name == "Some":
                    return sym.Variant("Ok", list(rv.args))
                if name == "ok_or":
                    return sym.Variant("Err", [self.ev(n["args"][0])])
                return sym.Variant("Err", [self.apply_closure(self._closure_arg(n), [], n)])
            if name == "map_err" and rv.name == "Err" and n["args"]:
                try:
                    return sym.Variant("Err", [self.apply_closure(self._closure_arg(n), list(rv.args), n)])
                except sym.Unsupported:
                    return rv
            if name in ("ok_or", "ok_or_else", "map_err"):
                return rv
            if name in ("then_some", "then") and False:
                pass
            if name == "is_some":
                return sp.true if rv.name == "Some" else sp.false
            if name == "is_none":
                return sp.true if rv.name == "None" else sp.false
            if name in ("is_ok", "is_err"):
                return sp.true if (rv.name == "Ok") == (name == "is_ok") else sp.false
            if name in ("unwrap_or", "unwrap_or_default", "unwrap_or_else"):
                if rv.name in ("Some", "Ok"):
                    return rv.args[0]
                if name == "unwrap_or":
                    return self.ev(n["args"][0])
                if name == "unwrap_or_else":
                    return self.apply_closure(self._closure_arg(n), [] if rv.name == "None" else list(rv.args), n)
                return sp.Integer(0)
            if name in ("map", "and_then") and rv.name in ("Some", "Ok", "None", "Err"):
                if rv.name in ("None", "Err"):
                    return rv
                r_ = self.apply_closure(self._closure_arg(n), [rv.args[0]], n)
                return r_ if name == "and_then" else sym.Variant(rv.name, [r_])
            if name == "filter" and rv.name in ("Some", "None"):
                if rv.name == "None":
                    return rv
                return rv if self.decide(self.apply_closure(self._closure_arg(n), [rv.args[0]], n), n) else sym.Variant("None")
            if name == "map_or_else" and len(n["args"]) == 2 and rv.name in ("Some", "Ok", "None", "Err"):
                if rv.name in ("Some", "Ok"):
                    return self.apply_closure(self._closure_arg(n, 1), [rv.args[0]], n)
                return self.apply_closure(self._closure_arg(n, 0), [] if rv.name == "None" else list(rv.args), n)
            if name in ("is_some_and", "is_ok_and", "map_or"):
                if name == "map_or":
                    return self.apply_closure(self._closure_arg(n, 1), [rv.args[0]], n) if rv.name in ("Some", "Ok") else self.ev(n["args"][0])
                if rv.name not in ("Some", "Ok"):
                    return sp.false
                return self.apply_closure(self._closure_arg(n), [rv.args[0]], n)
            if name in ("or_else", "or") and rv.name in ("Some", "Ok", "None", "Err"):
                if rv.name in ("Some", "Ok"):
                    return rv
                return self.ev(n["args"][0]) if name == "or" else self.apply_closure(self._closure_arg(n), [] if rv.name == "None" else list(rv.args), n)
            if name == "ok":
                return sym.Variant("Some", list(rv.args)) if rv.name == "Ok" else sym.Variant("None")
            if name in ("take", "replace") and "option::Option" in (n.get("def") or ""):
                # Option::take / Option::replace: the old value is returned, the place holds None / Some(new)
                new_ = sym.Variant("None") if name == "take" else sym.Variant("Some", [self.deref(self.ev(n["args"][0]))])
                tgt = n["recv"]
                while isinstance(tgt, dict) and tgt.get("k") in ("Ref", "Paren", "DropTemps", "Use"):
                    tgt = tgt.get("e")
                self.assign(tgt, new_, n)
                return rv
            if name in ("copied", "cloned", "as_ref", "as_mut", "take"):
                return rv
            if name in ("iter", "into_iter"):
                return LazyIter(list(rv.args) if rv.name in ("Some", "Ok") else [])
        if isinstance(rv, dict) and name == "clone":
            return clone_val(rv)
        if name in ("clone", "to_owned", "copied", "cloned", "borrow", "as_ref", "into", "real", "to_real") and not isinstance(rv, (dict,)):
            if name in ("real", "to_real"):
                return sp.re(rv) if (hasattr(rv, "has") and rv.has(sp.I)) else rv
            return clone_val(rv) if isinstance(rv, list) else rv
        if name == "imaginary":
            return sp.im(rv) if (hasattr(rv, "has") and rv.has(sp.I)) else sp.Integer(0)
        if name in ("is_sign_positive", "is_sign_negative"):
            x = self.num(rv, n)
            return sp.Ge(x, 0) if name == "is_sign_positive" else sp.Lt(x, 0)
        if name == "is_zero":
            return sp.Eq(self.num(rv, n), 0)
        if name == "log2" and getattr(rv, "is_number", False):
            return sp.log(rv, 2)
        if name in ("min", "max") and len(n["args"]) == 1:
            a, b = self.num(rv, n), self.num(self.ev(n["args"][0]), n)
            if a.is_number and b.is_number:
                return (min if name == "min" else max)(a, b)
            return (sp.Min if name == "min" else sp.Max)(a, b)
        if name == "to_owned" or name == "to_string":
            return sym.Opaque("str")
        return self.ev_MCall_numeric(n, rv)

    def ev_MCall_numeric(self, n, rv):
        name = n["name"]
        if name in sym.MATH_METHODS and not n["args"]:
            return sym.MATH_METHODS[name](self.num(rv, n))
        if name in ("powi", "pow", "powf", "powc"):
            return self.num(rv, n) ** self.num(self.ev(n["args"][0]), n)
        if name in ("saturating_sub", "abs_diff") and len(n["args"]) == 1:
            a, b = self.num(rv, n), self.num(self.ev(n["args"][0]), n)
            if getattr(a, "is_Integer", False) and getattr(b, "is_Integer", False):
                return sp.Integer(max(int(a) - int(b), 0)) if name == "saturating_sub" else sp.Integer(abs(int(a) - int(b)))
            return sp.Max(a - b, 0) if name == "saturating_sub" else sp.Abs(a - b)
        if name in ("checked_sub", "checked_add", "checked_mul", "checked_div", "checked_rem", "wrapping_add", "wrapping_sub", "saturating_add",
                    "overflowing_sub", "rem_euclid", "div_euclid", "trailing_zeros", "leading_zeros", "count_ones", "is_power_of_two", "next_power_of_two", "ilog2",
                    "unsigned_abs", "abs", "signum", "is_positive", "is_negative") \
                and ("core::num" in (n.get("def") or "") or "std::num" in (n.get("def") or "")):
            a = self.num(rv, n)
            args_ = [self.num(self.ev(x), n) for x in n["args"]]
            if not (getattr(a, "is_Integer", False) and all(getattr(x, "is_Integer", False) for x in args_)):
                raise sym.Unsupported(n, "integer method %s on a symbolic value" % name)
            a = int(a)
            bs = [int(x) for x in args_]
            unsigned = (n["recv"].get("ty") or "").lstrip("&").startswith("u")
            some, none = (lambda x: sym.Variant("Some", [sp.Integer(x)])), sym.Variant("None")
            if name in ("unsigned_abs", "abs"):
                return sp.Integer(abs(a))
            if name == "signum":
                return sp.Integer((a > 0) - (a < 0))
            if name in ("is_positive", "is_negative"):
                return sp.true if (a > 0) == (name == "is_positive") and a != 0 else sp.false
            if name == "checked_sub":
                return none if (unsigned and a - bs[0] < 0) else some(a - bs[0])
            if name == "checked_add":
                return some(a + bs[0])
            if name == "checked_mul":
                return some(a * bs[0])
            if name in ("checked_div", "checked_rem"):
                return none if bs[0] == 0 else some(a // bs[0] if name == "checked_div" else a % bs[0])
            if name in ("wrapping_add", "saturating_add"):
                return sp.Integer(a + bs[0])
            if name == "wrapping_sub":
                if unsigned and a - bs[0] < 0:
                    raise sym.Unsupported(n, "wrapping_sub wraps")
                return sp.Integer(a - bs[0])
            if name == "rem_euclid":
                return sp.Integer(a % bs[0])
            if name == "div_euclid":
                return sp.Integer(a // bs[0])
            if name == "trailing_zeros":
                return sp.Integer((a & -a).bit_length() - 1) if a else sp.Integer(64)
            if name == "count_ones":
                return sp.Integer(bin(a).count("1"))
            if name == "is_power_of_two":
                return sp.true if a > 0 and a & (a - 1) == 0 else sp.false
            if name == "next_power_of_two":
                return sp.Integer(1 if a <= 1 else 1 << (a - 1).bit_length())
            if name == "ilog2":
                if a <= 0:
                    raise IndexPanic(n, "ilog2 of a non-positive number")
                return sp.Integer(a.bit_length() - 1)
            raise sym.Unsupported(n, "integer method %s" % name)
        if name in ("then_some", "then") and "bool" in (n.get("def") or "") and len(n["args"]) == 1:
            if name == "then_some":
                x = self.ev(n["args"][0])                 # evaluated eagerly, whatever the condition
                return sym.Variant("Some", [x]) if self.decide(rv, n) else sym.Variant("None")
            if self.decide(rv, n):
                return sym.Variant("Some", [self.apply_closure(self._closure_arg(n), [], n)])
            return sym.Variant("None")
        if name in ("is_finite", "is_nan", "is_infinite"):
            return sp.Function(name)(self.num(rv, n))
        if name == "modulus_squared":
            x = self.num(rv, n)
            return x * sp.conjugate(x) if (hasattr(x, "has") and x.has(sp.I)) else x ** 2
        if name in ("unwrap", "expect"):
            return rv
        raise sym.Unsupported(n, "method %s (%s) on %r" % (name, n.get("def"), type(rv).__name__))

    # ---- containers -----------------------------------------------------------------------------
    def list_method(self, n, name, v):
        if name == "push" or name == "push_back":
            v.append(self.deref(self.ev(n["args"][0])))
            return None
        if name == "push_front":
            v.insert(0, self.deref(self.ev(n["args"][0])))
            return None
        if name == "pop":
            return sym.Variant("Some", [v.pop()]) if v else sym.Variant("None")
        if name in ("reserve", "reserve_exact", "shrink_to_fit", "shrink_to"):
            for a in n["args"]:
                self.ev(a)          # capacity hints do not change the value (their argument is still evaluated: it may underflow)
            return None
        if name == "insert":
            i = int(self.ev(n["args"][0]))
            v.insert(i, self.deref(self.ev(n["args"][1])))
            return None
        if name == "len":
            return sp.Integer(len(v))
        if name == "is_empty":
            return sp.true if not v else sp.false
        if name == "last":
            return sym.Variant("Some", [v[-1]]) if v else sym.Variant("None")
        if name == "first":
            return sym.Variant("Some", [v[0]]) if v else sym.Variant("None")
        if name == "reverse":
            v.reverse()
            return None
        if name in ("clone", "to_vec", "to_owned"):
            return list(v)
        if name in ("as_slice", "as_mut_slice", "as_ref"):
            return v
        if name in ("iter", "into_iter"):
            return LazyIter(list(v))
        if name == "iter_mut":
            return LazyIter([ElemRef(v, i) for i in range(len(v))])
        if name == "clone_from_slice" or name == "copy_from_slice":
            src = self.deref(self.ev(n["args"][0]))
            if len(src) != len(v):
                raise IndexPanic(n, "clone_from_slice length mismatch")
            # v may be a slice copy: write back through the index expression
            tgt = peel(n["recv"])
            if tgt.get("k") == "Index":
                base = self.deref(self.ev(tgt["e"]))
                rng = self.ev(tgt["i"])
                a = 0 if rng[1] is None else int(rng[1])
                for j, x in enumerate(src):
                    base[a + j] = x
            else:
                v[:] = list(src)
            return None
        if name in ("contains",):
            x = self.ev(n["args"][0])
            return sp.true if any(sym.eq(y, x) for y in v) else sp.false
        if name in ("clear",):
            del v[:]
            return None
        if name == "truncate":
            del v[int(self.ev(n["args"][0])):]
            return None
        if name == "windows":
            k = int(self.ev(n["args"][0]))
            if k <= 0:
                raise IndexPanic(n, "windows(0)")
            return LazyIter([ListView(v, i, i + k) for i in range(0, len(v) - k + 1)])
        if name in ("chunks", "chunks_exact", "chunks_mut", "chunks_exact_mut"):
            k = int(self.ev(n["args"][0]))
            if k <= 0:
                raise IndexPanic(n, "chunks(0)")
            out = [ListView(v, i, min(i + k, len(v))) for i in range(0, len(v), k)]
            if name.startswith("chunks_exact"):
                out = [c for c in out if len(c) == k]
            return LazyIter(out)
        if name in ("split_last", "split_first", "split_last_mut", "split_first_mut"):
            if not v:
                return sym.Variant("None")
            mut_ = name.endswith("_mut")
            if name.startswith("split_last"):
                return sym.Variant("Some", [(ElemRef(v, len(v) - 1) if mut_ else v[-1], ListView(v, 0, len(v) - 1))])
            return sym.Variant("Some", [(ElemRef(v, 0) if mut_ else v[0], ListView(v, 1, len(v)))])
        if name in ("split_at", "split_at_mut"):
            k = int(self.ev(n["args"][0]))
            if k > len(v):
                raise IndexPanic(n, "split_at(%d) on a slice of length %d" % (k, len(v)))
            return (ListView(v, 0, k), ListView(v, k, len(v)))
        if name in ("extend", "extend_from_slice", "append"):
            src = self.deref(self.ev(n["args"][0]))
            src = src.items if isinstance(src, LazyIter) else list(src)
            v.extend(self.deref(x) for x in src)
            if name == "append" and isinstance(src, list):
                del src[:]
            return None
        if name == "resize":
            k = int(self.ev(n["args"][0]))
            fill = self.deref(self.ev(n["args"][1]))
            if k < len(v):
                del v[k:]
            else:
                v.extend([fill] * (k - len(v)))
            return None
        if name == "swap":
            i, j = int(self.ev(n["args"][0])), int(self.ev(n["args"][1]))
            if max(i, j) >= len(v):
                raise IndexPanic(n, "swap index out of bounds")
            v[i], v[j] = v[j], v[i]
            return None
        if name == "remove":
            i = int(self.ev(n["args"][0]))
            if i >= len(v):
                raise IndexPanic(n, "remove index out of bounds")
            return v.pop(i)
        if name in ("get", "get_mut"):
            i = self.ev(n["args"][0])
            if getattr(i, "is_Integer", False):
                if not (0 <= int(i) < len(v)):
                    return sym.Variant("None")
                return sym.Variant("Some", [ElemRef(v, int(i)) if name == "get_mut" else v[int(i)]])
            if isinstance(i, tuple) and i and i[0] == "range":
                a = 0 if i[1] is None else int(i[1])
                b = len(v) if i[2] is None else int(i[2])
                return sym.Variant("Some", [ListView(v, a, b)]) if 0 <= a <= b <= len(v) else sym.Variant("None")
        if name in ("first_mut", "last_mut"):
            if not v:
                return sym.Variant("None")
            return sym.Variant("Some", [ElemRef(v, 0 if name == "first_mut" else len(v) - 1)])
        if name in ("fill",):
            x = self.deref(self.ev(n["args"][0]))
            for i in range(len(v)):
                v[i] = x
            return None
        if name in ("concat",):
            out = []
            for x in v:
                out.extend(x)
            return out
        # any other iterator adaptor applied directly to a Vec / slice value (IntoIterator)
        r = self.iter_method(n, name, LazyIter(list(v)))
        if r is not NotImplemented:
            return r
        return NotImplemented

    def _closure_arg(self, n, k=0):
        fn = n["args"][k]
        if fn.get("k") == "Closure":
            return sym.ClosureVal(fn, None)
        fp = peel(fn)
        if fp.get("k") == "Path" and (fp.get("dk", "").startswith(("Fn", "AssocFn", "Ctor"))):
            return sym.FnVal(fp)
        v = self.ev(fn)
        if isinstance(v, (sym.ClosureVal, sym.FnVal, sym.UserCallable)):
            return v
        ty = (fp.get("ty") or "").replace("&mut ", "").replace("&", "").strip()
        if fp.get("k") in ("Local", "Field") and (ty.startswith(("fn(", "impl Fn", "for<", "dyn Fn")) or (len(ty) <= 3 and ty[:1].isupper()) or "closure@" in ty):
            return sym.UserCallable(self.norm_place(place(fp)) or fp.get("name"))     # the user's function handed on by value
        raise sym.Unsupported(n, "callable argument %s" % pp(fn)[:40])

    def apply_fn(self, fv, args, n):
        d = fv.node.get("def") or ""
        if d in self.F.by_path and len(self.F.by_path[d]) == 1 and not fv.node.get("dk", "").startswith("Ctor"):
            return self.inline_fn(self.F.by_path[d][0], [self.deref(a) for a in args], n)
        return sym.Interp.apply_fn(self, fv, [self.deref(a) for a in args], n)

    def iter_method(self, n, name, it):
        items = it.items
        if name in ("copied", "cloned", "by_ref", "into_iter", "iter"):
            if name in ("copied", "cloned"):
                return LazyIter([self.deref(x) for x in items])
            return it
        if name == "rev":
            return LazyIter(list(reversed(items)))
        if name == "skip":
            return LazyIter(items[int(self.ev(n["args"][0])):])
        if name == "take":
            return LazyIter(items[:int(self.ev(n["args"][0]))])
        if name == "step_by":
            return LazyIter(items[::int(self.ev(n["args"][0]))])
        if name == "enumerate":
            return LazyIter([(sp.Integer(i), x) for i, x in enumerate(items)])
        if name == "zip":
            o = self.deref(self.ev(n["args"][0]))
            if isinstance(o, RepeatIter):
                return LazyIter([(x, o.value) for x in items])
            if isinstance(o, tuple) and o and o[0] == "range":
                lo = 0 if o[1] is None else int(o[1])
                hi = lo + len(items) if o[2] is None else int(o[2])       # `a..` is as long as needed
                o = [sp.Integer(i) for i in range(lo, hi)]
            elif isinstance(o, tuple) and o and isinstance(o[0], str):
                raise sym.Unsupported(n, "zip with %r" % (o,))
            o = o.items if isinstance(o, LazyIter) else list(o)
            return LazyIter(list(zip(items, o)))
        if name == "map":
            fn = n["args"][0]
            if fn.get("k") == "Closure":
                return LazyIter([self.apply_closure(sym.ClosureVal(fn, None), [x], n) for x in items])
            fp = peel(fn)
            if fp.get("k") == "Path":
                last = fp["def"].split("::")[-1]
                if last in sym.TRANSPARENT_CALLS:
                    return LazyIter([self.deref(x) for x in items])
                if fp["def"] in self.F.by_path and len(self.F.by_path[fp["def"]]) == 1:
                    return LazyIter([self.inline_fn(self.F.by_path[fp["def"]][0], [self.deref(x)], n) for x in items])
            v_ = self._closure_arg(n)
            return LazyIter([self.apply_closure(v_, [self.deref(x)], n) for x in items])
        if name == "filter":
            cvf = self._closure_arg(n)
            out = []
            for x in items:
                if self.decide(self.apply_closure(cvf, [x], n), n):
                    out.append(x)
            return LazyIter(out)
        if name in ("any", "all"):
            cvf = self._closure_arg(n)
            for x in items:
                r = self.decide(self.apply_closure(cvf, [x], n), n)
                if name == "any" and r:
                    return sp.true
                if name == "all" and not r:
                    return sp.false
            return sp.false if name == "any" else sp.true
        if name == "fold":
            acc = self.ev(n["args"][0])
            for x in items:
                acc = self.apply_closure(sym.ClosureVal(n["args"][1], None), [acc, x], n)
            return acc
        if name == "sum":
            return sum([self.deref(x) for x in items], sp.Integer(0))
        if name == "count" or name == "len":
            return sp.Integer(len(items))
        if name == "last":
            return sym.Variant("Some", [items[-1]]) if items else sym.Variant("None")
        if name == "next":
            return sym.Variant("Some", [items.pop(0)]) if items else sym.Variant("None")
        if name == "position" or name == "rposition":
            cv = self._closure_arg(n)
            idxs = range(len(items)) if name == "position" else range(len(items) - 1, -1, -1)
            for i in idxs:
                if self.decide(self.apply_closure(cv, [items[i]], n), n):
                    return sym.Variant("Some", [sp.Integer(i)])
            return sym.Variant("None")
        if name == "find":
            cv = self._closure_arg(n)
            for x in items:
                if self.decide(self.apply_closure(cv, [x], n), n):
                    return sym.Variant("Some", [x])
            return sym.Variant("None")
        if name == "find_map":
            cv = self._closure_arg(n)
            for x in items:
                r = self.apply_closure(cv, [x], n)
                if isinstance(r, sym.Variant) and r.name == "Some":
                    return r
                if not (isinstance(r, sym.Variant) and r.name == "None"):
                    raise sym.Unsupported(n, "find_map closure result %r" % (r,))
            return sym.Variant("None")
        if name == "filter_map":
            cv = self._closure_arg(n)
            out = []
            for x in items:
                r = self.apply_closure(cv, [x], n)
                if isinstance(r, sym.Variant) and r.name == "Some":
                    out.append(r.args[0])
                elif not (isinstance(r, sym.Variant) and r.name == "None"):
                    raise sym.Unsupported(n, "filter_map closure result %r" % (r,))
            return LazyIter(out)
        if name == "chain":
            o = self.deref(self.ev(n["args"][0]))
            o = o.items if isinstance(o, LazyIter) else (list(o) if isinstance(o, list) else None)
            if o is None:
                raise sym.Unsupported(n, "chain with a non-sequence")
            return LazyIter(list(items) + list(o))
        if name == "for_each":
            cv = self._closure_arg(n)
            for x in items:
                self.apply_closure(cv, [x], n)
            return None
        if name == "try_for_each":
            # the closure returns Result<(), E> / Option<()>: the first known failure stops the iteration and is the value; a result whose outcome the model does
            # not know (an uninterpreted fallible call) cannot be followed both ways here and is refused
            cv = self._closure_arg(n)
            opt = "option::Option" in (n.get("ty") or "")
            for x in items:
                r = self.apply_closure(cv, [x], n)
                if isinstance(r, sym.Variant) and r.name in ("Err", "None"):
                    return r
                if not (isinstance(r, sym.Variant) and r.name in ("Ok", "Some")):
                    raise sym.Unsupported(n, "try_for_each over a result of unknown outcome (%r)" % (r,))
            return sym.Variant("Some" if opt else "Ok", [()])
        if name == "product":
            acc = sp.Integer(1)
            for x in items:
                acc = acc * self.deref(x)
            ty = n.get("ty") or ""
            bits = {"u8": 8, "u16": 16, "u32": 32, "u64": 64, "usize": 64}.get(ty)
            if bits and getattr(acc, "is_Integer", False) and acc >= 2 ** bits:
                raise IndexPanic(n, "integer product overflows %s" % ty)
            return acc
        if name in ("min", "max") and not n["args"]:
            vals = [self.deref(x) for x in items]
            if not vals:
                return sym.Variant("None")
            if all(getattr(x, "is_number", False) for x in vals):
                return sym.Variant("Some", [(min if name == "min" else max)(vals)])
            raise sym.Unsupported(n, "min/max of symbolic values")
        if name == "nth":
            i = int(self.ev(n["args"][0]))
            return sym.Variant("Some", [items[i]]) if i < len(items) else sym.Variant("None")
        if name == "peekable" or name == "fuse":
            return it
        if name == "unzip":
            vals = [self.deref(x) for x in items]
            return ([a for a, _ in vals], [b for _, b in vals])
        if name == "flatten":
            out = []
            for x in items:
                x = self.deref(x)
                if isinstance(x, sym.Variant):
                    if x.name in ("Some", "Ok"):
                        out.append(x.args[0])
                    continue
                out.extend(x.items if isinstance(x, LazyIter) else list(x))
            return LazyIter(out)
        if name == "collect":
            vals = [self.deref(x) for x in items]
            ty = n.get("ty") or ""
            if (ty.startswith("std::result::Result<") or ty.startswith("std::option::Option<")) and vals and all(isinstance(x, sym.Variant) for x in vals):
                # collect::<Result<_, _>>(): the first Err / None wins, otherwise the collected payloads
                good = "Ok" if ty.startswith("std::result") else "Some"
                for x in vals:
                    if x.name != good:
                        return x
                return sym.Variant(good, [[x.args[0] for x in vals]])
            ty = n.get("ty") or ""
            if "Polynomial<" in ty and not ty.startswith("std::vec::Vec") and "Result<" not in ty:
                c = [b for b in self.F.bodies if b["name"] == "from_iter" and "FromIterator" in (b.get("impl_trait") or "") and "Polynomial" in (b.get("impl_self") or "")]
                if len(c) != 1:
                    raise sym.Unsupported(n, "FromIterator impl for Polynomial not found")
                return self.inline_fn(c[0], [LazyIter(vals)], n)
            return vals
        return NotImplemented


class LazyIter:
    def __init__(self, items):
        self.items = list(items)


class RepeatIter:
    """std::iter::repeat(x): only meaningful once bounded by take(k) / zip(finite)."""
    def __init__(self, value):
        self.value = value


class IndexPanic(Exception):
    """The abstract execution reached an out-of-bounds index / unwrap on None: the concrete program panics."""
    def __init__(self, node, why):
        self.node, self.why = node, why
        Exception.__init__(self, why)


def clone_val(v):
    if isinstance(v, dict):
        return {k: clone_val(x) for k, x in v.items()}
    if isinstance(v, list):
        return [clone_val(x) for x in v]
    return v
