"""Constant folding of f64 initialiser expressions exactly as rustc's const evaluation does (IEEE double)."""
import math
from .hir import peel, Missing

F64_CONSTS = {
    "PI": math.pi, "FRAC_PI_2": 1.5707963267948966, "FRAC_PI_3": 1.0471975511965979, "FRAC_PI_4": 0.7853981633974483,
    "FRAC_PI_6": 0.5235987755982989, "FRAC_PI_8": 0.39269908169872414, "FRAC_1_PI": 0.3183098861837907,
    "FRAC_2_PI": 0.6366197723675814, "FRAC_2_SQRT_PI": 1.1283791670955126, "SQRT_2": 1.4142135623730951,
    "FRAC_1_SQRT_2": 0.7071067811865476, "E": math.e, "LN_2": 0.6931471805599453, "LN_10": 2.302585092994046,
    "LOG2_E": 1.4426950408889634, "LOG10_E": 0.4342944819032518, "TAU": 6.283185307179586,
    "LOG2_10": 3.321928094887362, "LOG10_2": 0.3010299956639812,
}


def fold(n):
    n = peel(n)
    k = n.get("k")
    if k == "Lit" and n["lit"] in ("float", "int"):
        t = n["v"].replace("_", "")
        for suf in ("f64", "f32"):
            if t.endswith(suf):
                t = t[:-3]
        return float(t)
    if k == "Un" and n["op"] == "Neg":
        return -fold(n["e"])
    if k == "Bin" and n["op"] in ("Add", "Sub", "Mul", "Div"):
        a, b = fold(n["l"]), fold(n["r"])
        return {"Add": a + b, "Sub": a - b, "Mul": a * b, "Div": a / b if b != 0 else math.copysign(math.inf, a)}[n["op"]]
    if k == "Path":
        last = n["def"].split("::")[-1]
        if "consts" in n["def"] and last in F64_CONSTS:
            return F64_CONSTS[last]
    raise Missing("f64 initialiser outside the folded sub-language: %s" % k)


def table_rows(body):
    """&[&[(f64,f64)]] or [&[(f64,f64)]; N] initialiser -> list of rows of (a0, a1) doubles, with spans."""
    top = peel(body["body"])
    if top.get("k") != "Array":
        raise Missing("%s: initialiser is not an array literal" % body["path"])
    rows = []
    for r in top["es"]:
        r = peel(r)
        if r.get("k") != "Array":
            raise Missing("%s: row is not an array literal" % body["path"])
        row = []
        for t in r["es"]:
            t = peel(t)
            if t.get("k") != "Tup" or len(t["es"]) != 2:
                raise Missing("%s: entry is not a pair" % body["path"])
            row.append((fold(t["es"][0]), fold(t["es"][1]), t["sp"][0]))
        rows.append(row)
    return rows
