"""./check Cnn --tier quick|thorough [--replay path]"""
import argparse
import importlib
import os
import sys
import traceback

from . import build, hir, report


def main():
    ap = argparse.ArgumentParser()
    ap.add_argument("prop")
    ap.add_argument("--tier", default=os.environ.get("VERIF_TIER", "quick"), choices=["quick", "thorough"])
    ap.add_argument("--replay", default=None)
    ap.add_argument("--repo", default=None)
    a = ap.parse_args()
    prop = a.prop.upper()
    seed = int(os.environ.get("VERIF_SEED", "0") or 0)
    import time
    t_start = time.time()
    try:
        mod = importlib.import_module("rules." + prop.lower())
    except ImportError as e:
        print("no rules for %s: %s" % (prop, e))
        return 2
    try:
        facts, meta = build.get_facts(a.tier, a.repo)
    except build.BuildError as e:
        print("BUILD FAILURE (not a verdict on the property): %s" % e)
        return 2
    F = hir.Facts(facts, meta)
    run = report.Run(prop, a.tier, seed)
    run.t0 = t_start
    # watchdog: an abstract execution that diverges outside the per-call budgets (a sympy normalisation on an exploding expression, a model loop on
    # a mutated tree) must fail the check closed instead of hanging the caller for hours.  The limits are ~20x the slowest check on the pinned tree.
    import threading
    limit = int(os.environ.get("BSA_WATCHDOG_S", "0") or 0) or (3600 if a.tier == "quick" else 6 * 3600)

    def expired():
        try:
            run.broken("internal", "-", "watchdog", "-", "the check did not finish within %d s (diverging abstract execution): fails closed" % limit)
            run.finish(getattr(mod, "LEVEL", "other"), "check failed closed: watchdog after %d s" % limit, meta, None)
        finally:
            sys.stdout.flush()
            os._exit(1)
    wd = threading.Timer(limit, expired)
    wd.daemon = True
    wd.start()
    if a.replay:
        print("replaying %s: re-running all rules of %s on the current tree; findings named in the report:" % (a.replay, prop))
        try:
            import json
            for f in json.load(open(a.replay)).get("violations", []):
                print("  reported before: %s at %s" % (f["key"], f["where"]))
        except Exception as e:
            print("  (could not read report: %s)" % e)
    try:
        level, explanation, proof = mod.run(F, run, a.tier)
    except hir.Missing as e:
        run.broken("anchor", "-", str(e)[:80], "-", "required anchor/shape missing, check fails closed: %s" % e)
        level, explanation, proof = getattr(mod, "LEVEL", "other"), "check failed closed: %s" % e, None
    except Exception as e:
        traceback.print_exc()
        run.broken("internal", "-", type(e).__name__, "-", "rule engine error, check fails closed: %s" % e)
        level, explanation, proof = getattr(mod, "LEVEL", "other"), "check failed closed: %s" % e, None
    try:
        pi = sys.modules.get("rules.polyint")
        if pi is not None:
            run.functions |= set(pi.TRACE)
    except Exception:
        pass
    return run.finish(level, explanation, meta, proof)


if __name__ == "__main__":
    sys.exit(main())
