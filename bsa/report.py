"""Run record: obligations, findings (keyed without line numbers), known-finding suppression, evidence."""
import json
import os
import time

VERIF = os.path.dirname(os.path.dirname(os.path.abspath(__file__)))


class Run:
    def __init__(self, prop, tier, seed=0):
        self.prop = prop
        self.tier = tier
        self.seed = seed
        self.t0 = time.time()
        self.obligations = 0
        self.discharged = 0
        self.findings = []       # dicts: key, rule, where, what
        self.observations = []   # same, never fail
        self.samples = []
        self.rule_counts = {}
        self.functions = set()
        self.call_sites = 0
        self.notes = []
        self.assumptions = []
        self.extra = {}

    # -- recording -----------------------------------------------------------------------------
    def analysed(self, body):
        self.functions.add(body["path"] + ("" if not body.get("impl_self") else " <" + body["impl_self"] + ">"))

    def ok(self, rule, instance=None, sample=None):
        self.obligations += 1
        self.discharged += 1
        self.rule_counts[rule] = self.rule_counts.get(rule, 0) + 1
        if sample is not None and len([s for s in self.samples if s.get("rule") == rule]) < 3:
            self.samples.append({"rule": rule, "instance": instance, "detail": sample})

    def fail(self, rule, defpath, instance, where, what):
        """A violated obligation. key = prop/rule/defpath/instance (no line numbers)."""
        self.obligations += 1
        self.rule_counts[rule] = self.rule_counts.get(rule, 0) + 1
        key = "%s/%s/%s/%s" % (self.prop, rule, defpath, instance)
        self.findings.append({"key": key, "rule": rule, "where": where, "what": what})

    def check(self, cond, rule, defpath, instance, where, what, sample=None):
        if cond:
            self.ok(rule, instance, sample)
        else:
            self.fail(rule, defpath, instance, where, what)
        return cond

    def broken(self, rule, defpath, instance, where, what):
        """Fail closed: anchor missing, shape unrecognised, count below floor."""
        self.fail(rule, defpath, "UNRECOGNISED:" + instance, where, what)

    def floor(self, rule, defpath, what, count, floor, where=""):
        self.check(count >= floor, rule, defpath, "floor:" + what, where,
                   "instance count %d of %s is below the floor %d confirmed by hand (rule would pass vacuously)" % (count, what, floor),
                   sample="%s: %d instances (floor %d)" % (what, count, floor))

    def observe(self, rule, where, what):
        self.observations.append({"rule": rule, "where": where, "what": what})

    # -- finishing -----------------------------------------------------------------------------
    def finish(self, level, explanation, meta, proof=None):
        known = load_known()
        kmap = {k["key"]: k for k in known.get("known", []) if k.get("property") == self.prop}
        violations = []
        known_hits = []
        seen = set()
        for f in self.findings:
            if f["key"] in seen:
                continue
            seen.add(f["key"])
            if f["key"] in kmap:
                known_hits.append(f)
            else:
                violations.append(f)
        for f in known_hits:
            print("KNOWN-FINDING: property=%s %s — %s [%s]" % (self.prop, f["key"], f["what"], f["where"]))
        for o in self.observations:
            print("observation: %s %s — %s" % (o["rule"], o["where"], o["what"]))
        evdir = os.environ.get("BSA_EVIDENCE_DIR") or os.path.join(VERIF, "evidence")
        report_path = os.path.join(evdir, self.prop + ".report.json")
        os.makedirs(os.path.dirname(report_path), exist_ok=True)
        with open(report_path, "w") as fh:
            json.dump({"property": self.prop, "tier": self.tier, "violations": violations, "known": known_hits,
                       "observations": self.observations, "input_hash": meta.get("input_hash")}, fh, indent=1)
        for f in violations:
            print("FINDING %s\n    at %s\n    %s" % (f["key"], f["where"], f["what"]))
        cov = {
            "explanation": explanation,
            "obligations": self.obligations,
            "discharged": self.discharged,
            "rule_instances": dict(sorted(self.rule_counts.items())),
            "functions_analysed": sorted(self.functions),
            "n_functions_analysed": len(self.functions),
            "samples": self.samples[:40] or [{"note": "no sample recorded"}],
            "known_findings_reported": [f["key"] for f in known_hits],
            "observations": self.observations[:40],
            "facts": {k: meta.get(k) for k in ("input_hash", "fresh_dump", "counts", "dump_s")},
            "exhaustive": bool(self.extra.get("exhaustive", False)),
        }
        cov.update({k: v for k, v in self.extra.items() if k != "exhaustive"})
        if level == "proof":
            cov["checker_cmd"] = (proof or {}).get("checker_cmd", "./check %s --tier %s" % (self.prop, self.tier))
            cov["trusted_base"] = (proof or {}).get("trusted_base", [])
        ev = {
            "property_id": self.prop,
            "tier": self.tier,
            "seed": self.seed,
            "level": level,
            "coverage": cov,
            "assumptions": self.assumptions,
            "wall_s": round(time.time() - self.t0, 2),
            "violations": len(violations),
        }
        with open(os.path.join(evdir, self.prop + ".json"), "w") as fh:
            json.dump(ev, fh, indent=1)
        print("%s [%s]: %d obligations, %d discharged, %d known finding(s), %d violation(s), %d function(s), %.1fs" % (
            self.prop, self.tier, self.obligations, self.discharged, len(known_hits), len(violations),
            len(self.functions), time.time() - self.t0))
        if violations:
            print("VIOLATION property=%s replay=%s" % (self.prop, report_path))
            return 1
        return 0


def load_known():
    p = os.path.join(VERIF, "known_findings.json")
    if not os.path.exists(p):
        return {"known": [], "fixed": []}
    with open(p) as fh:
        return json.load(fh)
