"""Path-sensitive dataflow over loop-free bodies (builder setters, small guards) in the comparisons-only domain.

Every path of the body is enumerated by re-running the abstract interpreter with a decision prefix (the bodies
analysed here have at most a handful of branches and no loops).  Option-typed places are modelled as a pair
(is-some boolean, payload symbol); `?` on `ok_or(..)` forks.  A path records its condition (list of sympy
literals), the final abstract field state and the returned variant.
"""
import sympy as sp

from . import sym
from .hir import peel, place, pat_binds, callee, pp


class OptVal:
    def __init__(self, some, payload):
        self.some = some          # sympy Boolean
        self.payload = payload    # value when some

    def __repr__(self):
        return "Opt(%s, %s)" % (self.some, self.payload)


class CmpVal:
    """The result of a.partial_cmp(&b) / a.cmp(&b) in the comparisons-only domain (real values: never incomparable)."""
    def __init__(self, a, b, partial):
        self.a, self.b, self.partial = a, b, partial

    def cond(self, which):
        w = frozenset(which)
        a, b = self.a, self.b
        return {frozenset(["Less"]): sp.Lt(a, b), frozenset(["Greater"]): sp.Gt(a, b), frozenset(["Equal"]): sp.Eq(a, b),
                frozenset(["Less", "Equal"]): sp.Le(a, b), frozenset(["Greater", "Equal"]): sp.Ge(a, b), frozenset(["Less", "Greater"]): sp.Ne(a, b)}[w]


def ordering_set(pat):
    """The orderings a pattern over Option<Ordering> / Ordering accepts: subset of {Less, Equal, Greater}; None for a pattern outside the model."""
    k = pat.get("k")
    d = (pat.get("def") or "").split("::")[-1]
    if k == "Wild" or (k == "Bind" and "sub" not in pat):
        return {"Less", "Equal", "Greater"}
    if k == "POr":
        out = set()
        for q in pat["ps"]:
            s_ = ordering_set(q)
            if s_ is None:
                return None
            out |= s_
        return out
    if k == "PTupleStruct" and d == "Some" and len(pat["ps"]) == 1:
        return ordering_set(pat["ps"][0])
    if k == "PPath" and d in ("Less", "Equal", "Greater"):
        return {d}
    if k == "PPath" and d == "None":
        return set()
    return None


class ResVal:
    """Result<T,E> with a known split: ok-condition, ok payload, err payload."""
    def __init__(self, okc, ok, err):
        self.okc, self.ok, self.err = okc, ok, err


class Path:
    def __init__(self, pc, fields, result, interp):
        self.pc = pc
        self.fields = fields
        self.result = result
        self.interp = interp

    def cond(self):
        return sp.And(*self.pc) if self.pc else sp.true


class PathInterp(sym.Interp):
    def __init__(self, F, body, decide):
        sym.Interp.__init__(self, F, body)
        self.decide = decide
        self.alias = {}
        self.if_hook = lambda interp, node, c: self.decide(c)

    def opt_of_place(self, pl):
        v = self.fields.get(pl)
        if isinstance(v, OptVal):
            return v
        if isinstance(v, sym.Variant):
            return self.norm_opt(v)
        o = OptVal(sp.Symbol("some(%s)" % pl), sp.Symbol(pl, real=True))
        self.fields[pl] = o
        return o

    @staticmethod
    def norm_opt(v):
        if isinstance(v, sym.Variant) and v.name == "Some" and len(v.args) == 1:
            return OptVal(sp.true, v.args[0])
        if isinstance(v, sym.Variant) and v.name == "None":
            return OptVal(sp.false, None)
        return v

    def ev_Field(self, n):
        if (n.get("ty") or "").startswith("std::option::Option<"):
            pl = place(n)
            if pl is not None:
                return self.opt_of_place(pl)
        return sym.Interp.ev_Field(self, n)

    def ev_Ref(self, n):
        # `if let Some(x) = &mut self.field` (binding by reference through the default binding mode): like `.as_mut()`
        if n.get("mut") and isinstance(n.get("e"), dict) and peel(n["e"]).get("k") == "Field" and (peel(n["e"]).get("ty") or "").startswith("std::option::Option<"):
            pl = place(peel(n["e"]))
            if pl is not None:
                v = self.opt_of_place(pl)
                v._mut_place = pl
                return v
        return sym.Interp.ev_Ref(self, n)

    def ev_Local(self, n):
        if n["id"] in self.alias:
            return self.opt_of_place(self.alias[n["id"]]).payload
        v = sym.Interp.ev_Local(self, n)
        return v

    def ev_Path(self, n):
        v = sym.Interp.ev_Path(self, n)
        return self.norm_opt(v) if isinstance(v, sym.Variant) else v

    def ev_Call(self, n):
        v = sym.Interp.ev_Call(self, n)
        return self.norm_opt(v) if isinstance(v, sym.Variant) else v

    def ev_MCall(self, n):
        name = n["name"]
        recv_ty = (n["recv"].get("ty") or "")
        if name in ("as_ref", "as_mut", "clone", "take", "as_deref") and "Option<" in recv_ty:
            v = self.ev(n["recv"])
            if isinstance(v, OptVal):
                if name == "take":
                    pl = place(n["recv"])
                    if pl:
                        self.fields[pl] = OptVal(sp.false, None)
                if name == "as_mut":
                    v._mut_place = place(n["recv"])
                return v
        if "Option<" in recv_ty and name in ("filter", "map", "is_some_and", "is_none_or", "map_or", "unwrap_or", "copied", "cloned", "and_then", "or"):
            v = self.ev(n["recv"])
            if isinstance(v, sym.Variant):
                v = self.norm_opt(v)
            if isinstance(v, OptVal):
                if name in ("copied", "cloned"):
                    return v
                def arg_value(a):
                    ap = peel(a)
                    if ap.get("k") == "Path" and ap.get("dk", "").startswith(("Fn", "AssocFn", "Ctor")):
                        return sym.FnVal(ap)
                    return self.ev(a)
                args = [arg_value(a) for a in n["args"]]

                def app(f, x):
                    if isinstance(f, (sym.ClosureVal, sym.FnVal)):
                        return self.apply_closure(f, [x], n)
                    raise sym.Unsupported(n, "Option::%s with a non-closure argument" % name)
                if name == "unwrap_or":
                    return v.payload if self.decide(v.some) else args[0]
                if name == "or":
                    return v if self.decide(v.some) else (self.norm_opt(args[0]) if isinstance(args[0], sym.Variant) else args[0])
                if name == "map_or":
                    return app(args[1], v.payload) if self.decide(v.some) else args[0]
                if not self.decide(v.some):
                    return sp.false if name == "is_some_and" else sp.true if name == "is_none_or" else OptVal(sp.false, None)
                r = app(args[0], v.payload)
                if name in ("is_some_and", "is_none_or"):
                    return r
                if name == "map":
                    return OptVal(sp.true, r)
                if name == "and_then":
                    return self.norm_opt(r) if isinstance(r, sym.Variant) else r
                # filter
                if r is sp.true or (r is not sp.false and self.decide(r)):
                    o = OptVal(sp.true, v.payload)
                    if hasattr(v, "_mut_place"):
                        o._mut_place = v._mut_place
                    return o
                return OptVal(sp.false, None)
        if name in ("partial_cmp", "cmp", "total_cmp") and len(n["args"]) == 1 and ("cmp::PartialOrd" in (n.get("def") or "") or "cmp::Ord" in (n.get("def") or "") or name == "total_cmp"):
            return CmpVal(self.num(self.ev(n["recv"]), n), self.num(self.ev(n["args"][0]), n), name == "partial_cmp")
        if name in ("is_lt", "is_le", "is_gt", "is_ge", "is_eq", "is_ne") and not n["args"]:
            v = self.ev(n["recv"])
            if isinstance(v, sym.Variant) and v.name == "Some" and v.args and isinstance(v.args[0], CmpVal):
                v = v.args[0]
            if isinstance(v, CmpVal):
                return v.cond({"is_lt": ["Less"], "is_le": ["Less", "Equal"], "is_gt": ["Greater"], "is_ge": ["Greater", "Equal"], "is_eq": ["Equal"], "is_ne": ["Less", "Greater"]}[name])
        if name in ("ok_or", "ok_or_else"):
            v = self.ev(n["recv"])
            if isinstance(v, OptVal):
                e_ = self.ev(n["args"][0])
                if name == "ok_or_else" and isinstance(e_, (sym.ClosureVal, sym.FnVal)):
                    e_ = self.apply_closure(e_, [], n)         # the error is built by a closure (possibly one bound to a local: `let missing = || MissingParameters;`)
                return ResVal(v.some, v.payload, e_)
        if name == "map_err":
            v = self.ev(n["recv"])
            if isinstance(v, ResVal):
                return v
        if name == "map" and "result::Result" in (n.get("def") or "") and len(n["args"]) == 1:
            v = self.ev(n["recv"])
            if isinstance(v, ResVal):
                a0 = n["args"][0]
                ap = peel(a0)
                fv = sym.FnVal(ap) if (ap.get("k") == "Path" and ap.get("dk", "").startswith(("Fn", "AssocFn", "Ctor"))) else self.ev(a0)
                if not isinstance(fv, (sym.ClosureVal, sym.FnVal)):
                    raise sym.Unsupported(n, "Result::map with a non-function")
                # the mapped value exists on the Ok side only: decide, then map
                if self.decide(v.okc):
                    return sym.Variant("Ok", [self.apply_closure(fv, [v.ok], n)])
                return sym.Variant("Err", [v.err])
        if name in ("unwrap", "expect"):
            v = self.ev(n["recv"])
            if isinstance(v, (OptVal, ResVal)):
                raise sym.Unsupported(n, "unwrap/expect on a fallible value")
            return v
        if name == "is_some" or name == "is_none":
            v = self.ev(n["recv"])
            if isinstance(v, OptVal):
                return v.some if name == "is_some" else sp.Not(v.some)
        if name in ("is_sign_positive", "is_sign_negative") and not n["args"]:
            x = self.num(self.ev(n["recv"]), n)
            return sp.Ge(x, 0) if name == "is_sign_positive" else sp.Lt(x, 0)
        return sym.Interp.ev_MCall(self, n)

    def bind_refutable(self, pat, val, node=None):
        if isinstance(val, sym.Variant):
            val = self.norm_opt(val)
        k = pat.get("k")
        d = (pat.get("def") or "").split("::")[-1]
        if isinstance(val, OptVal) and d in ("Some", "None"):
            if not self.decide(val.some):
                return d == "None"
            if d == "None":
                return False
            sub = pat["ps"][0] if k == "PTupleStruct" else pat["fields"][0]["pat"]
            return self.bind_refutable(sub, val.payload, node)
        if isinstance(val, ResVal) and d in ("Ok", "Err"):
            sub = pat["ps"][0] if k == "PTupleStruct" else pat["fields"][0]["pat"]
            if self.decide(val.okc):
                return d == "Ok" and self.bind_refutable(sub, val.ok, node)
            return d == "Err" and self.bind_refutable(sub, val.err, node)
        if k == "PStruct" and isinstance(val, sp.Symbol) and d not in ("Some", "None", "Ok", "Err"):
            # `let Self { init_dt: Some(dt), … } = self else { … }`: field by field, Option-typed fields as (is-some, payload)
            for f in pat["fields"]:
                pl = "%s.%s" % (val.name, f["name"])
                sub = f["pat"]
                sd = (sub.get("def") or "").split("::")[-1]
                fv = self.opt_of_place(pl) if sd in ("Some", "None") else self.fields.setdefault(pl, self.sym(pl))
                if not self.bind_refutable(sub, fv, node):
                    return False
            return True
        if k == "PTuple" and isinstance(val, tuple) and len(val) == len(pat["ps"]):
            # left to right, stopping at the first mismatch (as the compiled test does)
            for q, v in zip(pat["ps"], val):
                if not self.bind_refutable(q, v, node):
                    return False
            return True
        return sym.Interp.bind_refutable(self, pat, val, node)

    def ev_Try(self, n):
        v = self.ev(n["e"])
        if isinstance(v, ResVal):
            if self.decide(v.okc):
                return v.ok
            raise sym.Return(sym.Variant("Err", [v.err]))
        if isinstance(v, OptVal):
            if self.decide(v.some):
                return v.payload
            raise sym.Return(OptVal(sp.false, None))
        # (not re-evaluating the operand: a second evaluation would repeat its user calls)
        if isinstance(v, sym.Variant) and v.name in ("Ok", "Some") and len(v.args) == 1:
            return v.args[0]
        if isinstance(v, sym.Variant) and v.name in ("Err", "None"):
            raise sym.Return(v)
        return v

    def ev_Let(self, n):
        v = self.ev(n["init"])
        pat = n["pat"]
        d = pat.get("def", "")
        if isinstance(v, OptVal) and (d.endswith("Some") or d.endswith("None")):
            want_some = d.endswith("Some")
            if self.decide(v.some):
                if want_some:
                    sub = pat["ps"][0] if pat.get("k") == "PTupleStruct" else pat["fields"][0]["pat"]
                    mp = getattr(v, "_mut_place", None)
                    binds = pat_binds(sub)
                    if mp is not None and len(binds) == 1:
                        self.alias[binds[0][0]] = mp
                        self.names[binds[0][0]] = binds[0][1]
                    else:
                        self.bind(sub, v.payload, n)
                return sp.true if want_some else sp.false
            return sp.false if want_some else sp.true
        if isinstance(v, sym.CondOpt):
            v = self.force_opt(v, n)           # `cond.then_some(x)`: decided like an `if`
        if isinstance(v, (sym.Variant, ResVal)):
            return sp.true if self.bind_refutable(pat, v, n) else sp.false
        raise sym.Unsupported(n, "let-pattern on %r" % (v,))

    def ev_Match(self, n):
        v = self.ev(n["e"])
        if isinstance(v, sym.Variant):
            v = self.norm_opt(v)
        if isinstance(v, OptVal):
            # arms in source order, with guards; the is-some question is decided at most once per evaluation
            is_some = [None]

            def some():
                if is_some[0] is None:
                    is_some[0] = self.decide(v.some)
                return is_some[0]
            for a in n["arms"]:
                pat = a["pat"]
                d = pat.get("def", "")
                if d.endswith("Some"):
                    if not some():
                        continue
                    sub = pat["ps"][0] if pat.get("k") == "PTupleStruct" else pat["fields"][0]["pat"]
                    mp = getattr(v, "_mut_place", None)
                    binds = pat_binds(sub)
                    if mp is not None and len(binds) == 1:
                        self.alias[binds[0][0]] = mp
                        self.names[binds[0][0]] = binds[0][1]
                    else:
                        self.bind(sub, v.payload, n)
                elif d.endswith("None"):
                    if some():
                        continue
                elif pat.get("k") == "Wild" or (pat.get("k") == "Bind" and not pat.get("sub")):
                    if pat.get("k") == "Bind":
                        self.bind(pat, v, n)
                else:
                    raise sym.Unsupported(n, "match arm pattern on an Option")
                if "guard" in a:
                    g = self.ev(a["guard"])
                    if not (g is sp.true or (g is not sp.false and self.decide(g))):
                        continue
                return self.ev(a["body"])
            raise sym.Unsupported(n, "match on Option without a matching arm")
        if isinstance(v, ResVal) and len(n["arms"]) >= 1 and all(a.get("guard") is None for a in n["arms"]):
            # match on a Result with a known split: the Ok/Err question is decided once, the arm's pattern binds the payload
            is_ok = self.decide(v.okc)
            for a in n["arms"]:
                pat = a["pat"]
                d = (pat.get("def") or "").split("::")[-1]
                if pat.get("k") == "PTupleStruct" and d in ("Ok", "Err") and len(pat.get("ps", [])) == 1:
                    if (d == "Ok") != is_ok:
                        continue
                    self.bind(pat["ps"][0], v.ok if is_ok else v.err, n)
                    return self.ev(a["body"])
                if pat.get("k") == "Wild":
                    return self.ev(a["body"])
                raise sym.Unsupported(n, "match arm pattern on a Result")
            raise sym.Unsupported(n, "match on a Result without a matching arm")
        if self.is_boolish(v):
            # match on a condition / a tuple of conditions with `true` / `false` / `_` patterns: arms in order, each component decided at most once
            comps = list(v) if isinstance(v, tuple) else [v]
            known = {}

            def truth(i):
                if i not in known:
                    c = comps[i]
                    known[i] = True if c is sp.true or c is True else False if c is sp.false or c is False else self.decide(c)
                return known[i]

            def arm_matches(pat):
                ps = pat["ps"] if (isinstance(v, tuple) and pat.get("k") == "PTuple") else ([pat] if not isinstance(v, tuple) else None)
                if pat.get("k") == "Wild" or (pat.get("k") == "Bind" and "sub" not in pat):
                    return True
                if ps is None or len(ps) != len(comps):
                    raise sym.Unsupported(n, "match arm pattern on conditions")
                for i, q in enumerate(ps):
                    if q.get("k") == "Wild":
                        continue
                    if q.get("k") == "PLit" and q.get("lit") == "bool":
                        if truth(i) != (q.get("v") == "true"):
                            return False
                        continue
                    raise sym.Unsupported(n, "match arm pattern on conditions")
                return True
            for a in n["arms"]:
                if not arm_matches(a["pat"]):
                    continue
                if "guard" in a:
                    g = self.ev(a["guard"])
                    if not (g is sp.true or (g is not sp.false and self.decide(g))):
                        continue
                return self.ev(a["body"])
            raise sym.Unsupported(n, "match on conditions without a matching arm")
        if isinstance(v, CmpVal):
            rest = {"Less", "Equal", "Greater"}
            for a in n["arms"]:
                S_ = ordering_set(a["pat"])
                if S_ is None or "guard" in a:
                    raise sym.Unsupported(n, "match arm on an Ordering outside the model")
                S_ = S_ & rest
                if not S_:
                    continue
                if S_ == rest or self.decide(v.cond(S_)):
                    if a["pat"].get("k") == "Bind":
                        self.bind(a["pat"], v, n)
                    return self.ev(a["body"])
                rest = rest - S_
            raise sym.Unsupported(n, "match on an Ordering without a matching arm")
        raise sym.Unsupported(n, "match on %r" % (v,))

    @staticmethod
    def is_boolish(v):
        def b(x):
            return x is True or x is False or isinstance(x, (sp.logic.boolalg.Boolean, sp.core.relational.Relational))
        return b(v) or (isinstance(v, tuple) and len(v) > 0 and all(b(x) for x in v))

    def ev_If(self, n):
        c = self.ev(n["c"])
        if c is sp.true or c is True:
            dec = True
        elif c is sp.false or c is False:
            dec = False
        else:
            dec = self.decide(c)
        if dec:
            return self.ev(n["t"])
        if "e" in n:
            return self.ev(n["e"])
        return None

    def assign(self, lhs, val, node):
        l = peel(lhs)
        if l.get("k") == "Local" and l["id"] in self.alias:
            pl = self.alias[l["id"]]
            self.fields[pl] = OptVal(sp.true, val)
            self.trace.append(("field", pl, val, node))
            return
        if l.get("k") == "Field" and (l.get("ty") or "").startswith("std::option::Option<"):
            pl = place(l)
            self.fields[pl] = self.norm_opt(val) if isinstance(val, sym.Variant) else val
            self.trace.append(("field", pl, val, node))
            return
        return sym.Interp.assign(self, lhs, val, node)


def explore(F, body, setup=None, limit=64, node=None, stop_at=None, interp_cls=None):
    """All paths of a loop-free body (or of `node` inside it; or of the statements of the body's top block that
    precede `stop_at`). Returns list of Path; raises sym.Unsupported if outside the domain."""
    out = []
    stack = [[]]
    while stack:
        prefix = stack.pop()
        decisions = list(prefix)
        pos = [0]
        pc = []

        def decide(c):
            if c is sp.true:
                return True
            if c is sp.false:
                return False
            # the same condition over the same values was already decided on this path (a test repeated, or a named boolean used twice)
            if c in pc:
                return True
            if sp.Not(c) in pc:
                return False
            if pos[0] < len(decisions):
                d = decisions[pos[0]]
            else:
                d = True
                stack.append(decisions[:pos[0]] + [False])
                decisions.append(True)
            pos[0] += 1
            pc.append(c if d else sp.Not(c))
            return d
        it = (interp_cls or PathInterp)(F, body, decide)
        if setup:
            setup(it)
        fell_through = True
        try:
            if stop_at is not None:
                res = None
                for st in body["body"]["stmts"]:
                    e = st.get("e") if st.get("k") in ("ExprS", "Semi") else None
                    if st is stop_at or e is stop_at:
                        break
                    it.run_stmt(st)
            else:
                res = it.ev(node if node is not None else body["body"])
        except sym.Return as r:
            res = r.value
            fell_through = False
        except (sym.Break, sym.Continue) as bc:
            res = bc
            fell_through = False
        if isinstance(res, sym.Variant):
            res = PathInterp.norm_opt(res)
        pth = Path(pc, dict(it.fields), res, it)
        pth.fell_through = fell_through
        out.append(pth)
        if len(out) > limit:
            raise sym.Unsupported(body["body"], "more than %d paths" % limit)
    return out
