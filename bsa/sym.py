"""Abstract interpretation of typed HIR into exact symbolic values (sympy): the Q-fold and lin-form domains.

Values are sympy expressions over named symbols; applications of *uninterpreted* user functions are
sympy `Function` atoms whose arguments are themselves in normal form, so equality is equality of normal
forms (decided by `is_zero(a - b)` through expansion/cancellation).  Nothing of bacon is executed: the
interpreter only rewrites source expressions into algebra and refuses (Unsupported) what it does not know.
"""
import sympy as sp
from sympy import Rational, Symbol, Function

from .hir import peel, place, pp, callee, pat_binds, walk


def S(name):
    """The symbol the interpreter uses for a parameter / field of that name."""
    return Symbol(name, real=True)


class Unsupported(Exception):
    def __init__(self, node, why):
        self.node = node
        self.why = why
        Exception.__init__(self, "%s: %s" % (why, pp(node)[:200] if isinstance(node, dict) else node))


class Return(Exception):
    def __init__(self, value):
        self.value = value


class Break(Exception):
    def __init__(self, target, value=None):
        self.target = target
        self.value = value


class Continue(Exception):
    def __init__(self, target):
        self.target = target


class Opaque:
    """A value the domain does not model (carried around, error when used arithmetically)."""
    def __init__(self, what, node=None):
        self.what = what
        self.node = node

    def __repr__(self):
        return "Opaque(%s)" % self.what


class ElemRef:
    """A mutable reference to one element of a container the domain holds concretely (a Python list, a sympy Matrix with a tuple index):
    what `iter_mut()`, `get_mut()`, `column_mut(c).iter_mut()` hand out."""
    def __init__(self, lst, idx):
        self.lst, self.idx = lst, idx

    def get(self):
        return self.lst[self.idx]

    def set(self, v):
        self.lst[self.idx] = v


class PlaceRef:
    """`let r = &mut v[i];` — a mutable reference to an element: reads and writes through `*r` are redirected to the place expression it was
    taken of (evaluated in the same function; the index must not have changed in between)."""
    def __init__(self, node, idx):
        self.node, self.idx = node, idx

    def __repr__(self):
        return "PlaceRef(%s)" % pp(self.node)


class CondOpt:
    """`cond.then(|| v)` with a symbolic condition: Some(v) exactly when cond holds; v is computed only when the condition is decided true."""
    def __init__(self, cond, thunk):
        self.cond, self.thunk = cond, thunk

    def __repr__(self):
        return "CondOpt(%s)" % (self.cond,)


class FnVal:
    """A function passed by path where a closure is expected (`.map(N::from_real)`, `.unwrap_or_else(N::zero)`)."""
    def __init__(self, node):
        self.node = node

    def __repr__(self):
        return "FnVal(%s)" % self.node.get("def")


class UserCallable:
    """The user's function (a closure-typed parameter, possibly re-borrowed into a local) passed on as a value: `xs.map(f)`."""
    def __init__(self, place):
        self.place = place


class ClosureVal:
    def __init__(self, node, env):
        self.node = node
        self.env = env


class Variant:
    """Enum-like constructor value: Ok(x), Err(x), Some(x), None, or a unit variant path."""
    def __init__(self, name, args=()):
        self.name = name
        self.args = tuple(args)

    def __repr__(self):
        return "%s(%s)" % (self.name, ", ".join(map(repr, self.args)))

    def __eq__(self, o):
        return isinstance(o, Variant) and o.name == self.name and o.args == self.args

    def __hash__(self):
        return hash((self.name, self.args))


FROM_PRIM = {"from_f64", "from_f32", "from_u8", "from_u16", "from_u32", "from_u64", "from_usize", "from_i8",
             "from_i16", "from_i32", "from_i64", "from_isize", "from_u128", "from_i128"}
TRANSPARENT_METHODS = {"unwrap", "expect", "ok_or", "ok_or_else", "map_err", "clone", "to_owned", "into", "real",
                       "borrow", "as_ref", "copied", "cloned", "clone_owned", "into_owned", "to_real", "unwrap_unchecked"}
TRANSPARENT_CALLS = {"from_real", "from_subset", "convert", "from", "to_subset_unchecked", "new_unchecked", "from_column_slice", "from_row_slice"}
MATH_METHODS = {
    "abs": sp.Abs, "modulus": sp.Abs, "sqrt": sp.sqrt, "exp": sp.exp, "ln": sp.log, "sin": sp.sin, "cos": sp.cos,
    "tan": sp.tan, "tanh": sp.tanh, "sinh": sp.sinh, "cosh": sp.cosh, "recip": lambda x: 1 / x,
    "conjugate": sp.conjugate, "imaginary": sp.im, "signum": sp.sign, "ceil": sp.ceiling, "floor": sp.floor,
}
CONSTS = {"PI": sp.pi, "FRAC_PI_2": sp.pi / 2, "FRAC_1_SQRT_2": 1 / sp.sqrt(2), "E": sp.E, "SQRT_2": sp.sqrt(2),
          "FRAC_PI_4": sp.pi / 4, "TAU": 2 * sp.pi}


F32_EXACT = True     # switch: model values squeezed through f32 exactly (off where only the structure of a start guess matters)


def round_to_f32(q):
    """The IEEE single nearest (ties to even) to the rational q (normal range); single precision is 2^-24 relative — far outside any
    "up to rounding in double" allowance, so values squeezed through f32 are modelled exactly."""
    q = sp.Rational(q)
    if q == 0 or not F32_EXACT:
        return q
    sgn = -1 if q < 0 else 1
    a = abs(q)
    import math
    e = math.floor(math.log2(float(a))) - 23
    # make sure 2^23 <= a / 2^e < 2^24
    while a / sp.Integer(2) ** e >= 2 ** 24:
        e += 1
    while a / sp.Integer(2) ** e < 2 ** 23:
        e -= 1
    m = a / sp.Integer(2) ** e
    fl = sp.floor(m)
    r = m - fl
    if r > sp.Rational(1, 2) or (r == sp.Rational(1, 2) and fl % 2 == 1):
        fl += 1
    return sgn * fl * sp.Integer(2) ** e


def peel_ref_mut(a):
    """The place expression of an argument written `&mut place` (None for anything else)."""
    x = a
    while isinstance(x, dict) and x.get("k") in ("Paren", "DropTemps", "Use"):
        x = x.get("e")
    if isinstance(x, dict) and x.get("k") in ("Ref", "AddrOf") and ("mut" in str(x.get("mut", "")).lower() or x.get("mut") is True or x.get("m") == "Mut"):
        return x["e"]
    return None


def lit_value(n, decimal=True):
    if n["lit"] == "int":
        return sp.Integer(int(n["v"]))
    if n["lit"] == "float":
        txt = n["v"].replace("_", "")
        for suf in ("f64", "f32"):
            if txt.endswith(suf):
                txt = txt[:-3]
        return Rational(txt) if decimal else Rational(float(txt))
    if n["lit"] == "bool":
        return sp.true if n["v"] == "true" else sp.false
    return Opaque("lit:" + n["lit"], n)


def is_zero(e):
    """Exact zero test of a rational expression in symbols and uninterpreted atoms."""
    if e == 0:
        return True
    try:
        e2 = sp.cancel(sp.together(sp.expand(e)))
    except Exception:
        e2 = sp.simplify(e)
    if e2 == 0:
        return True
    n, _ = sp.fraction(e2)
    return sp.expand(n) == 0


def eq(a, b):
    return is_zero(sp.sympify(a) - sp.sympify(b))


class Interp:
    """Evaluate expressions / straight-line blocks of one body.

    env: local id -> value.  fields: place string ('self.dt') -> value (defaults to a Symbol of that name).
    user_fns: place strings treated as uninterpreted functions (closure-typed params/fields).
    """

    def __init__(self, F, body, decimal=True):
        self.F = F
        self.body = body
        self.env = {}
        self.names = {}
        self.fields = {}
        self.decimal = decimal
        self.call_hooks = {}     # def-path -> fn(interp, node, argvals)
        self.lazy_hooks = {}     # def-path -> fn(interp, node)  (arguments not evaluated)
        self.method_hooks = {}   # method name -> fn(interp, node, recvval, argvals)
        self.if_hook = None      # fn(interp, node, condvalue) -> True/False/None
        self.local_fns = {}      # other crate-local functions to inline: def-path -> body
        self.fn_atoms = {}       # place -> Function
        self.trace = []          # (kind, place, value, node) for writes
        self.unroll_limit = 64
        self.symbol_assumptions = {}
        self.root_alias = {}     # local name -> name it aliases (e.g. closure param `bdf` -> `self`)
        self.bind_params()

    # -- environment ----------------------------------------------------------------------------
    def sym(self, name):
        kw = self.symbol_assumptions.get(name, {"real": True})
        return Symbol(name, **kw)

    def bind_params(self):
        for p in self.body["params"]:
            for (i, nm) in pat_binds(p):
                self.env[i] = self.sym(nm)
                self.names[i] = nm

    def set_local(self, name, value):
        hit = False
        for i, nm in self.names.items():
            if nm == name:
                self.env[i] = value
                hit = True
        if not hit:
            raise KeyError(name)

    def bind(self, pat, val, node=None):
        k = pat.get("k")
        if k == "Bind":
            self.env[pat["id"]] = val
            self.names[pat["id"]] = pat["name"]
            if "sub" in pat:
                self.bind(pat["sub"], val, node)
        elif k == "Wild":
            pass
        elif k == "PTuple":
            if isinstance(val, sp.Symbol) and "dd" not in pat:
                # destructuring an abstract tuple (a parameter): its components are the field symbols `name.0`, `name.1`, … (as ev_Field names them)
                val = tuple(self.fields.setdefault("%s.%d" % (val.name, i), self.sym("%s.%d" % (val.name, i))) for i in range(len(pat["ps"])))
            if not isinstance(val, tuple) or len(val) != len(pat["ps"]):
                raise Unsupported(node or pat, "tuple pattern against non-tuple value %r" % (val,))
            for q, v in zip(pat["ps"], val):
                self.bind(q, v, node)
        elif k in ("PRef", "PDeref"):
            self.bind(pat["p"], val, node)
        elif k == "PSlice" and "mid" not in pat and isinstance(val, (list, tuple)) and len(val) == len(pat.get("before") or []) + len(pat.get("after") or []):
            for q, v in zip(list(pat.get("before") or []) + list(pat.get("after") or []), val):
                self.bind(q, v, node)
        elif k == "PStruct" and isinstance(val, dict):
            for f in pat["fields"]:
                if f["name"] not in val:
                    raise Unsupported(node or pat, "no field %s to destructure" % f["name"])
                self.bind(f["pat"], val[f["name"]], node)
        elif k == "PStruct" and isinstance(val, sp.Symbol) and not (pat.get("def") or "").endswith(("::Some", "::Ok", "::Err")):
            # destructuring an abstract struct (a parameter): its fields are the symbols `name.field` (as ev_Field names them)
            for f in pat["fields"]:
                pl = "%s.%s" % (val.name, f["name"])
                self.bind(f["pat"], self.fields.setdefault(pl, self.sym(pl)), node)
        elif k in ("PTupleStruct",) and len(pat["ps"]) == 1 and isinstance(val, Variant) and len(val.args) == 1:
            self.bind(pat["ps"][0], val.args[0], node)
        elif k == "PStruct" and len(pat["fields"]) == 1 and isinstance(val, Variant) and len(val.args) == 1:
            self.bind(pat["fields"][0]["pat"], val.args[0], node)
        else:
            raise Unsupported(node or pat, "pattern kind %s" % k)

    def bind_refutable(self, pat, val, node=None):
        """`let PAT = val else { .. }`: bind along the matching path (like `?`, the domain follows the success path of a symbolic Option/Result);
        returns False when the value is known not to match."""
        k = pat.get("k")
        if k == "PTuple" and isinstance(val, tuple) and len(val) == len(pat["ps"]):
            return all([self.bind_refutable(q, v, node) for q, v in zip(pat["ps"], val)])
        if k in ("PRef", "PDeref"):
            return self.bind_refutable(pat["p"], val, node)
        d = (pat.get("def") or "").split("::")[-1]
        if k in ("PTupleStruct", "PStruct") and d in ("Some", "Ok", "Err"):
            subs = pat["ps"] if k == "PTupleStruct" else [f["pat"] for f in pat["fields"]]
            if isinstance(val, Variant):
                if val.name != d or len(val.args) != len(subs):
                    return False
                return all([self.bind_refutable(q, v, node) for q, v in zip(subs, val.args)])
            if d in ("Some", "Ok") and len(subs) == 1 and not isinstance(val, (tuple, list, dict)):
                return self.bind_refutable(subs[0], val, node)
            raise Unsupported(node or pat, "refutable pattern %s against %r" % (d, val))
        if k == "Path" or (k == "PPath"):
            if isinstance(val, Variant):
                return val.name == d
            raise Unsupported(node or pat, "refutable pattern %s against %r" % (d, val))
        self.bind(pat, val, node)
        return True

    def fn_atom(self, name):
        if name not in self.fn_atoms:
            self.fn_atoms[name] = Function(name)
        return self.fn_atoms[name]

    # -- expressions ----------------------------------------------------------------------------
    def ev(self, n):
        k = n.get("k")
        m = getattr(self, "ev_" + k, None)
        if m is None:
            raise Unsupported(n, "expression kind %s" % k)
        return m(n)

    def ev_Lit(self, n):
        return lit_value(n, self.decimal)

    def ev_Local(self, n):
        if n["id"] in self.env:
            v = self.env[n["id"]]
            if isinstance(v, PlaceRef):
                return self.ev(self.place_of_ref(v, n))      # reading through a `&mut place` binding: the place's current value
            return v
        raise Unsupported(n, "unbound local %s" % n["name"])

    def ev_Path(self, n):
        d = n.get("ctor_of") or n["def"]
        last = d.split("::")[-1]
        if n.get("dk", "").startswith("Ctor") or n.get("dk") in ("Variant",):
            return Variant(last)
        if last in CONSTS and ("consts" in d):
            return CONSTS[last]
        if n.get("dk", "").startswith("Const") or n.get("dk", "").startswith("AssocConst"):
            for b in self.F.by_path.get(d, []):
                if "bits" in b and b.get("ty") == "f64":
                    import struct
                    return Rational(struct.unpack("<d", struct.pack("<Q", int(b["bits"])))[0])
                if "bits" in b:
                    return sp.Integer(int(b["bits"]))
        if n.get("dk") == "ConstParam":
            return self.sym(last)
        return Opaque("path:" + d, n)

    def ev_Ref(self, n):
        return self.ev(n["e"])

    def ev_Cast(self, n):
        v = self.ev(n["e"])
        if n.get("ty") == "f32" and getattr(v, "is_Rational", False):
            return round_to_f32(v)
        return v

    def ev_Try(self, n):
        v = self.ev(n["e"])
        if isinstance(v, Variant) and v.name in ("Ok", "Some") and len(v.args) == 1:
            return v.args[0]
        if isinstance(v, Variant) and v.name in ("Err", "None"):
            raise Return(v)      # `?` on a known failure leaves the function with it
        return v

    def ev_Tup(self, n):
        return tuple(self.ev(x) for x in n["es"])

    def ev_Array(self, n):
        return [self.ev(x) for x in n["es"]]

    def place_of_ref(self, r, n):
        if r.idx is not None and self.ev(peel(r.node)["i"]) != r.idx:
            raise Unsupported(n, "the index of a borrowed element changed while the reference was alive")
        return r.node

    def ev_Un(self, n):
        v = self.ev(n["e"])
        if isinstance(v, PlaceRef):
            v = self.ev(self.place_of_ref(v, n))
        if isinstance(v, ElemRef):
            v = v.get()
        if n["op"] == "Deref":
            return v
        if n["op"] == "Neg":
            return -self.num(v, n)
        if n["op"] == "Not":
            return sp.Not(v)
        raise Unsupported(n, "unary op")

    def num(self, v, n):
        if isinstance(v, ElemRef):
            v = v.get()
        if isinstance(v, (Opaque, ClosureVal, tuple, list, Variant)) or v is None:
            raise Unsupported(n, "non-numeric value %r in arithmetic" % (v,))
        return v

    def ev_Bin(self, n):
        op = n["op"]
        if op in ("And", "Or"):
            a = self.ev(n["l"])
            # `&&` / `||` short-circuit: the right operand (which may have effects: a fallback solve) is not evaluated when the left decides
            if op == "And" and (a is sp.false or a is False):
                return sp.false
            if op == "Or" and (a is sp.true or a is True):
                return sp.true
            b = self.ev(n["r"])
            return sp.And(a, b) if op == "And" else sp.Or(a, b)
        a = self.num(self.ev(n["l"]), n["l"])
        b = self.num(self.ev(n["r"]), n["r"])
        return self.binop(op, a, b, n)

    def binop(self, op, a, b, n):
        if op == "Add":
            return a + b
        if op == "Sub":
            return a - b
        if op == "Mul":
            return a * b
        if op == "Div":
            if n is not None and n.get("ty") in ("usize", "u8", "u16", "u32", "u64", "i32", "i64", "isize", "i8", "i16"):
                if getattr(a, "is_Integer", False) and getattr(b, "is_Integer", False):
                    return sp.Integer(int(a) // int(b))
                return sp.floor(a / b)
            return a / b
        if op == "Rem":
            return sp.Mod(a, b)
        if op in ("Lt", "Le", "Gt", "Ge", "Eq", "Ne"):
            f = {"Lt": sp.Lt, "Le": sp.Le, "Gt": sp.Gt, "Ge": sp.Ge, "Eq": sp.Eq, "Ne": sp.Ne}[op]
            return f(a, b)
        raise Unsupported(n, "binary op %s" % op)

    def norm_place(self, pl):
        if pl is None:
            return None
        root, _, rest = pl.partition(".")
        if root in self.root_alias:
            return self.root_alias[root] + ("." + rest if rest else "")
        return pl

    def ev_Field(self, n):
        base = peel(n["e"])
        pl = self.norm_place(place(n))
        if pl is not None and pl in self.fields:
            return self.fields[pl]
        if base.get("k") != "Local" or base["id"] not in self.env or isinstance(self.env.get(base["id"]), sp.Symbol):
            if pl is not None and base.get("k") in ("Local", "Field"):
                # field of an abstract struct (self.dt): a named symbol
                root = (place(n) or pl).split(".")[0]
                rootv = None
                for i, nm in self.names.items():
                    if nm == root:
                        rootv = self.env.get(i)
                if rootv is None or isinstance(rootv, sp.Symbol):
                    return self.fields.setdefault(pl, self.sym(pl))
        v = self.ev(n["e"])
        if isinstance(v, tuple) and n["name"].isdigit():
            return v[int(n["name"])]
        if isinstance(v, dict) and n["name"] in v:
            return v[n["name"]]
        raise Unsupported(n, "field .%s of %r" % (n["name"], v))

    def ev_Index(self, n):
        base = self.ev(n["e"])
        ixp = peel(n["i"])
        if isinstance(base, (list, tuple)) and ixp.get("k") == "Struct" and "ops::Range" in (ixp.get("def") or ""):
            # `xs[..k]`, `xs[a..b]`, `xs[a..]`, `xs[..]` of a concrete sequence
            f_ = {x["name"]: self.ev(x["e"]) for x in ixp.get("fields", [])}
            lo, hi = f_.get("start", sp.Integer(0)), f_.get("end", sp.Integer(len(base)))
            if getattr(lo, "is_Integer", False) and getattr(hi, "is_Integer", False) and 0 <= int(lo) <= int(hi) <= len(base):
                return list(base[int(lo):int(hi)])
            raise Unsupported(n, "slice %s..%s of a sequence of length %d" % (lo, hi, len(base)))
        idx = self.ev(n["i"])
        if isinstance(base, (list, tuple)) and getattr(idx, "is_Integer", False):
            return base[int(idx)]
        if isinstance(base, sp.IndexedBase):
            if isinstance(idx, tuple):
                return base[idx]
            return base[idx]
        if isinstance(base, sp.Symbol):
            ib = sp.IndexedBase(base.name)
            return ib[idx] if not isinstance(idx, tuple) else ib[idx]
        raise Unsupported(n, "index into %r" % (base,))

    def ev_Block(self, n):
        return self.run_block(n)

    def ev_Closure(self, n):
        return ClosureVal(n, None)

    def ev_Struct(self, n):
        d = {f["name"]: self.ev(f["e"]) for f in n["fields"]}
        d["__struct__"] = n["def"]
        return d

    def ev_If(self, n):
        c = self.ev(n["c"])
        dec = None
        if c is sp.true or c is True:
            dec = True
        elif c is sp.false or c is False:
            dec = False
        elif self.if_hook is not None:
            dec = self.if_hook(self, n, c)
        if dec is None:
            raise Unsupported(n, "undecided branch on %s" % (c,))
        if dec:
            return self.ev(n["t"])
        if "e" in n:
            return self.ev(n["e"])
        return None

    def ev_Ret(self, n):
        raise Return(self.ev(n["e"]) if "e" in n else None)

    def ev_Break(self, n):
        raise Break(n.get("target"), self.ev(n["e"]) if "e" in n else None)

    def ev_Continue(self, n):
        raise Continue(n.get("target"))

    def ev_Assign(self, n):
        self.assign(self.through_ref(n["l"]), self.ev(n["r"]), n)
        return None

    def through_ref(self, lhs):
        """`*r = …` with r a PlaceRef: the place it refers to."""
        l = lhs
        while isinstance(l, dict) and l.get("k") in ("Paren", "DropTemps", "Use"):
            l = l.get("e")
        if isinstance(l, dict) and l.get("k") == "Un" and l.get("op") == "Deref":      # (hir.peel would strip the `*`)
            inner = peel(l["e"])
            if inner.get("k") == "Local" and isinstance(self.env.get(inner["id"]), PlaceRef):
                return self.place_of_ref(self.env[inner["id"]], lhs)
        return lhs

    def ev_AssignOp(self, n):
        if self.through_ref(n["l"]) is not n["l"]:
            n = dict(n, l=self.through_ref(n["l"]))
            return self.ev_AssignOp(n)
        cur = self.num(self.ev(n["l"]), n["l"])
        rhs = self.num(self.ev(n["r"]), n["r"])
        op = n["op"].replace("Assign", "")
        self.assign(n["l"], self.binop(op, cur, rhs, None), n)
        return None

    def assign(self, lhs, val, node):
        l = peel(lhs)
        if l.get("k") == "Local" and isinstance(self.env.get(l["id"]), ElemRef):
            raw = lhs
            while isinstance(raw, dict) and raw.get("k") in ("Paren", "DropTemps", "Use"):
                raw = raw.get("e")
            if isinstance(raw, dict) and raw.get("k") == "Un" and raw.get("op") == "Deref":
                self.env[l["id"]].set(val)          # `*entry = value` through an element reference
                return
        if l.get("k") == "Local":
            self.env[l["id"]] = val
            self.trace.append(("local", l["name"], val, node))
            return
        if l.get("k") == "Field":
            pl = self.norm_place(place(l))
            if pl is None:
                raise Unsupported(node, "assignment to non-place")
            self.fields[pl] = val
            self.trace.append(("field", pl, val, node))
            return
        if l.get("k") == "Index":
            base = self.ev(l["e"])
            idx = self.ev(l["i"])
            if isinstance(base, list) and getattr(idx, "is_Integer", False):
                base[int(idx)] = val
                return
        raise Unsupported(node, "assignment target")

    def ev_Call(self, n):
        f = n["f"]
        if "ovl" in n:  # call of a closure-typed value
            fp = peel(f)
            if fp.get("k") == "Local" and isinstance(self.env.get(fp["id"]), ClosureVal):
                return self.apply_closure(self.env[fp["id"]], [self.ev(a) for a in n["args"]], n)
            if fp.get("k") == "Local":
                # a local closure (`let midpoint = |lo, hi| …;`) whose `let` this evaluation did not run (a loop body explored on its own):
                # apply its definition — its captures are read from the current environment, as a by-reference capture would
                cdef = self.closure_def(fp["id"])
                if cdef is not None:
                    return self.apply_closure(ClosureVal(cdef, None), [self.ev(a) for a in n["args"]], n)
            pl = self.norm_place(place(f))
            if pl is None:
                raise Unsupported(n, "call of a non-place callable")
            args = [self.ev(a) for a in n["args"]]
            return self.user_call(pl, args, n)
        d = callee(n)
        if d is None:
            fp = peel(f)
            if fp.get("k") in ("Local", "Field") and (fp.get("ty") or "").lstrip("&mut ").startswith(("fn(", "for<", "unsafe fn(", "impl Fn", "dyn Fn")):
                pl = self.norm_place(place(f))
                return self.user_call(pl, [self.ev(a) for a in n["args"]], n)
            raise Unsupported(n, "unresolved callee")
        last = d.split("::")[-1]
        if last == "box_assume_init_into_vec_unsafe":
            inner = peel(n["args"][0])
            if inner.get("k") == "Call" and len(inner["args"]) == 2 and peel(inner["args"][1]).get("k") == "Array":
                return [self.ev(x) for x in peel(inner["args"][1])["es"]]
            raise Unsupported(n, "vec! shape")
        if d in self.lazy_hooks:
            return self.lazy_hooks[d](self, n)
        if d in ("std::fmt::format", "alloc::fmt::format", "std::fmt::Arguments::<'a>::new_v1", "core::fmt::Arguments::<'a>::new_v1") or n.get("mac") in ("format", "format_args"):
            return Opaque("formatted string")
        if d in ("std::hint::must_use", "core::hint::must_use") and len(n["args"]) == 1:
            inner = n["args"][0]
            if any(x.get("k") == "Call" and ((callee(x) or "").startswith(("std::fmt::", "alloc::fmt::", "core::fmt::"))) for x in walk(inner)):
                return Opaque("formatted string")
            return self.ev(inner)
        if d in ("std::mem::replace", "core::mem::replace", "std::mem::take", "core::mem::take", "std::mem::swap", "core::mem::swap") and n["args"]:
            # mem::replace(&mut place, v) / mem::take(&mut place) / mem::swap(&mut a, &mut b): reads and writes of the places
            tgt = peel_ref_mut(n["args"][0])
            if tgt is None:
                raise Unsupported(n, "%s on something that is not `&mut place`" % d)
            old_ = self.ev(tgt)
            if d.endswith("replace"):
                self.assign(self.through_ref(tgt), self.ev(n["args"][1]), n)
                return old_
            if d.endswith("take"):
                self.assign(self.through_ref(tgt), [] if isinstance(old_, list) else sp.Integer(0), n)
                return old_
            other = peel_ref_mut(n["args"][1])
            if other is None:
                raise Unsupported(n, "%s on something that is not `&mut place`" % d)
            vb = self.ev(other)
            self.assign(self.through_ref(tgt), vb, n)
            self.assign(self.through_ref(other), old_, n)
            return None
        if d in self.call_hooks:
            return self.call_hooks[d](self, n, [self.ev(a) for a in n["args"]])
        if last in self.call_hooks:
            return self.call_hooks[last](self, n, [self.ev(a) for a in n["args"]])
        if f.get("dk", "").startswith("Ctor"):
            return Variant(last, [self.ev(a) for a in n["args"]])
        if last in FROM_PRIM and "FromPrimitive" in d or last in FROM_PRIM and "num_traits" in d:
            v0 = self.ev(n["args"][0])
            if last == "from_f32" and getattr(v0, "is_Rational", False):
                return round_to_f32(v0)
            return v0
        if last in TRANSPARENT_CALLS and len(n["args"]) == 1:
            return self.ev(n["args"][0])
        if (d.endswith("Complex::<T>::new") or d.endswith("Complex::new")) and len(n["args"]) == 2:
            re_, im_ = self.num(self.ev(n["args"][0]), n), self.num(self.ev(n["args"][1]), n)
            return re_ if im_ == 0 else re_ + sp.I * im_
        if d.endswith("One::one"):
            return sp.Integer(1)
        if d.endswith("Zero::zero"):
            return sp.Integer(0)
        if d in self.local_fns:
            return self.inline(self.local_fns[d], [self.ev(a) for a in n["args"]], n)
        # a private helper of the crate (free function): evaluate its body in place, so that extracting a helper does not change the verdict
        cands = self.F.by_path.get(d, []) if hasattr(self.F, "by_path") else []
        if len(cands) == 1 and self.inline_depth < 6 and (not cands[0].get("impl_self") or
                                                          ((cands[0].get("impl_self") or "") == (self.body.get("impl_self") or "") and not cands[0].get("impl_trait"))):
            return self.inline_here(cands[0], n["args"], n)
        raise Unsupported(n, "call of %s" % d)

    inline_depth = 0

    def closure_def(self, local_id):
        """The closure expression an immutable local of the current body is bound to by its single `let` (None otherwise)."""
        cache = self.__dict__.setdefault("_closure_defs", {})
        key = (id(self.body), local_id)
        if key not in cache:
            found = [x for x in walk(self.body["body"]) if x.get("k") == "LetS" and x["pat"].get("k") == "Bind" and x["pat"]["id"] == local_id]
            c = None
            if len(found) == 1 and "init" in found[0] and "Mut)" not in found[0]["pat"].get("mode", ""):
                init = peel(found[0]["init"])
                if init.get("k") == "Closure":
                    c = init
            cache[key] = c
        return cache[key]

    def inline_here(self, body, arg_nodes, n, recv_value=None):
        """Evaluate a crate-local function body with *this* interpreter (shared fields, decisions, hooks and user-call log); the caller's locals
        are set aside for the duration.  Arguments passed as `&mut place` are written back from the callee's parameters."""
        args = [self.ev(a) for a in arg_nodes]
        saved_env, saved_names = self.env, self.names
        self.env, self.names = {}, {}
        self.inline_depth += 1
        params = list(body["params"])
        finals = None
        try:
            vals = ([recv_value] if recv_value is not None else []) + args
            if len(params) != len(vals):
                raise Unsupported(n, "arity mismatch inlining %s" % body["path"])
            for p_, a_ in zip(params, vals):
                self.bind(p_, a_, n)
            try:
                res = self.ev(body["body"])
            except Return as r:
                res = r.value
            finals = [self.env.get(pid) for prm in params for (pid, _) in pat_binds(prm)][:len(params)]
            pids = [[pid for (pid, _) in pat_binds(prm)] for prm in params]
        finally:
            callee_env = self.env
            self.env, self.names = saved_env, saved_names
            self.inline_depth -= 1
        off = 1 if recv_value is not None else 0
        for k_, an in enumerate(arg_nodes):
            a0 = peel_ref_mut(an)
            if a0 is None:
                continue
            ids = pids[k_ + off]
            if len(ids) == 1 and ids[0] in callee_env:
                try:
                    self.assign(a0, callee_env[ids[0]], n)
                except Unsupported:
                    pass
        return res

    def user_call(self, pl, args, n):
        flat = []
        for a in args:
            if isinstance(a, (Opaque, ClosureVal)) or a is None:
                continue  # e.g. the `params` pass-through argument
            flat.append(a)
        return self.fn_atom(pl)(*flat)

    def apply_fn(self, fv, args, n):
        d = fv.node.get("ctor_of") or fv.node.get("def") or ""
        last = d.split("::")[-1]
        if fv.node.get("dk", "").startswith("Ctor"):
            return Variant(last, list(args))
        if last in TRANSPARENT_CALLS and len(args) == 1:
            return args[0]
        if d.endswith("Zero::zero") and not args:
            return sp.Integer(0)
        if d.endswith("One::one") and not args:
            return sp.Integer(1)
        if d.endswith("Default::default") and not args:
            return sp.Integer(0)
        cands = self.F.by_path.get(d, []) if hasattr(self.F, "by_path") else []
        if len(cands) == 1 and (not cands[0].get("impl_self") or not (cands[0]["params"] and cands[0]["params"][0].get("name") == "self")) and not cands[0].get("impl_trait"):
            return self.call_crate_fn(cands[0], list(args), n)           # a free function, or an associated function without receiver (`Self::blank`)
        if len(args) == 1:
            # a unary method passed by path (`.filter(ComplexField::is_finite)`, `.map(N::abs)`)
            if last in MATH_METHODS:
                return MATH_METHODS[last](self.num(args[0], n))
            if last in TRANSPARENT_METHODS:
                return args[0]
            if last in ("is_finite", "is_nan", "is_infinite", "is_sign_positive", "is_sign_negative"):
                return Function(last)(self.num(args[0], n))
        raise Unsupported(n, "function value %s" % d)

    def call_crate_fn(self, body, args, n):
        """A crate function applied to *values* (no argument nodes): evaluated in place with this interpreter."""
        saved_env, saved_names = self.env, self.names
        self.env, self.names = {}, {}
        self.inline_depth += 1
        try:
            if len(body["params"]) != len(args):
                raise Unsupported(n, "arity mismatch calling %s" % body["path"])
            for p_, a_ in zip(body["params"], args):
                self.bind(p_, a_, n)
            try:
                return self.ev(body["body"])
            except Return as r:
                return r.value
        finally:
            self.env, self.names = saved_env, saved_names
            self.inline_depth -= 1

    def apply_closure(self, cv, args, n):
        if isinstance(cv, FnVal):
            return self.apply_fn(cv, args, n)
        if isinstance(cv, UserCallable):
            return self.user_call(cv.place, list(args), n)
        node = cv.node
        saved = dict(self.env)
        try:
            for p, a in zip(node["params"], args):
                self.bind(p, a, n)
            try:
                return self.ev(node["body"])
            except Return as r:
                return r.value
        finally:
            # closure params are scoped; captured variables mutated inside stay mutated
            for p in node["params"]:
                for (i, _) in pat_binds(p):
                    if i in saved:
                        self.env[i] = saved[i]
                    else:
                        self.env.pop(i, None)

    def inline(self, body, args, n):
        sub = Interp(self.F, body, self.decimal)
        sub.call_hooks = self.call_hooks
        sub.method_hooks = self.method_hooks
        sub.local_fns = self.local_fns
        sub.fn_atoms = self.fn_atoms
        for p, a in zip(body["params"], args):
            sub.bind(p, a, n)
        try:
            return sub.ev(body["body"])
        except Return as r:
            return r.value

    def ev_MCall(self, n):
        name = n["name"]
        if name in self.method_hooks:
            r = self.method_hooks[name](self, n)
            if r is not NotImplemented:
                return r
        if name in ("then", "then_some") and len(n["args"]) == 1 and "bool" in (n.get("def") or ""):
            c = self.ev(n["recv"])
            a0 = n["args"][0]
            if name == "then_some":
                val = self.ev(a0)
                thunk = lambda: val
            elif a0.get("k") == "Closure":
                thunk = lambda: self.apply_closure(ClosureVal(a0, None), [], n)
            else:
                raise Unsupported(n, "bool::then with a non-closure")
            if c is sp.true or c is True:
                return Variant("Some", [thunk()])
            if c is sp.false or c is False:
                return Variant("None")
            return CondOpt(c, thunk)
        if name in ("unwrap_or", "unwrap_or_else", "unwrap_or_default", "map", "is_some", "is_none", "ok_or", "ok_or_else") and len(n["args"]) <= 1:
            rv_ = None
            try_recv = peel(n["recv"])
            if try_recv.get("k") in ("MCall", "Local", "Block", "Call"):
                # only Option values built by `then` / known variants are handled here; everything else falls through to the ordinary rules
                probe = None
                if try_recv.get("k") == "Local":
                    probe = self.env.get(try_recv.get("id"))
                if isinstance(probe, CondOpt) or (try_recv.get("k") in ("MCall", "Block") and any(x.get("k") == "MCall" and x["name"] in ("then", "then_some") and "bool" in (x.get("def") or "") for x in walk(n["recv"], into_closures=False))):
                    rv_ = self.ev(n["recv"])
            if isinstance(rv_, (CondOpt, Variant)) and (isinstance(rv_, CondOpt) or rv_.name in ("Some", "None")):
                if name == "is_some" and isinstance(rv_, CondOpt):
                    return rv_.cond
                if name == "is_none" and isinstance(rv_, CondOpt):
                    return sp.Not(rv_.cond)
                v_ = self.force_opt(rv_, n)
                some = v_.name == "Some"
                if name in ("is_some", "is_none"):
                    return sp.true if some == (name == "is_some") else sp.false
                if name == "unwrap_or":
                    return v_.args[0] if some else self.ev(n["args"][0])
                if name == "unwrap_or_default":
                    return v_.args[0] if some else sp.Integer(0)
                if name == "unwrap_or_else":
                    return v_.args[0] if some else self.apply_closure(ClosureVal(n["args"][0], None), [], n)
                if name == "map":
                    a0 = n["args"][0]
                    if a0.get("k") != "Closure":
                        raise Unsupported(n, "Option::map with a non-closure")
                    return Variant("Some", [self.apply_closure(ClosureVal(a0, None), [v_.args[0]], n)]) if some else v_
                if name == "ok_or":
                    return Variant("Ok", list(v_.args)) if some else Variant("Err", [self.ev(n["args"][0])])
                if name == "ok_or_else":
                    return Variant("Ok", list(v_.args)) if some else Variant("Err", [self.apply_closure(ClosureVal(n["args"][0], None), [], n)])
        if name == "clone_from" and len(n["args"]) == 1:
            self.assign(self.through_ref(n["recv"]) if peel(n["recv"]).get("k") == "Local" and isinstance(self.env.get(peel(n["recv"]).get("id")), PlaceRef) and False else n["recv"],
                        self.ev(n["args"][0]), n)          # a.clone_from(&b)  ==  a = b.clone()
            return None
        if name == "map" and len(n["args"]) == 1 and ("result::Result" in (n.get("def") or "") or "option::Option" in (n.get("def") or "")):
            # the lin-form domains follow the success path of a symbolic Option / Result (as for `?`): `x.map(f)` is f(x) there
            v0 = self.ev(n["recv"])
            if isinstance(v0, Variant) and v0.name in ("Ok", "Some", "Err", "None"):
                if v0.name in ("Err", "None"):
                    return v0
                a0 = n["args"][0]
                ap = peel(a0)
                fv = ClosureVal(a0, None) if a0.get("k") == "Closure" else (FnVal(ap) if ap.get("k") == "Path" and ap.get("dk", "").startswith(("Fn", "AssocFn", "Ctor")) else None)
                if fv is not None and len(v0.args) == 1:
                    return Variant(v0.name, [self.apply_closure(fv, [v0.args[0]], n)])
            if not isinstance(v0, (Variant, CondOpt)) and not type(v0).__name__ in ("OptVal", "ResVal"):
                a0 = n["args"][0]
                ap = peel(a0)
                if a0.get("k") == "Closure":
                    return self.apply_closure(ClosureVal(a0, None), [v0], n)
                if ap.get("k") == "Path" and ap.get("dk", "").startswith(("Fn", "AssocFn", "Ctor")):
                    return self.apply_closure(FnVal(ap), [v0], n)
        if name == "contains" and len(n["args"]) == 1:
            rp = n["recv"]
            while isinstance(rp, dict) and rp.get("k") in ("Paren", "DropTemps", "Use", "Ref"):
                rp = rp.get("e")
            lo = hi = None
            incl = False
            if isinstance(rp, dict) and rp.get("k") == "Struct" and (rp.get("def") or "").endswith(("ops::Range", "ops::RangeFrom", "ops::RangeTo")):
                f_ = {x["name"]: x["e"] for x in rp["fields"]}
                lo, hi = f_.get("start"), f_.get("end")
            elif isinstance(rp, dict) and rp.get("k") == "Call" and (callee(rp) or "").endswith("RangeInclusive::<Idx>::new"):
                lo, hi, incl = rp["args"][0], rp["args"][1], True
            if lo is not None or hi is not None:
                x = self.num(self.ev(n["args"][0]), n)
                conds = []
                if lo is not None:
                    conds.append(sp.Le(self.num(self.ev(lo), n), x))
                if hi is not None:
                    h = self.num(self.ev(hi), n)
                    conds.append(sp.Le(x, h) if incl else sp.Lt(x, h))
                return sp.And(*conds)
        if name == "next" and not n["args"] and "Iterator::next" in (n.get("def") or ""):
            # an iterator kept in a local and advanced by hand (`let mut it = a.iter().zip(b); let first = it.next().unwrap(); it.for_each(..)`): the local
            # holds the sequence still to come; `next` takes its head off (the local is re-bound to a fresh list: the sequence may be a field's own storage)
            r = n["recv"]
            while r.get("k") == "Ref" or (r.get("k") == "Un" and r.get("op") == "Deref"):
                r = r["e"]
            if r.get("k") == "Local" and isinstance(self.env.get(r["id"]), list):
                cur = self.env[r["id"]]
                self.env[r["id"]] = list(cur[1:])
                return Variant("Some", [cur[0]]) if cur else Variant("None")
        if name in TRANSPARENT_METHODS:
            v = self.ev(n["recv"])
            if name == "real" and hasattr(v, "atoms") and v.atoms(sp.core.function.AppliedUndef):
                # symbols are real, but the value of a user function over a generic ComplexField may be complex: real() of it loses a part
                return sp.re(v)
            if isinstance(v, Variant) and v.name in ("Ok", "Some") and len(v.args) == 1 and name in ("unwrap", "expect", "ok_or", "ok_or_else", "map_err"):
                if name in ("ok_or", "ok_or_else") and v.name == "Some":
                    return Variant("Ok", list(v.args))                 # Option -> Result, exactly
                return v.args[0] if name in ("unwrap", "expect") else v
            if isinstance(v, Variant) and v.name == "None" and name in ("ok_or", "ok_or_else") and len(n["args"]) == 1:
                a0 = n["args"][0]
                if name == "ok_or":
                    return Variant("Err", [self.ev(a0)])
                if a0.get("k") == "Closure":
                    return Variant("Err", [self.apply_closure(ClosureVal(a0, None), [], n)])
                return Variant("Err", [Opaque("error")])
            return v
        if name in MATH_METHODS and not n["args"]:
            return MATH_METHODS[name](self.num(self.ev(n["recv"]), n))
        if name == "powi" or name == "pow" or name == "powf" or name == "powc":
            return self.num(self.ev(n["recv"]), n) ** self.num(self.ev(n["args"][0]), n)
        if name in ("max", "min") and len(n["args"]) == 1:
            a, b = self.ev(n["recv"]), self.ev(n["args"][0])
            return (sp.Max if name == "max" else sp.Min)(a, b)
        if name in ("is_sign_positive", "is_sign_negative", "is_nan", "is_finite"):
            return Function(name)(self.num(self.ev(n["recv"]), n))
        if name == "norm" or name == "norm_squared":
            return Function(name)(self.num(self.ev(n["recv"]), n))
        d = n.get("def", "")
        if d in self.local_fns:
            return self.inline(self.local_fns[d], [self.ev(n["recv"])] + [self.ev(a) for a in n["args"]], n)
        # a private method of the same impl called on `self`: evaluate it in place (shared `self.*` fields), so that extracting a method is transparent
        cands = self.F.by_path.get(d, []) if hasattr(self.F, "by_path") else []
        rp = peel(n["recv"])
        if len(cands) == 1 and rp.get("k") == "Local" and (rp.get("name") == "self" or self.root_alias.get(rp.get("name")) == "self") and self.inline_depth < 6 \
                and (cands[0].get("impl_self") or "") == (self.body.get("impl_self") or "") and not cands[0].get("impl_trait"):
            rv = self.env.get(rp.get("id"))
            return self.inline_here(cands[0], n["args"], n, recv_value=rv if isinstance(rv, sp.Symbol) else Opaque("self"))
        raise Unsupported(n, "method %s (%s)" % (name, d))

    # -- statements -----------------------------------------------------------------------------
    def run_block(self, blk):
        for s in blk["stmts"]:
            self.run_stmt(s)
        if blk.get("expr") is not None:
            return self.ev(blk["expr"])
        return None

    def run_stmt(self, s):
        k = s["k"]
        if k == "LetS":
            if "init" in s and "els" in s:
                if not self.bind_refutable(s["pat"], self.ev(s["init"]), s):
                    self.ev(s["els"])
                    raise Unsupported(s, "let-else whose else block does not diverge")
            elif "init" in s:
                tgt = peel_ref_mut(s["init"])
                if tgt is not None and peel(tgt).get("k") == "Index" and s["pat"].get("k") == "Bind" and not (peel(tgt).get("ty") or "").startswith("["):
                    self.bind(s["pat"], PlaceRef(tgt, self.ev(peel(tgt)["i"])), s)
                elif tgt is not None and peel(tgt).get("k") == "Field" and s["pat"].get("k") == "Bind" and place(peel(tgt)) is not None:
                    self.bind(s["pat"], PlaceRef(tgt, None), s)          # `let dt = &mut self.dt;`
                else:
                    self.bind(s["pat"], self.ev(s["init"]), s)
            else:
                for (i, nm) in pat_binds(s["pat"]):
                    self.names[i] = nm
        elif k in ("ExprS", "Semi"):
            self.ev(s["e"])
        elif k == "ItemS":
            pass
        else:
            raise Unsupported(s, "statement kind %s" % k)

    def ev_For(self, n):
        it = self.iter_values(n["iter"])
        if it is None:
            raise Unsupported(n, "for over a non-concrete iterator")
        for v in it:
            self.bind(n["pat"], v, n)
            try:
                self.ev(n["body"])
            except Continue as c:
                if c.target not in (None, n["id"]):
                    raise
            except Break as b:
                if b.target not in (None, n["id"]):
                    raise
                break
        return None

    def iter_values(self, it):
        """Concrete iteration space of simple iterator expressions, else None."""
        it = peel(it)
        if it.get("k") == "Struct" and it["def"].endswith("ops::Range"):
            d = {f["name"]: self.ev(f["e"]) for f in it["fields"]}
            a, b = d.get("start"), d.get("end")
            if getattr(a, "is_Integer", False) and getattr(b, "is_Integer", False) and int(b) - int(a) <= self.unroll_limit:
                return [sp.Integer(i) for i in range(int(a), int(b))]
            return None
        if it.get("k") == "Call" and (callee(it) or "").endswith("RangeInclusive::<Idx>::new"):
            a, b = self.ev(it["args"][0]), self.ev(it["args"][1])
            if getattr(a, "is_Integer", False) and getattr(b, "is_Integer", False) and int(b) - int(a) <= self.unroll_limit:
                return [sp.Integer(i) for i in range(int(a), int(b) + 1)]
            return None
        if it.get("k") == "MCall" and it["name"] == "zip" and len(it.get("args", [])) == 1:
            # an open range `a..` zipped with a finite sequence (either way round) is as long as that sequence
            def open_start(x):
                x = peel(x)
                if x.get("k") == "Struct" and (x.get("def") or "").endswith("ops::RangeFrom"):
                    a = self.ev({f["name"]: f["e"] for f in x["fields"]}["start"])
                    return int(a) if getattr(a, "is_Integer", False) else None
                return None
            a0, b0 = open_start(it["recv"]), open_start(it["args"][0])
            if a0 is not None and b0 is None:
                other = self.iter_values(it["args"][0])
                return None if other is None else [(sp.Integer(a0 + i), v) for i, v in enumerate(other)]
            if b0 is not None and a0 is None:
                inner0 = self.iter_values(it["recv"])
                return None if inner0 is None else [(v, sp.Integer(b0 + i)) for i, v in enumerate(inner0)]
        if it.get("k") == "MCall":
            nm = it["name"]
            inner = self.iter_values(it["recv"]) if nm in ("iter", "into_iter", "iter_mut", "enumerate", "rev", "skip", "take", "zip", "copied", "cloned") else None
            if nm in ("iter", "into_iter", "iter_mut", "copied", "cloned"):
                if inner is not None:
                    return inner
                v = self.ev(it["recv"])
                if isinstance(v, sp.MatrixBase) and 1 in v.shape:
                    return list(v)       # a vector: its entries in order
                return list(v) if isinstance(v, (list, tuple)) else None
            if inner is None:
                return None
            if nm == "enumerate":
                return [(sp.Integer(i), v) for i, v in enumerate(inner)]
            if nm == "rev":
                return list(reversed(inner))
            if nm == "skip":
                k = self.ev(it["args"][0])
                return inner[int(k):] if getattr(k, "is_Integer", False) else None
            if nm == "take":
                k = self.ev(it["args"][0])
                return inner[:int(k)] if getattr(k, "is_Integer", False) else None
            if nm == "zip":
                other = self.iter_values(it["args"][0])
                return None if other is None else list(zip(inner, other))
        v = None
        try:
            v = self.ev(it)
        except Unsupported:
            return None
        if isinstance(v, (list, tuple)):
            return list(v)
        return None

    def ev_While(self, n):
        for _ in range(self.unroll_limit):
            c = self.ev(n["c"])
            if c is sp.false or c is False:
                return None
            if not (c is sp.true or c is True):
                raise Unsupported(n, "while with undecided condition %s" % (c,))
            try:
                self.ev(n["body"])
            except Continue as cc:
                if cc.target not in (None, n["id"]):
                    raise
            except Break as b:
                if b.target not in (None, n["id"]):
                    raise
                return None
        raise Unsupported(n, "while unroll limit")

    def decide_now(self, c, n):
        if c is sp.true or c is True:
            return True
        if c is sp.false or c is False:
            return False
        d = self.if_hook(self, n, c) if self.if_hook is not None else None
        if d is None:
            raise Unsupported(n, "undecided condition %s" % (c,))
        return d

    def force_opt(self, v, n):
        """A CondOpt decided: -> Variant Some(value) / None."""
        if isinstance(v, CondOpt):
            return Variant("Some", [v.thunk()]) if self.decide_now(v.cond, n) else Variant("None")
        return v

    def ev_Let(self, n):
        """`if let PAT = e` / `while let PAT = e` as a condition over a *known* Option/Result value (binds on success)."""
        v = self.force_opt(self.ev(n["init"]), n)
        if not isinstance(v, Variant):
            raise Unsupported(n, "let-expression")
        return sp.true if self.bind_refutable(n["pat"], v, n) else sp.false

    def ev_Match(self, n):
        # the one exact case every evaluator shares: a known field-less enum value matched against variant paths (a selector enum introduced by a
        # refactoring, `match which { Formula::Higher => …, Formula::Lower => … }`); everything else is left to the subclasses
        v = self.ev(n["e"])
        if isinstance(v, Variant) and not v.args and all(a.get("guard") is None for a in n["arms"]):
            def hit(p):
                k = p.get("k")
                if k == "Wild":
                    return True
                if k == "PPath":
                    return (p.get("def") or "").split("::")[-1] == v.name
                if k == "POr":
                    alts = [hit(q) for q in p["ps"]]
                    return None if None in alts else any(alts)
                if k in ("PRef", "PDeref"):
                    return hit(p["p"])
                return None
            for a in n["arms"]:
                h = hit(a["pat"])
                if h is None:
                    break
                if h:
                    return self.ev(a["body"])
        raise Unsupported(n, "match")

    def ev_Loop(self, n):
        raise Unsupported(n, "loop")


def atoms_of(expr, fn):
    """All applications of the uninterpreted function `fn` (a sympy Function class) in expr."""
    return sorted(expr.atoms(fn), key=str)


def linear_coeffs(expr, atoms):
    """Coefficients c_k with expr = Σ c_k·atom_k + rest; returns (coeffs, rest). Requires linearity."""
    e = sp.expand(sp.together(expr).doit())
    coeffs = []
    rest = expr
    subs0 = {a: 0 for a in atoms}
    rest = sp.simplify(expr.subs(subs0))
    for a in atoms:
        c = sp.simplify(sp.diff(expr, a))
        if any(c.has(b) for b in atoms):
            raise ValueError("not linear in %s" % a)
        coeffs.append(c)
    return coeffs, rest
