"""nalgebra layout/access model on top of the symbolic interpreter (version-bound to nalgebra 0.32, whose
documentation states: from_vec / from_column_slice / from_iterator(_generic) / as_slice / iter are
column-major; from_row_slice / from_row_iterator are row-major).

MatVal is a concrete-shape matrix of symbolic entries.  Vectors whose dimension is the (unknown) problem
dimension D are *not* expanded: they are treated as single symbols (all operations on them are linear), and a
D×k matrix of stages is a ColsVal (list of k column symbols).
"""
import re

import sympy as sp

from . import sym
from .hir import callee, peel, place, pp


class MatVal:
    def __init__(self, nrows, ncols, rows):
        self.nrows, self.ncols, self.rows = nrows, ncols, rows   # rows[r][c]

    @staticmethod
    def from_col_major(nrows, ncols, data):
        if len(data) != nrows * ncols:
            raise sym.Unsupported({}, "matrix data has %d entries for %dx%d" % (len(data), nrows, ncols))
        return MatVal(nrows, ncols, [[data[c * nrows + r] for c in range(ncols)] for r in range(nrows)])

    @staticmethod
    def from_row_major(nrows, ncols, data):
        if len(data) != nrows * ncols:
            raise sym.Unsupported({}, "matrix data has %d entries for %dx%d" % (len(data), nrows, ncols))
        return MatVal(nrows, ncols, [[data[r * ncols + c] for c in range(ncols)] for r in range(nrows)])

    def col_major(self):
        return [self.rows[r][c] for c in range(self.ncols) for r in range(self.nrows)]

    def transpose(self):
        return MatVal(self.ncols, self.nrows, [[self.rows[r][c] for r in range(self.nrows)] for c in range(self.ncols)])

    def __repr__(self):
        return "Mat%dx%d%s" % (self.nrows, self.ncols, self.rows)


class ColsVal:
    """D×k matrix kept as k column symbols."""
    def __init__(self, cols):
        self.cols = list(cols)


class DequeVal:
    """VecDeque of symbolic items; every operation is logged (used for history lock-step rules)."""
    def __init__(self, name, items=None, log=None):
        self.name = name
        self.items = list(items or [])
        self.log = log if log is not None else []
        self.unknown_len = False

    def op(self, what, arg=None, node=None):
        self.log.append((self.name, what, arg, node))


class IndexedVec:
    """Problem-dimension vector base + Σ delta[k]·e_k with symbolic coordinate indices."""
    def __init__(self, base, deltas=None):
        self.base = base
        self.deltas = dict(deltas or {})

    def value(self):
        v = self.base
        for k, d in self.deltas.items():
            v = v + d * sp.Symbol("e[%s]" % k, real=True)
        return v


def dims_of(ty, consts):
    """(R, C) from a nalgebra::Matrix<T, R, C, S> type string; None for non-constant dims."""
    m = re.match(r"^&?(?:mut )?nalgebra::Matrix<", ty or "")
    if not m:
        return None
    # split top-level generic args
    inner = ty[ty.index("Matrix<") + 7:]
    depth, cur, args = 0, "", []
    for ch in inner:
        if ch in "<([":
            depth += 1
        elif ch in ">)]":
            if depth == 0:
                args.append(cur.strip())
                break
            depth -= 1
        if ch == "," and depth == 0:
            args.append(cur.strip())
            cur = ""
        else:
            cur += ch
    if len(args) < 3:
        return None
    out = []
    for a in args[1:3]:
        mm = re.match(r"^nalgebra::Const<(\w+)>$", a)
        if not mm:
            out.append(None)
            continue
        v = mm.group(1)
        if v.isdigit():
            out.append(int(v))
        elif v in consts:
            out.append(int(consts[v]))
        else:
            out.append(None)
    return tuple(out)


LIST_PASS = {"iter", "into_iter", "iter_mut", "cloned", "copied", "as_slice", "as_mut_slice", "to_vec", "by_ref", "column_iter_mut_"}


def range_bounds(interp, node, length):
    """(lo, hi) of a Range / RangeTo / RangeFrom / RangeFull struct expression, with concrete integer bounds."""
    x = peel(node)
    if x.get("k") == "Struct" and "ops::Range" in x.get("def", ""):
        d = {f["name"]: interp.ev(f["e"]) for f in x.get("fields", [])}
        lo, hi = d.get("start", sp.Integer(0)), d.get("end", sp.Integer(length))
        if getattr(lo, "is_Integer", False) and getattr(hi, "is_Integer", False):
            return int(lo), int(hi)
    if x.get("k") == "Call" and (callee(x) or "").endswith("RangeInclusive::<Idx>::new"):
        lo, hi = interp.ev(x["args"][0]), interp.ev(x["args"][1])
        if getattr(lo, "is_Integer", False) and getattr(hi, "is_Integer", False):
            return int(lo), int(hi) + 1
    if x.get("k") in ("Path", "Struct") and "RangeFull" in (x.get("def") or ""):
        return 0, length
    raise sym.Unsupported(node, "range with non-constant bounds")


class NInterp(sym.Interp):
    def __init__(self, F, body, consts=None):
        self.consts = dict(consts or {})
        sym.Interp.__init__(self, F, body)
        self.user_calls = []       # (symbol, place, args, node)
        self.fresh_user_symbols = False
        self.symbolic_for = False  # evaluate a `for` over a non-concrete range once with symbolic loop variables
        self.stores = []           # (target name, index value, stored value, node)

    # -- helpers --------------------------------------------------------------------------------
    def _vec_macro(self, it, n, args):
        inner = peel(n["args"][0])
        if inner.get("k") == "Call" and len(inner["args"]) == 2 and peel(inner["args"][1]).get("k") == "Array":
            return [self.ev(x) for x in peel(inner["args"][1])["es"]]
        raise sym.Unsupported(n, "vec! shape")

    def ev_Path(self, n):
        if n.get("dk") == "ConstParam":
            nm = n["def"].split("::")[-1]
            if nm in self.consts:
                return sp.Integer(self.consts[nm])
        return sym.Interp.ev_Path(self, n)

    def ev_Repeat(self, n):
        cnt = n.get("n")
        if cnt is not None and str(cnt).isdigit():
            v = self.ev(n["e"])
            return [v] * int(cnt)
        raise sym.Unsupported(n, "array repeat with non-literal length")

    def ev_For(self, n):
        try:
            it = self.iter_values(n["iter"])
        except sym.Unsupported:
            it = None
        if it is None and self.symbolic_for:
            from .hir import pat_binds
            for (i, nm) in pat_binds(n["pat"]):
                self.env[i] = sym.S(nm)
                self.names[i] = nm
            try:
                self.ev(n["body"])
            except (sym.Continue, sym.Break):
                pass
            return None
        return sym.Interp.ev_For(self, n)

    def user_call(self, pl, args, n):
        args = [a.value() if isinstance(a, IndexedVec) else a for a in args]
        flat = [a for a in args if not isinstance(a, (sym.Opaque, sym.ClosureVal)) and a is not None]
        if self.fresh_user_symbols:
            s = sp.Symbol("K%d" % len(self.user_calls), real=True)
            self.user_calls.append((s, pl, flat, n))
            return s
        v = self.fn_atom(pl)(*flat)
        self.user_calls.append((v, pl, flat, n))
        return v

    # -- calls ----------------------------------------------------------------------------------
    def ev_Call(self, n):
        d = callee(n) or ""
        last = d.split("::")[-1]
        if d.startswith("std::collections::VecDeque") and last in ("new", "with_capacity"):
            return DequeVal("deque")
        if "nalgebra" in d and "ovl" not in n:
            dims = dims_of(n.get("ty"), self.consts)
            if last in ("from_vec", "from_column_slice", "from_iterator", "from_iterator_generic", "from_vec_generic",
                        "from_column_slice_generic", "from_row_slice", "from_row_iterator", "from_row_slice_generic"):
                data = self.ev(n["args"][-1])
                if not isinstance(data, list):
                    # problem-dimension vector built from a slice (e.g. from_column_slice_generic(dim, U1, y)): linear, keep the symbol
                    if dims is None or dims[0] is None:
                        return data
                    raise sym.Unsupported(n, "matrix constructor from non-list %r" % (data,))
                if dims is None or None in dims:
                    raise sym.Unsupported(n, "matrix constructor with unknown dims: %s" % n.get("ty"))
                if "row" in last:
                    return MatVal.from_row_major(dims[0], dims[1], data)
                return MatVal.from_col_major(dims[0], dims[1], data)
            if last in ("from_element_generic", "from_element", "zeros", "zeros_generic"):
                if dims is not None and None not in dims:
                    v = self.ev(n["args"][-1]) if n["args"] else sp.Integer(0)
                    return MatVal(dims[0], dims[1], [[v] * dims[1] for _ in range(dims[0])])
                if dims is not None and dims[1] is not None and dims[1] > 1:
                    v = self.ev(n["args"][-1]) if n["args"] else sp.Integer(0)
                    return ColsVal([v] * dims[1])
                return self.ev(n["args"][-1]) if n["args"] else sp.Integer(0)
            if last in ("name", "from_usize") and ("Dim" in d):
                return sym.Opaque("dim", n)
        return sym.Interp.ev_Call(self, n)

    def ev_MCall(self, n):
        name = n["name"]
        d = n.get("def") or ""
        if name in ("transpose",) and "nalgebra" in d:
            v = self.ev(n["recv"])
            return v.transpose() if isinstance(v, MatVal) else sp.Function("T")(v)
        # peek at receiver value for container semantics
        if name in LIST_PASS or name in ("row_iter", "column_iter", "column", "row", "set_column", "set_row", "enumerate", "skip", "take", "rev",
                                          "zip", "map", "len", "ncols", "nrows", "collect", "push", "norm", "norm_squared", "column_iter_mut",
                                          "row_iter_mut", "fill", "dot", "fold", "sum", "scale", "component_mul", "clone_owned", "into_owned", "back", "front",
                                          "push_back", "pop_front", "clear", "is_empty", "clone", "copy_from", "range", "zip_map", "for_each") \
                and not (name in ("map", "take", "clone", "zip") and ("option::Option" in d or "result::Result" in d)):
            # (Option / Result combinators are the base interpreter's: evaluating the receiver here as well would evaluate a user call twice)
            recv = self.ev(n["recv"])
            r = self.container_method(n, name, recv)
            if r is not NotImplemented:
                return r
        return sym.Interp.ev_MCall(self, n)

    def container_method(self, n, name, v):
        if isinstance(v, MatVal):
            if name in ("iter", "as_slice", "iter_mut", "as_mut_slice", "into_iter"):
                return v.col_major()
            if name == "row_iter":
                return [MatVal(1, v.ncols, [list(r)]) for r in v.rows]
            if name == "column_iter":
                return [MatVal(v.nrows, 1, [[v.rows[r][c]] for r in range(v.nrows)]) for c in range(v.ncols)]
            if name in ("column", "row"):
                i = self.ev(n["args"][0])
                if not getattr(i, "is_Integer", False):
                    raise sym.Unsupported(n, "symbolic column/row index")
                i = int(i)
                if name == "column":
                    return MatVal(v.nrows, 1, [[v.rows[r][i]] for r in range(v.nrows)])
                return MatVal(1, v.ncols, [list(v.rows[i])])
            if name in ("clone", "clone_owned", "into_owned"):
                return v
            if name in ("map", "zip_map") and "nalgebra" in (n.get("def") or ""):
                fn = n["args"][-1]
                other = self.ev(n["args"][0]) if name == "zip_map" else None
                if name == "zip_map" and not (isinstance(other, MatVal) and (other.nrows, other.ncols) == (v.nrows, v.ncols)):
                    raise sym.Unsupported(n, "zip_map with %r" % (other,))

                def f(*xs):
                    if fn.get("k") == "Closure":
                        return self.apply_closure(sym.ClosureVal(fn, None), list(xs), n)
                    fp = peel(fn)
                    if fp.get("k") == "Path" and fp["def"].split("::")[-1] in sym.TRANSPARENT_CALLS and len(xs) == 1:
                        return xs[0]
                    raise sym.Unsupported(n, "map with %s" % pp(fn)[:40])
                if other is None:
                    return MatVal(v.nrows, v.ncols, [[f(x) for x in r] for r in v.rows])
                return MatVal(v.nrows, v.ncols, [[f(x, y) for x, y in zip(r, q)] for r, q in zip(v.rows, other.rows)])
            if name == "len":
                return sp.Integer(v.nrows * v.ncols)
            if name == "ncols":
                return sp.Integer(v.ncols)
            if name == "nrows":
                return sp.Integer(v.nrows)
        if isinstance(v, ColsVal):
            if name in ("column_iter", "column_iter_mut"):
                return list(v.cols)
            if name == "column":
                i = self.ev(n["args"][0])
                if not getattr(i, "is_Integer", False):
                    raise sym.Unsupported(n, "symbolic column index into the stage matrix")
                return v.cols[int(i)]
            if name == "set_column":
                i = self.ev(n["args"][0])
                val = self.ev(n["args"][1])
                if not getattr(i, "is_Integer", False):
                    raise sym.Unsupported(n, "symbolic column index into the stage matrix")
                v.cols[int(i)] = val
                self.trace.append(("set_column", place(n["recv"]), (int(i), val), n))
                return None
            if name == "ncols":
                return sp.Integer(len(v.cols))
        if isinstance(v, DequeVal):
            if name == "push_back":
                x = self.ev(n["args"][0])
                v.items.append(x)
                v.op("push_back", x, n)
                return None
            if name == "pop_front":
                v.op("pop_front", None, n)
                return v.items.pop(0) if v.items else sym.Opaque("popped")
            if name == "clear":
                v.items = []
                v.op("clear", None, n)
                return None
            if name == "is_empty":
                if v.unknown_len:
                    return sp.Symbol("empty(%s)" % v.name)
                return sp.true if not v.items else sp.false
            if name == "len":
                return sp.Integer(len(v.items))
            if name in ("back", "front"):
                if not v.items:
                    raise sym.Unsupported(n, "back/front of an empty deque")
                return sym.Variant("Some", [v.items[-1 if name == "back" else 0]])
            if name in ("iter", "clone"):
                for i_ in range(len(v.items)):
                    v.op("index", i_, n)
                return list(v.items)
            if name == "range":
                lo, hi = range_bounds(self, n["args"][0], len(v.items))
                if not (0 <= lo <= hi <= len(v.items)):
                    raise sym.Unsupported(n, "deque range %d..%d out of the modelled length %d" % (lo, hi, len(v.items)))
                for i_ in range(lo, hi):
                    v.op("index", i_, n)        # a formula read of that history entry
                return list(v.items[lo:hi])
        if isinstance(v, IndexedVec):
            if name in ("as_slice", "clone", "clone_owned", "as_mut_slice"):
                return v.value() if name != "clone" else IndexedVec(v.base, v.deltas)
        if name in ("set_column", "set_row") and len(n["args"]) == 2 and not isinstance(v, (MatVal, ColsVal, list, sp.Symbol, DequeVal)) and place(n["recv"]):
            # a matrix the domain does not hold entry by entry (a zero-initialised D×D buffer): the store is recorded against the place
            val = self.ev(n["args"][1])
            self.stores.append((place(n["recv"]).split(".")[-1], (self.ev(n["args"][0]),), val, n))
            return None
        if isinstance(v, sp.Symbol) and name in ("set_column", "set_row", "copy_from"):
            val = self.ev(n["args"][-1])
            self.stores.append((v.name, tuple(self.ev(a) for a in n["args"][:-1]), val, n))
            return None
        if isinstance(v, list):
            if name in LIST_PASS or name in ("collect", "clone"):
                return v
            if name == "enumerate":
                return [(sp.Integer(i), x) for i, x in enumerate(v)]
            if name == "skip":
                k = self.ev(n["args"][0])
                return v[int(k):]
            if name == "take":
                k = self.ev(n["args"][0])
                return v[:int(k)]
            if name == "rev":
                return list(reversed(v))
            if name == "zip":
                o = self.ev(n["args"][0])
                if isinstance(o, MatVal):
                    o = o.col_major()
                return list(zip(v, o))
            if name == "len":
                return sp.Integer(len(v))
            if name == "map":
                fn = n["args"][0]
                if fn.get("k") == "Closure":
                    return [self.apply_closure(sym.ClosureVal(fn, None), [x], n) for x in v]
                fp = peel(fn)
                if fp.get("k") == "Path" and fp["def"].split("::")[-1] in sym.TRANSPARENT_CALLS:
                    return v
                raise sym.Unsupported(n, "map with %s" % pp(fn)[:40])
            if name == "fold":
                acc = self.ev(n["args"][0])
                for x in v:
                    acc = self.apply_closure(sym.ClosureVal(n["args"][1], None), [acc, x], n)
                return acc
            if name == "sum":
                return sum(v, sp.Integer(0))
            if name == "for_each":
                fn = n["args"][0]
                if fn.get("k") != "Closure":
                    raise sym.Unsupported(n, "for_each with %s" % pp(fn)[:40])
                for x in v:
                    self.apply_closure(sym.ClosureVal(fn, None), [x], n)
                return None
            if name == "push":
                v.append(self.ev(n["args"][0]))
                return None
        if name in ("norm", "norm_squared") and not isinstance(v, (list, MatVal, ColsVal)):
            return sp.Function(name)(self.num(v, n))
        if name in ("as_slice", "clone_owned", "into_owned", "column") and not isinstance(v, (list, MatVal, ColsVal, sym.Opaque)) and v is not None:
            # problem-dimension vector: a single symbol
            if name == "column":
                return v
            return v
        return NotImplemented

    def iter_values(self, it):
        try:
            v = self.ev(it)
        except sym.Unsupported:
            return sym.Interp.iter_values(self, it)
        if isinstance(v, MatVal):
            return v.col_major()
        if isinstance(v, (list, tuple)):
            return list(v)
        return sym.Interp.iter_values(self, it)

    def ev_Index(self, n):
        base = self.ev(n["e"])
        ix = peel(n["i"])
        if isinstance(base, (list, MatVal)) and (ix.get("k") == "Struct" and "ops::Range" in ix.get("def", "")):
            items = base.col_major() if isinstance(base, MatVal) else base
            lo, hi = range_bounds(self, n["i"], len(items))
            if not (0 <= lo <= hi <= len(items)):
                raise sym.Unsupported(n, "slice %d..%d out of length %d" % (lo, hi, len(items)))
            return list(items[lo:hi])
        if isinstance(base, DequeVal):
            idx = self.ev(n["i"])
            if getattr(idx, "is_Integer", False):
                if not (0 <= int(idx) < len(base.items)):
                    raise sym.Unsupported(n, "deque index %s out of the modelled length %d" % (idx, len(base.items)))
                base.op("index", int(idx), n)
                return base.items[int(idx)]
            raise sym.Unsupported(n, "symbolic deque index")
        if isinstance(base, IndexedVec):
            idx = self.ev(n["i"])
            return sp.Symbol("%s[%s]" % (base.base, idx), real=True) + base.deltas.get(str(idx), 0)
        if isinstance(base, sp.Expr) and not isinstance(base, sp.Symbol) and base.free_symbols:
            idx = self.ev(n["i"])
            return sp.Function("at")(base, idx if not isinstance(idx, tuple) else sp.Tuple(*idx))
        if isinstance(base, MatVal):
            idx = self.ev(n["i"])
            if isinstance(idx, tuple) and all(getattr(x, "is_Integer", False) for x in idx):
                return base.rows[int(idx[0])][int(idx[1])]
            if getattr(idx, "is_Integer", False):
                return base.col_major()[int(idx)]
            raise sym.Unsupported(n, "symbolic index into a concrete matrix")
        return sym.Interp.ev_Index(self, n)

    def assign(self, lhs, val, node):
        l = peel(lhs)
        if l.get("k") == "Index":
            base = self.ev(l["e"])
            if isinstance(base, IndexedVec):
                idx = str(self.ev(l["i"]))
                cur = sp.Symbol("%s[%s]" % (base.base, idx), real=True)
                base.deltas[idx] = sp.expand(val - cur)
                self.trace.append(("perturb", str(base.base), (idx, base.deltas[idx]), node))
                return
            if isinstance(base, MatVal):
                idx = self.ev(l["i"])
                if isinstance(idx, tuple) and all(getattr(x, "is_Integer", False) for x in idx):
                    base.rows[int(idx[0])][int(idx[1])] = val
                    return
            if isinstance(base, sp.Expr) and not isinstance(base, (list,)):
                nm = base.name if isinstance(base, sp.Symbol) else (place(l["e"]) or "?")
                self.stores.append((nm, self.ev(l["i"]), val, node))
                return
        return sym.Interp.assign(self, lhs, val, node)

    def bind(self, pat, val, node=None):
        # `&k_coeff` patterns over matrix iterators yield scalars; 1x1 MatVal -> scalar
        if isinstance(val, MatVal) and val.nrows == 1 and val.ncols == 1 and pat.get("k") in ("Bind", "PRef"):
            val = val.rows[0][0]
        return sym.Interp.bind(self, pat, val, node)

    def num(self, v, n):
        if isinstance(v, MatVal) and v.nrows == 1 and v.ncols == 1:
            return v.rows[0][0]
        return sym.Interp.num(self, v, n)
