"""Build the facts for /repo's current working tree with the facts driver.

Never executes bacon code: `cargo +nightly check --lib` (type-check only; cargo runs build.rs, which is
compilation) with the driver as RUSTC_WORKSPACE_WRAPPER.  Facts are cached by the hash of every input.
"""
import fcntl
import hashlib
import json
import os
import shutil
import subprocess
import sys
import time

VERIF = os.path.dirname(os.path.dirname(os.path.abspath(__file__)))
REPO = os.environ.get("BSA_REPO", "/repo")
BUILD = os.path.join(VERIF, "build")
DRIVER_DIR = os.path.join(VERIF, "engine", "facts-driver")
DRIVER = os.path.join(DRIVER_DIR, "target", "release", "facts-driver")


class BuildError(Exception):
    pass


def _sysroot():
    return subprocess.check_output(["rustc", "+nightly", "--print", "sysroot"], text=True).strip()


def input_files(repo):
    out = []
    for base, dirs, files in os.walk(os.path.join(repo, "src")):
        dirs.sort()
        for f in sorted(files):
            out.append(os.path.join(base, f))
    for f in ("build.rs", "codata.txt", "Cargo.toml", "Cargo.lock"):
        p = os.path.join(repo, f)
        if os.path.exists(p):
            out.append(p)
    return out


def input_hash(repo, extra=()):
    h = hashlib.sha256()
    for p in list(input_files(repo)) + list(extra):
        h.update(os.path.relpath(p, repo).encode())
        h.update(b"\0")
        with open(p, "rb") as fh:
            h.update(fh.read())
        h.update(b"\0")
    return h.hexdigest()[:24]


def ensure_driver():
    if os.path.exists(DRIVER):
        src_m = max(os.path.getmtime(os.path.join(DRIVER_DIR, "src", f)) for f in os.listdir(os.path.join(DRIVER_DIR, "src")))
        if os.path.getmtime(DRIVER) >= src_m:
            return
    env = dict(os.environ, CARGO_NET_OFFLINE="true")
    r = subprocess.run(["cargo", "+nightly", "build", "--release", "--offline"], cwd=DRIVER_DIR, env=env,
                       stdout=subprocess.PIPE, stderr=subprocess.STDOUT, text=True)
    if r.returncode != 0 or not os.path.exists(DRIVER):
        raise BuildError("facts-driver failed to build:\n" + r.stdout[-4000:])


def run_driver(crate_dir, crate_name, target_dir, out_json, lib_only=True):
    """Type-check `crate_dir` with the driver and return the parsed facts (fail closed on stale output)."""
    ensure_driver()
    nonce = "%d-%d" % (os.getpid(), time.time_ns())
    fp = os.path.join(target_dir, "debug", ".fingerprint")
    pkg = crate_name.replace("_", "-")
    if os.path.isdir(fp):
        for d in os.listdir(fp):
            if d.startswith(pkg + "-"):
                shutil.rmtree(os.path.join(fp, d), ignore_errors=True)
    if os.path.exists(out_json):
        os.remove(out_json)
    env = dict(os.environ)
    env.update({
        "LD_LIBRARY_PATH": _sysroot() + "/lib" + (":" + env["LD_LIBRARY_PATH"] if env.get("LD_LIBRARY_PATH") else ""),
        "RUSTFLAGS": "-Awarnings",
        "RUSTC_WORKSPACE_WRAPPER": DRIVER,
        "CARGO_TARGET_DIR": target_dir,
        "CARGO_NET_OFFLINE": "true",
        "BSA_FACTS_OUT": out_json,
        "BSA_FACTS_NONCE": nonce,
        "BSA_FACTS_CRATE": crate_name,
    })
    env.pop("RUSTC_WRAPPER", None)
    cmd = ["cargo", "+nightly", "check", "--offline"] + (["--lib"] if lib_only else [])
    r = subprocess.run(cmd, cwd=crate_dir, env=env, stdout=subprocess.PIPE, stderr=subprocess.STDOUT, text=True)
    if r.returncode != 0:
        raise BuildError("cargo check of %s failed (the tree does not type-check):\n%s" % (crate_dir, r.stdout[-6000:]))
    if not os.path.exists(out_json):
        raise BuildError("driver did not write %s (cargo skipped the wrapper?)\n%s" % (out_json, r.stdout[-2000:]))
    with open(out_json) as fh:
        facts = json.load(fh)
    if facts.get("nonce") != nonce:
        raise BuildError("stale facts file: nonce mismatch")
    return facts


def get_facts(tier="quick", repo=None):
    """Facts of the repo's working tree; (facts, meta)."""
    repo = repo or REPO
    os.makedirs(BUILD, exist_ok=True)
    t0 = time.time()
    ensure_driver()
    key = input_hash(repo, extra=[DRIVER])
    tag = hashlib.sha256(os.path.abspath(repo).encode()).hexdigest()[:8]
    cache = os.path.join(BUILD, "facts-%s-%s.json" % (tag, key))
    codata = os.path.join(BUILD, "codata-%s-%s.rs" % (tag, key))
    lock = open(os.path.join(BUILD, ".lock"), "w")
    fcntl.flock(lock, fcntl.LOCK_EX)
    try:
        fresh = False
        if tier == "thorough" or not (os.path.exists(cache) and os.path.exists(codata)):
            target = os.path.join(BUILD, "target-" + tag)
            tmp = cache + ".tmp.%d" % os.getpid()
            facts = run_driver(repo, "bacon_sci", target, tmp)
            gen = os.path.join(facts.get("out_dir", ""), "codata.rs")
            if not os.path.exists(gen):
                raise BuildError("generated codata.rs not found in OUT_DIR=%r" % facts.get("out_dir"))
            shutil.copyfile(gen, codata)
            os.replace(tmp, cache)
            fresh = True
            # keep the cache small: drop older fact files for this repo path
            for f in os.listdir(BUILD):
                if (f.startswith("facts-%s-" % tag) or f.startswith("codata-%s-" % tag)) and key not in f:
                    try:
                        os.remove(os.path.join(BUILD, f))
                    except OSError:
                        pass
        else:
            with open(cache) as fh:
                facts = json.load(fh)
    finally:
        fcntl.flock(lock, fcntl.LOCK_UN)
        lock.close()
    meta = {"input_hash": key, "fresh_dump": fresh, "facts_file": cache, "codata_rs": codata,
            "dump_s": round(time.time() - t0, 2), "repo": repo, "counts": facts.get("counts", {})}
    return facts, meta
