#!/usr/bin/env python3
"""Prompt given to a fresh sub-agent of the seeded-mutation campaign (DESIGN.md §7).  The agent sees only the property text
(/tmp/prop-<id>.txt, written by `--props`) and its own scratch worktree /tmp/wt-<id>; nothing from /verif.
usage: tools/seed_prompt.py --props            # write /tmp/prop-Cnn.txt from properties.jsonl
       tools/seed_prompt.py Cnn "<hint: what earlier rounds tried>" > /tmp/prompt-Cnn.txt
"""
import json, os, sys
if len(sys.argv) > 1 and sys.argv[1] == "--props":
    here = os.path.dirname(os.path.dirname(os.path.abspath(__file__)))
    for l in open(os.path.join(here, "properties.jsonl")):
        d = json.loads(l)
        open("/tmp/prop-%s.txt" % d["id"], "w").write(json.dumps(d, indent=1))
    sys.exit(0)
import sys
pid, hint = sys.argv[1], sys.argv[2]
low = pid.lower()
print(f"""You are helping test a verification tool. Work ONLY inside the git worktree /tmp/wt-{pid} (a checkout of the Rust crate `bacon-sci`, a scientific computing library). Do not read or touch anything under /verif or /repo. There is no network; use `cargo ... --offline` and set CARGO_TARGET_DIR=/tmp/wt-{pid}/target. IMPORTANT: do NOT use `git stash` (the stash stack is shared with other people's worktrees); to test without your change use `git diff -- src build.rs codata.txt > /tmp/wt-{pid}/patch.diff; git apply -R patch.diff; ...; git apply patch.diff`.

Read the property in /tmp/prop-{pid}.txt. Your job: make a small, realistic change to the library (files under /tmp/wt-{pid}/src, or build.rs / codata.txt if the property is about them) that BREAKS this property while (a) the crate still compiles and (b) the existing test suite still passes (`cd /tmp/wt-{pid} && CARGO_TARGET_DIR=/tmp/wt-{pid}/target cargo test --offline --lib` = 72 passed and `cargo test --offline --doc` = 23 passed). The change should look like a plausible programmer slip or refactoring mistake, and it should need something specific to manifest rather than breaking every ordinary use at once. {hint}

Then write a demonstration: a Rust integration test file /tmp/wt-{pid}/tests/demo_{low}.rs (public API only, `use bacon_sci::...`) that FAILS with your change and PASSES on the unmodified code (verify both).

Deliver, in /tmp/wt-{pid}/: (1) `patch.diff` = output of `git diff -- src build.rs codata.txt` (only the library change, not the demo), (2) `tests/demo_{low}.rs`, (3) `NOTES.md` stating which clause of the property breaks, what exactly is needed for it to manifest, and the exact commands you ran with their pass/fail outcome. Keep the change to a few lines. In your final answer summarise the change in 3-5 sentences.""")
