#!/usr/bin/env python3
"""Show the findings the registered checks raise on one archived behaviour-preserving refactoring (debugging aid).
usage: tools/benign_show.py <benign-id> [Cnn ...]"""
import json, os, shutil, subprocess, sys
VERIF = os.path.dirname(os.path.dirname(os.path.abspath(__file__)))
bid = sys.argv[1]
d = os.path.join(VERIF, "benign", bid)
meta = json.load(open(os.path.join(d, "meta.json")))
props = sys.argv[2:] or [p for p, r in meta.get("checks", {}).items() if not r["silent"]] or [meta["property"]]
root = os.path.expanduser("~/.bsa-benign-show/%s" % bid)
repo = os.path.join(root, "repo")
shutil.rmtree(root, ignore_errors=True)
os.makedirs(repo)
p1 = subprocess.Popen(["git", "-C", "/repo", "archive", "HEAD"], stdout=subprocess.PIPE)
subprocess.check_call(["tar", "-x", "-C", repo], stdin=p1.stdout)
subprocess.check_call("patch -p1 -s < %s" % os.path.join(d, "patch.diff"), shell=True, cwd=repo)
try:
    for p in props:
        r = subprocess.run("./check %s --tier quick --repo %s" % (p, repo), shell=True, cwd=VERIF, env=dict(os.environ, BSA_EVIDENCE_DIR=os.path.join(root, "ev")),
                           stdout=subprocess.PIPE, stderr=subprocess.STDOUT, text=True)
        lines = r.stdout.split("\n")
        out = []
        for i, l in enumerate(lines):
            if l.startswith("FINDING "):
                out += [x[:int(os.environ.get("W", "260"))] for x in lines[i:i + 3]]
        print("\n".join(out[:int(os.environ.get("N", "18"))]))
        print(lines[-2] if len(lines) > 1 else "")
finally:
    if "--keep" not in sys.argv:
        shutil.rmtree(root, ignore_errors=True)
        import hashlib
        tag = hashlib.sha256(os.path.abspath(repo).encode()).hexdigest()[:8]
        shutil.rmtree(os.path.join(VERIF, "build", "target-" + tag), ignore_errors=True)
