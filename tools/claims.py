# Claim table (exec'd by gen_manifest.py). Keep in sync with DESIGN.md §4.
SOURCE_COMMITS = []
NOTES = ("Static analysis only: no check executes any function of bacon_sci, concretely or symbolically. "
         "Each check type-checks /repo's working tree through the facts driver (facts cached by the hash of every input file) "
         "and decides repo-specific rules over the resolved HIR. See DESIGN.md.")
PENDING = "check not built yet in this session (DESIGN.md §6 staging); will be claimed once its rules run"

claim("C19", "proof", "lin-form extraction of the stencil + exact moment/Peano-kernel obligations (sympy rationals)",
      "Proves, for symbolic x, h and an uninterpreted f, that the two finite-difference formulas in the source are linear in f, exact on polynomials up to degree 4 / 3 and satisfy the classical remainder bounds (Peano kernel integral computed exactly). Static: the stencil is read from the type-checked body, so the result holds for every input; rounding is not decided.",
      "trusted: rustc front end, facts driver serialisation, sympy exact arithmetic, Peano kernel theorem; real-number semantics (the ε|f|/h rounding term is outside the domain)",
      "DESIGN.md §3 C19")

for pid in ["C01","C02","C03","C05","C06","C07","C08","C09","C10","C11","C12","C13","C14","C15","C16","C17","C18","C20"]:
    NA[pid] = PENDING
NA["C04"] = ("bounds the global error by a problem-dependent constant times the tolerance over run-time step sequences; "
             "no sound static bound is in reach; its structural preconditions are decided under C02/C03/C06")
