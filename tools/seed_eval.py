#!/usr/bin/env python3
"""Confirm and archive a seeded mutation produced by a sub-agent, then run our check against it.

usage: tools/seed_eval.py <seed-id> <property> <worktree> <demo-test-name> [--needs "..."]
Steps (all confirmation runs happen in the sub-agent's scratch worktree, never in /repo):
  1. the patch (git diff -- src in the worktree) is non-empty and touches only src/ (or build.rs/codata.txt)
  2. with the patch: `cargo test --offline --lib` + doc tests green, the demo test FAILS
  3. without the patch (git stash): the demo test PASSES
  4. copy patch.diff, the demo and NOTES.md to /verif/seeded/<seed-id>/
  5. apply the patch to /repo, run ./check <property> --tier quick (and any extra properties), undo with git checkout
  6. write meta.json
"""
import json, os, shutil, subprocess, sys, time

VERIF = os.path.dirname(os.path.dirname(os.path.abspath(__file__)))


def sh(cmd, cwd=None, env=None, timeout=3000):
    r = subprocess.run(cmd, shell=True, cwd=cwd, env=env, stdout=subprocess.PIPE, stderr=subprocess.STDOUT, text=True, timeout=timeout)
    return r.returncode, r.stdout


def main():
    seed, prop, wt, demo = sys.argv[1:5]
    needs = sys.argv[sys.argv.index("--needs") + 1] if "--needs" in sys.argv else ""
    extra = sys.argv[sys.argv.index("--also") + 1].split(",") if "--also" in sys.argv else []
    env = dict(os.environ, CARGO_TARGET_DIR=os.path.join(wt, "target"), CARGO_NET_OFFLINE="true")
    meta = {"seed": seed, "property": prop, "needs_to_manifest": needs, "confirmed": {}, "checks": {}}
    rc, diff = sh("git diff -- src build.rs codata.txt", cwd=wt)
    if not diff.strip():
        print("empty patch"); return 1
    rc1, out1 = sh("cargo test --offline --lib 2>&1 | tail -5", cwd=wt, env=env)
    suite_ok = "test result: ok" in out1 and " 0 failed" in out1
    rcd, outd = sh("cargo test --offline --doc 2>&1 | tail -3", cwd=wt, env=env)
    doc_ok = "test result: ok" in outd
    rc2, out2 = sh("cargo test --offline --test %s 2>&1 | tail -15" % demo, cwd=wt, env=env)
    demo_fails_with = "test result: FAILED" in out2 or "panicked" in out2
    # the stash stack is shared by all worktrees of one repository: undo/redo with the patch itself instead
    tmp_patch = os.path.join(wt, ".seed_eval.patch")
    open(tmp_patch, "w").write(diff)
    rcr, outr = sh("git apply -R %s" % tmp_patch, cwd=wt)
    if rcr != 0:
        print("cannot reverse the patch:", outr); return 1
    try:
        rc3, out3 = sh("cargo test --offline --test %s 2>&1 | tail -8" % demo, cwd=wt, env=env)
    finally:
        sh("git apply %s" % tmp_patch, cwd=wt)
        os.remove(tmp_patch)
    demo_passes_without = "test result: ok" in out3 and "FAILED" not in out3
    meta["confirmed"] = {"unit_tests_green_with_change": suite_ok, "doc_tests_green_with_change": doc_ok, "demo_fails_with_change": demo_fails_with,
                         "demo_passes_without_change": demo_passes_without,
                         "ran": ["cargo test --offline --lib", "cargo test --offline --doc", "cargo test --offline --test " + demo, "git apply -R patch; cargo test --offline --test %s; git apply patch" % demo]}
    print(json.dumps(meta["confirmed"], indent=1))
    ok = suite_ok and doc_ok and demo_fails_with and demo_passes_without
    dst = os.path.join(VERIF, "seeded", seed)
    if ok:
        os.makedirs(dst, exist_ok=True)
        open(os.path.join(dst, "patch.diff"), "w").write(diff)
        shutil.copy(os.path.join(wt, "tests", demo + ".rs"), os.path.join(dst, demo + ".rs"))
        if os.path.exists(os.path.join(wt, "NOTES.md")):
            shutil.copy(os.path.join(wt, "NOTES.md"), os.path.join(dst, "NOTES.md"))
    else:
        print("NOT CONFIRMED\n", out1[-600:], outd[-300:], out2[-800:], out3[-600:])
        return 1
    # run our checks against it in /repo
    rc, st = sh("git -C /repo status --porcelain")
    if st.strip():
        print("/repo is dirty, refusing"); return 1
    rc, ap = sh("git -C /repo apply %s" % os.path.join(dst, "patch.diff"))
    if rc != 0:
        print("patch does not apply to /repo:", ap); return 1
    try:
        for p in [prop] + extra:
            t0 = time.time()
            e = dict(os.environ, BSA_EVIDENCE_DIR=os.path.join(os.path.expanduser("~"), ".bsa-seed-evidence"))
            os.makedirs(e["BSA_EVIDENCE_DIR"], exist_ok=True)
            rc, out = sh("./check %s --tier quick" % p, cwd=VERIF, env=e)
            keys = [l.split()[1] for l in out.split("\n") if l.startswith("FINDING ")]
            meta["checks"][p] = {"exit": rc, "violation": "VIOLATION property=%s" % p in out, "finding_keys": keys[:12], "wall_s": round(time.time() - t0, 1)}
            print(p, "exit", rc, "keys", keys[:6])
    finally:
        sh("git -C /repo checkout -- .")
        shutil.rmtree(os.path.join(os.path.expanduser("~"), ".bsa-seed-evidence"), ignore_errors=True)
    meta["caught_by_registered_check"] = bool(meta["checks"].get(prop, {}).get("violation"))
    json.dump(meta, open(os.path.join(dst, "meta.json"), "w"), indent=1)
    print("caught:", meta["caught_by_registered_check"])
    return 0


if __name__ == "__main__":
    sys.exit(main())
