#!/usr/bin/env python3
"""Prompt for a sub-agent that produces behaviour-preserving refactorings (false-alarm side of the campaign, DESIGN.md §7b).
usage: tools/refactor_prompt.py <Cnn> "<focus>" [--deep]      (the agent sees /tmp/prop-<Cnn>.txt and the worktree /tmp/wt-<Cnn> only)"""
import sys
pid, focus = sys.argv[1], sys.argv[2]
deep = "--deep" in sys.argv
kinds = ("renaming locals; extracting a small private helper function or closure; replacing an index loop by an iterator chain or vice versa; reordering independent statements; "
         "compound assignment vs explicit assignment; hoisting or inlining a constant; `a * a` vs `a.powi(2)`; restructuring an if / else-if chain or using early returns / `match`; "
         "replacing `x.is_sign_positive()` style tests by an equivalent formulation ONLY if it is equivalent for every input including +0.0 / -0.0; introducing a temporary for a repeated sub-expression")
if deep:
    kinds = ("Go beyond renaming, and combine several kinds in one refactoring: restructure loops (`while` vs `loop` + break vs `for` with early return, up-counter vs down-counter), restructure conditionals "
             "(if/else chains vs `match` vs early `continue`/`return`, `let ... else`, `matches!`, Option/Result combinators vs explicit matches), extract private helper functions, methods or closures "
             "(also helpers shared by several call sites), replace index loops by iterator chains (`zip`, `enumerate`, `windows`, `fold`, `for_each`) or vice versa, rename locals AND restructure in the same "
             "change, tuple/destructuring assignment, `std::mem::swap/replace/take`, references to elements (`let c = &mut v[i]; *c += h`), temporaries for repeated sub-expressions, moving pure statements")
print(f"""You are helping test a verification tool for false alarms. Work ONLY inside the git worktree /tmp/wt-{pid} (a checkout of the Rust crate `bacon-sci`). Do not read or touch anything under /verif or /repo. There is no network; use `cargo ... --offline` and set CARGO_TARGET_DIR=/tmp/wt-{pid}/target. Do NOT use `git stash`.

Read the property in /tmp/prop-{pid}.txt to see which code it is about ({focus}). Your job is the OPPOSITE of breaking it: produce FOUR independent BEHAVIOUR-PRESERVING refactorings of that code, the kind of clean-up a maintainer might do in a pull request. {kinds}. Each refactoring should touch a dozen to a few dozen lines and must NOT change the behaviour of any public function for any input (same results bit for bit as far as floating point goes — do not reassociate or reorder floating-point operations —, same errors and panics, same number and order of user-callback evaluations).

For each refactoring k = 1..4: start from the pristine tree (`git checkout -- .`), make the change, check `CARGO_TARGET_DIR=/tmp/wt-{pid}/target cargo test --offline --lib` (72 passed) and `cargo test --offline --doc` (23 passed), then save `git diff -- src build.rs > /tmp/wt-{pid}/refactor{{k}}.diff`. At the end leave the tree pristine (`git checkout -- .`) with the four diff files present, and write /tmp/wt-{pid}/NOTES.md explaining for each refactoring what it does and why it is behaviour-preserving. Make the four refactorings different in kind and spread over different functions relevant to the property. If you can, confirm bit-identical behaviour against the pristine tree with a throw-away harness (delete it afterwards). In your final answer list the four refactorings in one line each.""")
