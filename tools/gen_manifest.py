#!/usr/bin/env python3
"""Regenerate MANIFEST.json from the claim table below (keeps it schema-valid at all times)."""
import json, os, sys
HERE = os.path.dirname(os.path.dirname(os.path.abspath(__file__)))

BASELINE = ("cd /repo && cargo test --workspace --no-fail-fast --offline")

# id -> (level, technique, text, note, design_ref)
CLAIMS = {}
NA = {}

def claim(pid, level, technique, text, note, ref):
    CLAIMS[pid] = (level, technique, text, note, ref)

exec(open(os.path.join(HERE, "tools", "claims.py")).read())

checks = []
for pid in sorted(CLAIMS):
    level, technique, text, note, ref = CLAIMS[pid]
    checks.append({
        "property_id": pid,
        "quick_cmd": "./check %s --tier quick" % pid,
        "thorough_cmd": "./check %s --tier thorough" % pid,
        "evidence_file": "evidence/%s.json" % pid,
        "replay_cmd_template": "./check %s --replay {path}" % pid,
        "engine": "bsa",
        "level_claimed": {"category": level, "text": text, "design_ref": ref},
        "level_note": note,
        "technique": technique,
    })
man = {
    "version": 1,
    "setup_cmd": "./setup.sh",
    "hooks": {
        "guard": "bacon_verif",
        "enable": "n/a: static analysis of the unmodified build (cargo +nightly check through the facts driver); no instrumentation exists in /repo",
        "baseline_off_cmd": BASELINE,
        "source_commits": SOURCE_COMMITS,
        "add_only": True,
    },
    "engines": [
        {"name": "facts-driver", "path": "engine/facts-driver", "serves_properties": sorted(CLAIMS),
         "kind_free_text": "rustc_private compiler driver (RUSTC_WORKSPACE_WRAPPER) dumping the type-checked HIR with resolved callees, types, literals and re-sugared for/while/? as JSON"},
        {"name": "bsa", "path": "bsa", "serves_properties": sorted(CLAIMS),
         "kind_free_text": "repo-specific static rules in Python over the facts: exact-rational constant folding, symbolic lin-form normal forms (sympy), structured-CFG dominance/guard rules, sibling comparison, typestate"},
        {"name": "refs", "path": "refs", "serves_properties": ["C02", "C03", "C10", "C20"],
         "kind_free_text": "reference mathematics derived/validated by code on every run (order conditions, multistep generators, Gauss rules to 60 digits, DE formula, NIST listing parser)"},
    ],
    "checks": checks,
    "not_applicable": [{"property_id": k, "reason": v} for k, v in sorted(NA.items())],
    "notes": NOTES,
}
json.dump(man, open(os.path.join(HERE, "MANIFEST.json"), "w"), indent=1)
print("MANIFEST.json: %d checks, %d not_applicable" % (len(checks), len(NA)))
