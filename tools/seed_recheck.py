#!/usr/bin/env python3
"""Re-run the registered quick checks against every archived seeded mutation (apply to /repo, check, undo) and update meta.json.
usage: tools/seed_recheck.py [seed-id ...]"""
import json, os, shutil, subprocess, sys, time
VERIF = os.path.dirname(os.path.dirname(os.path.abspath(__file__)))


def sh(cmd, cwd=None, env=None):
    r = subprocess.run(cmd, shell=True, cwd=cwd, env=env, stdout=subprocess.PIPE, stderr=subprocess.STDOUT, text=True)
    return r.returncode, r.stdout


def main():
    ids = sys.argv[1:] or sorted(os.listdir(os.path.join(VERIF, "seeded")))
    rc, st = sh("git -C /repo status --porcelain")
    if st.strip():
        print("/repo is dirty, refusing"); return 1
    bad = 0
    for sid in ids:
        d = os.path.join(VERIF, "seeded", sid)
        mp = os.path.join(d, "meta.json")
        if not os.path.exists(mp):
            continue
        meta = json.load(open(mp))
        rc, ap = sh("git -C /repo apply %s" % os.path.join(d, "patch.diff"))
        if rc != 0:
            print(sid, "patch no longer applies:", ap.strip()[:200]); bad += 1; continue
        try:
            ev = os.path.join(os.path.expanduser("~"), ".bsa-seed-evidence")
            os.makedirs(ev, exist_ok=True)
            for p in list(meta["checks"].keys()) or [meta["property"]]:
                t0 = time.time()
                rc, out = sh("./check %s --tier quick" % p, cwd=VERIF, env=dict(os.environ, BSA_EVIDENCE_DIR=ev))
                keys = [l.split()[1] for l in out.split("\n") if l.startswith("FINDING ")]
                meta["checks"][p] = {"exit": rc, "violation": "VIOLATION property=%s" % p in out, "finding_keys": keys[:12], "wall_s": round(time.time() - t0, 1)}
        finally:
            sh("git -C /repo checkout -- .")
            shutil.rmtree(ev, ignore_errors=True)
        meta["caught_by_registered_check"] = bool(meta["checks"].get(meta["property"], {}).get("violation"))
        meta["caught_by"] = sorted(p for p, c in meta["checks"].items() if c["violation"])
        json.dump(meta, open(mp, "w"), indent=1)
        print("%-36s %-4s caught=%s by %s  keys=%s" % (sid, meta["property"], meta["caught_by_registered_check"], meta["caught_by"], meta["checks"][meta["property"]]["finding_keys"][:2]))
        if not meta["caught_by_registered_check"]:
            bad += 1
    return 0


if __name__ == "__main__":
    sys.exit(main())
