#!/usr/bin/env python3
"""Re-run the registered quick checks against every archived seeded mutation and update meta.json.

Each worker owns a scratch copy of /repo's committed HEAD under ~/.bsa-seeds/w<k>/repo (never /repo itself): apply the patch there, run
`./check <prop> --tier quick --repo <scratch>` with a private evidence directory, reverse the patch.
usage: tools/seed_recheck.py [-j N] [seed-id ...]"""
import json, os, shutil, subprocess, sys, time
from concurrent.futures import ThreadPoolExecutor
VERIF = os.path.dirname(os.path.dirname(os.path.abspath(__file__)))
ROOT = os.path.expanduser("~/.bsa-seeds")


def sh(cmd, cwd=None, env=None):
    r = subprocess.run(cmd, shell=True, cwd=cwd, env=env, stdout=subprocess.PIPE, stderr=subprocess.STDOUT, text=True)
    return r.returncode, r.stdout


def scratch(k):
    d = os.path.join(ROOT, "w%d" % k, "repo")
    shutil.rmtree(os.path.dirname(d), ignore_errors=True)
    os.makedirs(d)
    p1 = subprocess.Popen(["git", "-C", "/repo", "archive", "HEAD"], stdout=subprocess.PIPE)
    subprocess.check_call(["tar", "-x", "-C", d], stdin=p1.stdout)
    p1.wait()
    return d


def work(k, ids):
    repo = scratch(k)
    ev = os.path.join(ROOT, "w%d" % k, "evidence")
    os.makedirs(ev, exist_ok=True)
    out_lines = []
    for sid in ids:
        d = os.path.join(VERIF, "seeded", sid)
        mp = os.path.join(d, "meta.json")
        if not os.path.exists(mp):
            continue
        meta = json.load(open(mp))
        patch = os.path.join(d, "patch.diff")
        rc, ap = sh("patch -p1 --no-backup-if-mismatch -s < %s" % patch, cwd=repo)
        if rc != 0:
            out_lines.append("%s patch no longer applies: %s" % (sid, ap.strip()[:200]))
            sh("patch -p1 -R --no-backup-if-mismatch -s < %s" % patch, cwd=repo)
            scratch(k)
            continue
        try:
            for p in list(meta["checks"].keys()) or [meta["property"]]:
                t0 = time.time()
                rc, out = sh("./check %s --tier quick --repo %s" % (p, repo), cwd=VERIF, env=dict(os.environ, BSA_EVIDENCE_DIR=ev))
                keys = [l.split()[1] for l in out.split("\n") if l.startswith("FINDING ")]
                meta["checks"][p] = {"exit": rc, "violation": "VIOLATION property=%s" % p in out, "finding_keys": keys[:12], "wall_s": round(time.time() - t0, 1)}
        finally:
            rc, _ = sh("patch -p1 -R --no-backup-if-mismatch -s < %s" % patch, cwd=repo)
            if rc != 0:
                scratch(k)
        meta["caught_by_registered_check"] = bool(meta["checks"].get(meta["property"], {}).get("violation"))
        meta["caught_by"] = sorted(p for p, c in meta["checks"].items() if c["violation"])
        json.dump(meta, open(mp, "w"), indent=1)
        out_lines.append("%-42s %-4s caught=%s by %s  keys=%s" % (sid, meta["property"], meta["caught_by_registered_check"], meta["caught_by"],
                                                                     meta["checks"][meta["property"]]["finding_keys"][:2]))
        print(out_lines[-1], flush=True)
    return out_lines


def main():
    args = sys.argv[1:]
    jobs = 6
    if "-j" in args:
        jobs = int(args[args.index("-j") + 1])
        del args[args.index("-j"):args.index("-j") + 2]
    ids = args or sorted(os.listdir(os.path.join(VERIF, "seeded")))
    jobs = max(1, min(jobs, len(ids)))
    chunks = [ids[i::jobs] for i in range(jobs)]
    try:
        with ThreadPoolExecutor(jobs) as ex:
            res = list(ex.map(lambda a: work(*a), enumerate(chunks)))
    finally:
        shutil.rmtree(ROOT, ignore_errors=True)
        # the scratch copies' private cargo target directories live under build/
        import hashlib
        for k in range(jobs):
            tag = hashlib.sha256(os.path.abspath(os.path.join(ROOT, "w%d" % k, "repo")).encode()).hexdigest()[:8]
            shutil.rmtree(os.path.join(VERIF, "build", "target-" + tag), ignore_errors=True)
    lines = [l for r in res for l in r]
    n_ok = sum(1 for l in lines if "caught=True" in l)
    print("seeds: %d, caught: %d, not caught / not applicable: %d" % (len(lines), n_ok, len(lines) - n_ok))
    for l in lines:
        if "caught=True" not in l:
            print("  !!", l)
    return 0


if __name__ == "__main__":
    sys.exit(main())
