#!/usr/bin/env python3
"""Evaluate behaviour-preserving refactorings produced by sub-agents (false-alarm side of the campaign, DESIGN.md §7).

usage: tools/refactor_eval.py <prop> <worktree>      # archives <worktree>/refactor*.diff as benign/<prop>-r<k>/ and evaluates them
       tools/refactor_eval.py --recheck [-j N]       # re-evaluates the whole archive
Each patch is applied to a scratch copy of /repo's HEAD (never /repo); the crate's own tests are run there first (72 + 23 must pass: a
refactoring that changes behaviour the suite can see is rejected), then every registered quick check whose files the patch touches is run
and must stay silent (exit 0, no VIOLATION).
"""
import json, os, re, shutil, subprocess, sys, time
from concurrent.futures import ThreadPoolExecutor
VERIF = os.path.dirname(os.path.dirname(os.path.abspath(__file__)))
ROOT = os.path.expanduser("~/.bsa-benign")
BY_FILE = [("src/ivp", ["C01", "C02", "C03", "C05", "C06"]), ("src/roots/polynomial.rs", ["C08", "C14"]), ("src/roots", ["C07", "C08"]),
           ("src/integrate", ["C09", "C10"]), ("src/polynomial", ["C11", "C12", "C13", "C14", "C15", "C18"]), ("src/interp", ["C15", "C16"]),
           ("src/optimize", ["C17"]), ("src/special", ["C14", "C18"]), ("src/differentiate", ["C19"]), ("src/constants", ["C20"]), ("build.rs", ["C20"])]


def sh(cmd, cwd=None, env=None):
    r = subprocess.run(cmd, shell=True, cwd=cwd, env=env, stdout=subprocess.PIPE, stderr=subprocess.STDOUT, text=True)
    return r.returncode, r.stdout


def scratch(k):
    d = os.path.join(ROOT, "w%d" % k, "repo")
    shutil.rmtree(os.path.dirname(d), ignore_errors=True)
    os.makedirs(d)
    p1 = subprocess.Popen(["git", "-C", "/repo", "archive", "HEAD"], stdout=subprocess.PIPE)
    subprocess.check_call(["tar", "-x", "-C", d], stdin=p1.stdout)
    p1.wait()
    return d


def props_for(patch_text, own):
    files = re.findall(r"^\+\+\+ b/(\S+)", patch_text, re.M)
    out = [own] if own != "C04" else []          # C04 is not_applicable: no check of its own
    for f in files:
        for pre, ps in BY_FILE:
            if f.startswith(pre):
                out += ps
                break
    return sorted(set(out))


def evaluate(k, ids):
    repo = scratch(k)
    ev = os.path.join(ROOT, "w%d" % k, "evidence")
    os.makedirs(ev, exist_ok=True)
    lines = []
    for bid in ids:
        d = os.path.join(VERIF, "benign", bid)
        patch = os.path.join(d, "patch.diff")
        meta = json.load(open(os.path.join(d, "meta.json")))
        rc, ap = sh("patch -p1 --no-backup-if-mismatch -s < %s" % patch, cwd=repo)
        if rc != 0:
            meta["applies"] = False
            lines.append("%-12s patch does not apply to HEAD" % bid)
            repo = scratch(k)
            json.dump(meta, open(os.path.join(d, "meta.json"), "w"), indent=1)
            continue
        meta["applies"] = True
        try:
            if "--no-tests" not in sys.argv:
                env = dict(os.environ, CARGO_TARGET_DIR=os.path.join(ROOT, "w%d" % k, "target"), CARGO_NET_OFFLINE="true")
                rc1, o1 = sh("cargo test --offline 2>&1 | grep -E '^test result' ", cwd=repo, env=env)
                meta["suite"] = o1.strip().split("\n")
                meta["suite_green"] = o1.count("test result: ok") >= 2 and "FAILED" not in o1
            res = {}
            for p in props_for(open(patch).read(), meta["property"]):
                t0 = time.time()
                rc, out = sh("./check %s --tier quick --repo %s" % (p, repo), cwd=VERIF, env=dict(os.environ, BSA_EVIDENCE_DIR=ev))
                keys = [l.split()[1] for l in out.split("\n") if l.startswith("FINDING ")]
                res[p] = {"exit": rc, "silent": rc == 0 and "VIOLATION" not in out, "finding_keys": keys[:8], "wall_s": round(time.time() - t0, 1)}
            meta["checks"] = res
            meta["all_silent"] = all(r["silent"] for r in res.values())
        finally:
            rc, _ = sh("patch -p1 -R --no-backup-if-mismatch -s < %s" % patch, cwd=repo)
            if rc != 0:
                repo = scratch(k)
        json.dump(meta, open(os.path.join(d, "meta.json"), "w"), indent=1)
        noisy = {p: r["finding_keys"][:2] for p, r in meta["checks"].items() if not r["silent"]}
        lines.append("%-12s suite_green=%s silent=%s %s" % (bid, meta.get("suite_green"), meta["all_silent"], noisy if noisy else ""))
        print(lines[-1], flush=True)
    return lines


def main():
    args = [a for a in sys.argv[1:] if a != "--no-tests"]
    os.makedirs(os.path.join(VERIF, "benign"), exist_ok=True)
    jobs = 6
    if "-j" in args:
        jobs = int(args[args.index("-j") + 1])
        del args[args.index("-j"):args.index("-j") + 2]
    if args and args[0] == "--recheck":
        ids = sorted(os.listdir(os.path.join(VERIF, "benign")))
        if len(args) > 1:
            ids = [i for i in ids if i in args[1:]]          # --recheck <id> ...: only these
    else:
        prop, wt = args[0], args[1]
        ids = []
        notes = os.path.join(wt, "NOTES.md")
        for f in sorted(os.listdir(wt)):
            m = re.match(r"refactor(\d+)\.diff$", f)
            if not m or not open(os.path.join(wt, f)).read().strip():
                continue
            bid = "%s-r%s-%s" % (prop.lower(), m.group(1), time.strftime("%H%M"))
            d = os.path.join(VERIF, "benign", bid)
            os.makedirs(d, exist_ok=True)
            shutil.copy(os.path.join(wt, f), os.path.join(d, "patch.diff"))
            if os.path.exists(notes):
                shutil.copy(notes, os.path.join(d, "NOTES.md"))
            json.dump({"id": bid, "property": prop, "kind": "behaviour-preserving refactoring by a sub-agent"}, open(os.path.join(d, "meta.json"), "w"), indent=1)
            ids.append(bid)
    jobs = max(1, min(jobs, len(ids)))
    try:
        with ThreadPoolExecutor(jobs) as ex:
            res = list(ex.map(lambda a: evaluate(*a), enumerate([ids[i::jobs] for i in range(jobs)])))
    finally:
        import hashlib
        for k in range(jobs):
            tag = hashlib.sha256(os.path.abspath(os.path.join(ROOT, "w%d" % k, "repo")).encode()).hexdigest()[:8]
            shutil.rmtree(os.path.join(VERIF, "build", "target-" + tag), ignore_errors=True)
        shutil.rmtree(ROOT, ignore_errors=True)
    lines = [l for r in res for l in r]
    bad = [l for l in lines if "silent=True" not in l]
    print("refactorings: %d, silent: %d, not silent / rejected: %d" % (len(lines), len(lines) - len(bad), len(bad)))
    for l in bad:
        print("  !!", l)
    return 0


if __name__ == "__main__":
    sys.exit(main())
