#!/usr/bin/env python3
"""Write refs/locals.json: for every function the rules look into, the local bindings of today's tree with a rename-invariant fingerprint.
Used by bsa.hir.Facts to give renamed locals their reference names back (role names of the instance tables), see DESIGN.md §2.
usage: tools/gen_local_ref.py   (run when /repo legitimately changes)"""
import json, os, sys
VERIF = os.path.dirname(os.path.dirname(os.path.abspath(__file__)))
sys.path.insert(0, VERIF)
from bsa import build, hir

F = hir.Facts(*build.get_facts("quick", "/repo"), canonicalise=False)
out = {}
for b in F.bodies:
    if not b["file"].startswith("src/") or "/tests/" in b["file"] or b["path"].endswith("::test") or "::test::" in b["path"]:
        continue
    loc = hir.local_fingerprints(b)
    if loc:
        out[b["path"] + "|" + (b.get("impl_self") or "") + "|" + (b.get("impl_trait") or "")] = loc
json.dump(out, open(os.path.join(VERIF, "refs", "locals.json"), "w"), indent=0, sort_keys=True)
# every function of the reference tree (a function that is *not* in this list is a helper introduced later: bsa.hir inlines those back)
fns = sorted({b["path"] for b in F.bodies if b.get("kind", "fn") not in ("const", "static")})
json.dump(fns, open(os.path.join(VERIF, "refs", "functions.json"), "w"), indent=0)
print("functions:", len(out), "locals:", sum(len(v) for v in out.values()))
