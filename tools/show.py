#!/usr/bin/env python3
"""debug helper: ./tools_show.py <path-regex>  -> pseudo-Rust rendering of matching bodies"""
import sys
import sys, os; sys.path.insert(0, os.path.dirname(os.path.dirname(os.path.abspath(__file__))))
from bsa import build, hir
facts, meta = build.get_facts("quick")
F = hir.Facts(facts, meta)
for b in F.find(sys.argv[1]):
    print("=== %s  [%s | %s]  %s:%d" % (b["path"], b.get("impl_self"), b.get("impl_trait"), b["file"], b["sp"][0]))
    print("  params:", [hir.pp_pat(p) for p in b["params"]])
    print("\n".join(hir.pp_body(b["body"], 1)))
