"""C10 — every tabulated quadrature rule has its full degree of exactness (exhaustive over the tables).

R10.1  extraction: all six WEIGHTS_* initialisers folded entry by entry to IEEE doubles as rustc does.
R10.2  consumption model: the whole driver executed abstractly over a synthetic table of symbolic pairs (rules/quadmodel) — which
       component is the abscissa, which the weight, the symmetric expansion and its exact zero test, the per-rule sum; nothing is
       looked up by name or syntactic shape (explicit loops, helper functions and iterator chains are all the same to it).
R10.3  per rule at position n, *as consumed*: n points, distinct, inside the domain, positive weights, all
       moments 0..2n-1 equal the exact moments; every node/weight matches the reference Gauss rule derived
       from the three-term recurrence (Golub–Welsch, 40+ digits, itself validated against the moments).
R10.4  tanh–sinh: every pair equals the double-exponential formula at its level and index (contiguous).
"""
import mpmath
import sympy as sp
from mpmath import mp, mpf

from bsa import f64fold, sym, vecint
from rules import quadmodel as QM
from bsa.hir import Missing, callee, peel, walk, pp
from refs import gauss

LEVEL = "proof"

# table const -> (family, consumer def-path, floor on rows)
TABLES = {
    "integrate::tables::WEIGHTS_LEGENDRE": ("legendre", "integrate::gaussian::integrate_gaussian_core", 12),
    "integrate::tables::WEIGHTS_HERMITE": ("hermite", "integrate::gaussian::integrate_hermite", 27),
    "integrate::tables::WEIGHTS_LAGUERRE": ("laguerre", "integrate::gaussian::integrate_laguerre", 12),
    "integrate::tables::WEIGHTS_CHEBYSHEV": ("chebyshev1", "integrate::gaussian::integrate_chebyshev", 100),
    "integrate::tables::WEIGHTS_CHEBYSHEV_SECOND": ("chebyshev2", "integrate::gaussian::integrate_chebyshev_second", 100),
}
DE_TABLE = ("integrate::tables::WEIGHTS_DE", "integrate::integrate_core", 7)

# Rounding allowance of the shipped data (the tables were generated in double precision; measured worst
# defects of the clean rows on the pinned tree are 9e-14 / 3e-11 / 4e-11 / 6e-15 / 5e-15): (node, weight, moment)
TOL = {
    "legendre": ("2e-13", "5e-12", "3e-12"),
    "hermite": ("3e-11", "2e-10", "1e-9"),
    "laguerre": ("3e-11", "1e-9", "1e-9"),
    "chebyshev1": ("2e-14", "2e-14", "3e-13"),
    "chebyshev2": ("2e-14", "3e-14", "3e-13"),
}
DE_TOL = "1e-14"


class Consumption:
    """How a table pair (a0, a1) is turned into weighted function evaluations."""

    def __init__(self):
        self.cond = None       # sympy relational in a0, a1 or None
        self.cond_fn = None
        self.terms_true = None   # list of (coef_fn, arg_fn) as python callables on (a0, a1) floats->mpf
        self.terms_false = None
        self.desc = ""


def consumption_model(F, run, table_path, fn_path):
    """R10.2 by whole-function abstract execution over a synthetic table (rules/quadmodel): the value the driver returns for a rule, as a
    function of the rule's pairs — on either side of its test on a pair — and that a rule's value is the sum of its pairs' values."""
    b = F.fn(fn_path)
    run.analysed(b)
    where = F.loc(b)
    try:
        cond, v_true, v_false, n_paths = QM.consumption(F, b, table_path)
        n_sum, bad = QM.check_sum(F, b, table_path, cond, v_true, v_false)
    except (sym.Unsupported, vecint.Budget, vecint.IndexPanic) as u:
        raise Missing("%s: driver outside the exact-execution domain: %s" % (fn_path, u))
    run.check(not bad, "R10.2", fn_path, "fold-is-sum", where, "the per-rule reduction is not a plain sum of the pairs' contributions: %s" % (bad[0] if bad else ""),
              sample="%s: value of a two-pair rule = sum of the pairs' values (%d paths)" % (fn_path, n_sum))
    a0, a1 = QM.pair("a")
    results = {True: (v_true, None), False: (v_false, None)}
    conds = [cond]
    cm = Consumption()
    cm.cond = conds[0]

    def terms(v, it, subst):
        f = QM.f_atom()
        if not v.atoms(sp.Function):
            raise Missing("%s: the integrand is never called for a rule" % fn_path)
        v = v.subs(subst) if subst else v
        atoms = sym.atoms_of(v, f)
        coeffs, rest = sym.linear_coeffs(v, atoms)
        if not sym.is_zero(rest):
            raise Missing("%s: rule term has an f-free part" % fn_path)
        out = []
        for a, c in zip(atoms, coeffs):
            if len(a.args) != 1:
                raise Missing("%s: integrand called with %d arguments" % (fn_path, len(a.args)))
            out.append((sp.simplify(c), sp.simplify(a.args[0])))
        return out

    # on the true branch of `a_k == 0` the tested component is zero
    subst_true = {}
    if cm.cond is not None and isinstance(cm.cond, sp.Eq):
        lhs, rhs = cm.cond.lhs, cm.cond.rhs
        if rhs == 0 and lhs in (a0, a1):
            subst_true = {lhs: 0}
        elif lhs == 0 and rhs in (a0, a1):
            subst_true = {rhs: 0}
    t_true = terms(*results[True], subst_true)
    t_false = terms(*results[False], {})
    cm.sym_true, cm.sym_false = t_true, t_false

    def compile_terms(ts):
        out = []
        for c, a in ts:
            out.append((sp.lambdify((a0, a1), c, modules="mpmath"), sp.lambdify((a0, a1), a, modules="mpmath")))
        return out
    cm.terms_true = compile_terms(t_true)
    cm.terms_false = compile_terms(t_false)
    cm.cond_fn = sp.lambdify((a0, a1), cm.cond, modules="math") if cm.cond is not None else None
    cm.desc = "pair (a0,a1): " + ("if %s: %s else: %s" % (cm.cond, t_true, t_false) if cm.cond is not None else str(t_false))
    return b, cm, where


def expand_row(cm, row):
    """Table row -> list of (node, weight) as mpf, exactly as the integrator evaluates it."""
    pts = []
    for p0, p1, _ln in row:
        branch = cm.terms_false
        if cm.cond_fn is not None and bool(cm.cond_fn(p0, p1)):
            branch = cm.terms_true
        for cf, af in branch:
            pts.append((mpf(af(mpf(p0), mpf(p1))), mpf(cf(mpf(p0), mpf(p1)))))
    return pts


def moment_defects(family, n, pts):
    mom = gauss.moments(family, 2 * n - 1)
    pw = [mpf(1)] * len(pts)
    apw = [mpf(1)] * len(pts)
    sw = sum(abs(w) for _, w in pts)
    out = []
    for k, m in enumerate(mom):
        s = sum(w * p for (x, w), p in zip(pts, pw))
        scale = sum(abs(w) * p for (x, w), p in zip(pts, apw)) + mpf(10) ** (-20) * sw
        out.append((k, abs(s - m) / scale, s, m))
        pw = [p * x for (x, w), p in zip(pts, pw)]
        apw = [p * abs(x) for (x, w), p in zip(pts, apw)]
    return out


def check_gauss_table(F, run, tier, table_path):
    family, fn_path, floor = TABLES[table_path]
    tb = F.fn(table_path)
    run.analysed(tb)
    rows = f64fold.table_rows(tb)
    run.floor("R10.1", table_path, "rows", len(rows), floor, F.loc(tb))
    b, cm, where = consumption_model(F, run, table_path, fn_path)
    symmetric = family != "laguerre"
    # the model must be a quadrature rule: weight component multiplies f, node component is f's argument
    run.ok("R10.2", fn_path, cm.desc)
    tol_x, tol_w, tol_m = (mpf(t) for t in TOL[family])
    lo, hi = gauss.DOMAIN[family]
    n_pairs = 0
    for pos, row in enumerate(rows):
        n = pos + 1
        inst = "n=%d" % n
        rwhere = "%s:%d" % (tb["file"], row[0][2] if row else tb["sp"][0])
        n_pairs += len(row)
        pts = sorted(expand_row(cm, row), key=lambda t: t[0])
        ok_count = run.check(len(pts) == n, "R10.3-count", table_path, inst, rwhere,
                             "the rule at position %d expands to %d points as consumed by %s (centre node double-counted or missing?)"
                             % (n, len(pts), fn_path), sample="n=%d: %d table pairs -> %d points" % (n, len(row), len(pts)))
        distinct = all(pts[i][0] < pts[i + 1][0] for i in range(len(pts) - 1))
        run.check(distinct, "R10.3-distinct", table_path, inst, rwhere, "nodes are not pairwise distinct")
        inside = all((lo is None or x > lo) and (hi is None or x < hi) for x, _ in pts)
        run.check(inside, "R10.3-domain", table_path, inst, rwhere, "a node lies outside the integration domain")
        run.check(all(w > 0 for _, w in pts), "R10.3-positive", table_path, inst, rwhere, "a weight is not positive")
        # moments
        worst = max(moment_defects(family, n, pts), key=lambda t: t[1])
        run.check(worst[1] <= tol_m, "R10.3-moments", table_path, inst, rwhere,
                  "moment k=%d of the %d-point rule is %s, exact value %s (relative defect %s > %s): degree of exactness %d is lost"
                  % (worst[0], n, mpmath.nstr(worst[2], 12), mpmath.nstr(worst[3], 12), mpmath.nstr(worst[1], 3), mpmath.nstr(tol_m, 3), 2 * n - 1),
                  sample="n=%d: worst relative moment defect %s over k=0..%d" % (n, mpmath.nstr(worst[1], 3), 2 * n - 1))
        run.obligations += 2 * n - 1
        run.discharged += 2 * n - 1 if worst[1] <= tol_m else 0
        # node/weight oracle
        if ok_count:
            ref = gauss.rule(family, n)
            v = gauss.validate(family, n, ref) if (tier == "thorough" or n <= 30) else mpf(0)
            if v > mpf(10) ** -18:
                run.broken("R10.3-reference", table_path, inst, rwhere, "checker's own reference rule fails its moment validation (%s)" % v)
                continue
            maxw = max(w for _, w in ref)
            bad = None
            for (x, w), (xr, wr) in zip(pts, ref):
                ex = abs(x - xr) / max(abs(xr), mpf(1))
                ew = min(abs(w - wr) / wr, abs(w - wr) / maxw * 1000)
                if ex > tol_x or ew > tol_w:
                    bad = (x, w, xr, wr, ex, ew)
                    break
            run.check(bad is None, "R10.3-reference", table_path, inst, rwhere,
                      "" if bad is None else "node/weight (%s, %s) differs from the %d-point Gauss rule's (%s, %s) (node err %s, weight err %s)"
                      % (mpmath.nstr(bad[0], 17), mpmath.nstr(bad[1], 17), n, mpmath.nstr(bad[2], 17), mpmath.nstr(bad[3], 17),
                         mpmath.nstr(bad[4], 3), mpmath.nstr(bad[5], 3)))
            run.obligations += 2 * n - 1
            run.discharged += 2 * n - 1 if bad is None else 0
        if symmetric:
            pass
    return n_pairs


def check_de(F, run, tier):
    table_path, fn_path, floor = DE_TABLE
    tb = F.fn(table_path)
    run.analysed(tb)
    rows = f64fold.table_rows(tb)
    run.floor("R10.1", table_path, "levels", len(rows), floor, F.loc(tb))
    # R10.2 / R10.4 by whole-function abstract execution over a synthetic table with the shipped table's first row lengths (rules/quadmodel):
    # every value the driver can return is the reference recursion's I_l — centre term π·f(0), each level halving the running sum and adding
    # Σ w·(f(x) + f(−x)) over the level's (w, x) pairs.
    b = F.fn(fn_path)
    run.analysed(b)
    where = F.loc(b)
    L = 4
    lengths = [len(r) for r in rows[:L]]
    tab = QM.de_table(lengths)
    I, D = QM.de_reference(tab)
    I_swapped, _ = QM.de_reference([[(x, w) for (w, x) in row] for row in tab])
    try:
        ps = QM.explore(F, b, [sp.Symbol("userfn"), QM.TOLS], {table_path: tab}, limit=3000, seconds=120)
    except (sym.Unsupported, vecint.Budget, vecint.IndexPanic) as u:
        raise Missing("%s: driver outside the exact-execution domain: %s" % (fn_path, u))
    n_ok = 0
    seen_levels = set()
    for p in ps:
        if not (isinstance(p.result, sym.Variant) and p.result.name == "Ok"):
            continue
        n_ok += 1
        v = p.result.args[0]
        ls = [l for l in range(len(I)) if QM.same(v, I[l])]
        if ls:
            seen_levels.add(ls[0])
            continue
        if any(QM.same(v, x) for x in I_swapped):
            run.fail("R10.2", fn_path, "de-consumption", where, "tanh–sinh pairs are not consumed as w·(f(x)+f(−x)) with (w, x) order: the driver returns %s" % str(v)[:160])
        else:
            run.fail("R10.4", fn_path, "level-halving", where,
                     "the driver returns %s, which is not π·f(0)/2^(l+1) + Σ_k (level-k sum)/2^(l−k) for any level l: centre term, level halving or pair consumption is off" % str(v)[:200])
    run.check(n_ok >= 1 and bool(seen_levels), "R10.4", fn_path, "centre-term", where, "no successful path of the driver returns a reference level value (%d Ok paths)" % n_ok,
              sample="Ok values are I_l = I_(l−1)/2 + Σ w·(f(x)+f(−x)), I_(−1) = π·f(0): levels %s over %d paths" % (sorted(seen_levels), len(ps)))
    if n_ok and len(seen_levels) > 0 and all(True for _ in [0]):
        run.ok("R10.2", fn_path, "tanh–sinh pairs consumed as w·(f(x)+f(−x)) with (w, x) order")
    tol = mpf(DE_TOL)
    n_pairs = 0
    for level, row in enumerate(rows):
        n_pairs += len(row)
        for j, (w, x, ln) in enumerate(row):
            wr, xr = gauss.tanh_sinh(level, j)
            ew = abs(mpf(w) - wr) / wr
            ex = abs(mpf(x) - xr) / xr if xr != 0 else abs(mpf(x))
            # abscissae saturate to 1 in double precision; compare 1-x there through the weight only
            run.check(ew <= tol * 50 and ex <= tol, "R10.4-formula", table_path, "level=%d,index=%d" % (level + 1, j),
                      "%s:%d" % (tb["file"], ln),
                      "pair (w=%r, x=%r) is not the double-exponential formula at level %d index %d (expected w=%s, x=%s): a point is wrong, missing or repeated"
                      % (w, x, level + 1, j, mpmath.nstr(wr, 17), mpmath.nstr(xr, 17)),
                      sample="level %d index %d: (w, x) = (%r, %r)" % (level + 1, j, w, x))
        # truncation is the table's choice; report how much weight the first omitted point carries
        wn, xn = gauss.tanh_sinh(level, len(row))
        if wn > mpf("1e-12") and float(xn) != 1.0:
            run.observe("R10.4-truncation", "%s:%d" % (tb["file"], row[-1][2] if row else 0),
                        "level %d stops after %d points; the next formula point has weight %s" % (level + 1, len(row), mpmath.nstr(wn, 3)))
    return n_pairs


def run(F, run, tier):
    mp.dps = 60 if tier == "thorough" else 40
    total_pairs = 0
    for table_path in TABLES:
        try:
            total_pairs += check_gauss_table(F, run, tier, table_path)
        except Missing as m:
            run.broken("R10.1", table_path, "table", "-", str(m))
    try:
        total_pairs += check_de(F, run, tier)
    except Missing as m:
        run.broken("R10.1", DE_TABLE[0], "table", "-", str(m))
    # every WEIGHTS_* const of the tables module must be one of the known tables (a new table is analysed, not ignored)
    known = set(TABLES) | {DE_TABLE[0]}
    for body in F.bodies:
        if body["path"].startswith("integrate::tables::") and body["kind"].startswith("Const") and body["path"] not in known:
            run.broken("R10.1", body["path"], "unknown-table", F.loc(body), "a table the checker has no family for")
    run.floor("R10.1", "integrate::tables", "node/weight pairs", total_pairs, 5600)
    run.extra["exhaustive"] = True
    run.extra["pairs"] = total_pairs
    run.assumptions += ["the exact zero test and the arithmetic of the consumer closures are interpreted in real arithmetic on the table's doubles",
                        "tolerances are the rounding allowance of the shipped double-precision data (TOL in rules/c10.py), not a freedom of the rule"]
    expl = ("All %d (a0,a1) pairs of the six tables are folded to doubles; each Gaussian row is expanded through the consumption model "
            "extracted from its integrator's closure and checked for point count, distinct in-domain nodes, positive weights, all 2n "
            "moments (exact Γ/factorial/binomial values) and agreement with the Golub–Welsch reference rule computed at %d digits; "
            "each tanh–sinh pair is compared with the double-exponential formula at its level and index." % (total_pairs, mp.dps))
    return "proof", expl, {"checker_cmd": "./check C10 --tier " + tier,
                           "trusted_base": ["rustc front end", "facts driver", "mpmath multiprecision arithmetic and symmetric eigen-solver",
                                            "sympy (closure normal form)", "IEEE semantics of Python floats for the f64 fold"]}
