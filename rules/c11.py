"""C11 — polynomial arithmetic (all operator forms, scalar/linear/FFT paths) matches coefficient algebra.

The operator impls, `multiply`, `dft`, `idft` are evaluated *abstractly*: coefficient vectors of concrete length with
symbolic entries, exact arithmetic (roots of unity as exact algebraic numbers), the crate's own bodies inlined through
the compiler's resolution.  The result of every impl is compared with coefficient algebra computed independently.

R11.1  operator families: all impls of Add/Sub/Mul/Div/Neg and their assigning forms, for all operand lengths up to
       the bound, give the algebraic result and keep the left operand's zero tolerance; loops are index-uniform.
R11.2  dispatch/commutativity of `multiply` over the scalar, linear and FFT branches (lengths 1..L each side).
R11.3  transform size: the FFT branch pads both operands to one common power of two >= len_a + len_b - 1.
R11.4  dft = values at the roots of unity e^{+2πik/n}; idft inverts it.
R11.5  the imaginary unit used to rebuild complex coefficients in idft folds to +i in Complex<f64> arithmetic with
       signed zeros (−1−0i has the square root −i).
R11.6  `coefficients` is never empty: every pop is guarded by len > 1.
Not decided: rounding bounds (the evaluation is exact), degree under a tolerance between rounding noise and the leading coefficient.
"""
import cmath

import sympy as sp

from bsa import cfg, sym, vecint
from bsa.hir import Missing, callee, peel, place, pp, walk
from rules import polyint as PI

LEVEL = "other"
SECONDS = {"quick": 25, "thorough": 240}     # wall-clock budget of one abstract call (fails closed)

EXPECTED_IMPLS = {"Add": 6, "Sub": 6, "Mul": 6, "Div": 2, "Neg": 2, "AddAssign": 3, "SubAssign": 3, "MulAssign": 3, "DivAssign": 1}


def ref_add(a, b, sign=1):
    n = max(len(a), len(b))
    return [(a[i] if i < len(a) else 0) + sign * (b[i] if i < len(b) else 0) for i in range(n)]


def ref_mul(a, b):
    out = [sp.Integer(0)] * (len(a) + len(b) - 1)
    for i, x in enumerate(a):
        for j, y in enumerate(b):
            out[i + j] += x * y
    return out


def hook_real(i, n, c):
    if c.has(sp.Symbol("N_is_real")):
        return bool(c.subs(sp.Symbol("N_is_real"), sp.true))
    return PI.generic_decide(c)


def hook_complex(i, n, c):
    if c.has(sp.Symbol("N_is_real")):
        return bool(c.subs(sp.Symbol("N_is_real"), sp.false))
    return PI.generic_decide(c)


def is_poly_ty(t):
    return "Polynomial<" in (t or "")


def check_operator_families(F, run, tier):
    L = 5 if tier == "thorough" else 4
    LF = 5 if tier == "thorough" else 4    # FFT path bound
    s = sp.Symbol("s", real=True)
    tolA, tolB = sp.Symbol("tolA", positive=True), sp.Symbol("tolB", positive=True)
    total = 0
    for trait, want_n in EXPECTED_IMPLS.items():
        impls = PI.op_impls(F, trait)
        run.check(len(impls) >= want_n, "R11.1", "polynomial", "impl-count:" + trait, "src/polynomial/mod.rs",
                  "found %d impls of ops::%s for Polynomial, the family has %d" % (len(impls), trait, want_n), sample="%s: %d impls" % (trait, len(impls)))
        for body, rhs in impls:
            run.analysed(body)
            total += 1
            dp = "%s<%s> for %s" % (trait, rhs.replace("polynomial::", ""), body["impl_self"].replace("polynomial::", ""))
            where = F.loc(body)
            scalar = not is_poly_ty(rhs)
            unary = trait == "Neg"
            assign = trait.endswith("Assign")
            op = trait.replace("Assign", "")
            # index-uniformity of the loops (extends the bounded evaluation to every length): no branch on the index inside loop bodies
            for lp in walk(body["body"]):
                if lp.get("k") in ("For", "While"):
                    ifs = [x for x in walk(lp["body"]) if x.get("k") in ("If", "Match")]
                    if ifs:
                        # not a violation of the property: only the argument that extends the evaluated lengths (1..L) to every length is lost
                        run.observe("R11.1-index-uniform-loop", F.loc(body, lp), "%s: a loop branches inside its body; the identities are decided for the evaluated lengths only" % dp)
                    else:
                        run.ok("R11.1", dp, "index-uniform-loop")
            lens_b = [None] if (scalar or unary) else range(1, (LF if op == "Mul" else L) + 1)
            for la in range(1, (LF if op == "Mul" and not scalar else L) + 1):
                for lb in lens_b:
                    a = PI.symbols("a", la)
                    A = PI.poly(a, tolA)
                    if unary:
                        args, want = [A], [-x for x in a]
                    elif scalar:
                        args = [A, s]
                        want = {"Add": [a[0] + s] + a[1:], "Sub": [a[0] - s] + a[1:], "Mul": [x * s for x in a], "Div": [x / s for x in a]}[op]
                    else:
                        b = PI.symbols("b", lb)
                        args = [A, PI.poly(b, tolB)]
                        want = {"Add": ref_add(a, b), "Sub": ref_add(a, b, -1), "Mul": ref_mul(a, b)}[op]
                    inst = "len=%d%s" % (la, "" if lb is None else "x%d" % lb)
                    try:
                        v, it = PI.call(F, body, args, hook=hook_real, cls=PI.CycloInterp, seconds=SECONDS[tier])
                    except vecint.IndexPanic as e:
                        run.fail("R11.1", dp, "panic:" + inst, where, "abstract execution panics: %s" % e.why)
                        continue
                    except sym.Unsupported as u:
                        run.broken("R11.1", dp, inst, F.loc(body, u.node if isinstance(u.node, dict) else None), "outside the evaluated sub-language: %s" % u)
                        continue
                    res = args[0] if assign else v
                    try:
                        cs = PI.coeffs(res)
                    except Missing:
                        run.fail("R11.1", dp, "result:" + inst, where, "operator does not produce a polynomial (%r)" % (res,))
                        continue
                    run.check(PI.same_poly(cs, want), "R11.1", dp, "algebra:" + inst, where,
                              "result coefficients %s differ from coefficient algebra %s" % ([str(sp.expand(x)) for x in cs][:8], [str(sp.expand(x)) for x in want][:8]),
                              sample="%s %s: %s" % (dp, inst, [str(sp.expand(x)) for x in cs][:4]))
                    if op != "Mul" or scalar:
                        run.check(len(cs) == len(want), "R11.1", dp, "length:" + inst, where, "result has %d coefficients, expected %d" % (len(cs), len(want)))
                    if op == "Mul" and not scalar:
                        run.check(res.get("tolerance") in (tolA, tolB), "R11.1", dp, "keeps-tolerance:" + inst, where,
                                  "result's zero tolerance is %s, not one of the operands'" % res.get("tolerance"))
                    else:
                        run.check(res.get("tolerance") == tolA, "R11.1", dp, "keeps-tolerance:" + inst, where,
                                  "result's zero tolerance is %s, not the left operand's" % res.get("tolerance"))
                    run.check(len(cs) >= 1, "R11.6", dp, "non-empty:" + inst, where, "result has an empty coefficient vector")
            if scalar:
                # complex field: coefficients and scalar with generic real and imaginary parts (a conjugate slipped in or left out is invisible over the reals)
                ac = PI.csymbols("a", 2)
                sc = sp.Symbol("sr", real=True) + sp.I * sp.Symbol("si", real=True)
                A = PI.poly(ac, tolA)
                want = {"Add": [ac[0] + sc] + ac[1:], "Sub": [ac[0] - sc] + ac[1:], "Mul": [x * sc for x in ac], "Div": [x / sc for x in ac]}[op]
                try:
                    v, it = PI.call(F, body, [A, sc], hook=hook_complex)
                    res = A if assign else v
                    cs = PI.coeffs(res)
                    run.check(PI.same_poly(cs, want), "R11.1", dp, "algebra:complex-scalar", where,
                              "with complex coefficients and a complex scalar the result %s differs from coefficient algebra %s"
                              % ([str(sp.simplify(x)) for x in cs][:3], [str(sp.simplify(x)) for x in want][:3]), sample="%s complex scalar" % dp)
                except vecint.IndexPanic as e:
                    run.fail("R11.1", dp, "panic:complex-scalar", where, "abstract execution panics: %s" % e.why)
                except (sym.Unsupported, Missing) as u:
                    run.broken("R11.1", dp, "complex-scalar", where, "outside the evaluated sub-language: %s" % u)
    run.floor("R11.1", "polynomial", "operator impls evaluated", total, 32)


def check_multiply(F, run, tier):
    mul = F.fn("polynomial::multiply")
    run.analysed(mul)
    L = 5 if tier == "thorough" else 4
    where = F.loc(mul)
    for la in range(1, L + 1):
        for lb in range(1, L + 1):
            a, b = PI.symbols("a", la), PI.symbols("b", lb)
            want = ref_mul(a, b)
            for hook, fld in ((hook_real, "real"), (hook_complex, "complex")):
                if fld == "complex" and (la < 3 or lb < 3):
                    continue   # only the FFT branch depends on the field
                inst = "%dx%d:%s" % (la, lb, fld)
                try:
                    v, it = PI.call(F, mul, [PI.poly(a), PI.poly(b)], hook=hook, cls=PI.CycloInterp, seconds=SECONDS[tier])
                    v2, _ = PI.call(F, mul, [PI.poly(b), PI.poly(a)], hook=hook, cls=PI.CycloInterp, seconds=SECONDS[tier])
                except vecint.IndexPanic as e:
                    run.fail("R11.2", "polynomial::multiply", "panic:" + inst, where, "abstract execution panics: %s" % e.why)
                    continue
                except sym.Unsupported as u:
                    run.broken("R11.2", "polynomial::multiply", inst, F.loc(mul, u.node if isinstance(u.node, dict) else None), str(u))
                    continue
                run.check(PI.same_poly(PI.coeffs(v), want), "R11.2", "polynomial::multiply", "product:" + inst, where,
                          "multiply gives %s, coefficient algebra gives %s" % ([str(sp.expand(x)) for x in PI.coeffs(v)][:6], [str(sp.expand(x)) for x in want][:6]),
                          sample="multiply %s = Cauchy product" % inst)
                run.check(PI.same_poly(PI.coeffs(v), PI.coeffs(v2)), "R11.2", "polynomial::multiply", "commutes:" + inst, where, "a·b and b·a differ")
                used = set(it.shared["trace_fns"])
                fft = any(p.endswith("::dft") for p in used)
                run.check(fft == (la >= 3 and lb >= 3), "R11.2", "polynomial::multiply", "branch:" + inst, where,
                          "operands of length %d and %d %s the FFT path" % (la, lb, "take" if fft else "do not take"))


class _SizeSeen(Exception):
    def __init__(self, size):
        self.size = size


def check_transform_size(F, run):
    """R11.3 — the transform size handed to `dft` is at least len_a + len_b − 1 (otherwise the cyclic convolution wraps around).  Decided by
    evaluating `multiply` up to its dft calls for every pair of operand lengths on the FFT path up to 48 × 48 (the dft itself is not
    executed: a method hook records the requested size of each call); the sizes of the two transforms must agree."""
    mul = F.fn("polynomial::multiply")
    where = F.loc(mul)
    LMAX = 48
    n_pairs = 0
    bad = []
    unrec = None
    for la in range(1, LMAX + 1):
        for lb in range(1, LMAX + 1):
            sizes = []

            def hook(it, n, sizes=sizes):
                if len(n["args"]) != 1:
                    return NotImplemented
                sizes.append(it.ev(n["args"][0]))
                if len(sizes) >= 2:
                    raise _SizeSeen(sizes)
                return [sp.Integer(0)]

            it = vecint.VInterp(F, mul)
            it.if_hook = hook_real
            it.method_hooks = dict(it.method_hooks)
            it.method_hooks["dft"] = hook
            a, b = PI.poly([sp.Symbol("a%d" % i, real=True) for i in range(la)]), PI.poly([sp.Symbol("b%d" % i, real=True) for i in range(lb)])
            for prm, v in zip(mul["params"], [a, b]):
                it.bind(prm, v, mul)
            try:
                it.ev(mul["body"])
            except _SizeSeen:
                pass
            except sym.Return:
                pass
            except (sym.Unsupported, vecint.IndexPanic) as e:
                if sizes:
                    pass
                else:
                    unrec = unrec or ("lengths %dx%d: %s" % (la, lb, e))
                    continue
            if not sizes:
                continue        # a short-operand branch without transforms
            n_pairs += 1
            if len(sizes) != 2 or sizes[0] != sizes[1] or not getattr(sizes[0], "is_Integer", False) or int(sizes[0]) < la + lb - 1:
                bad.append((la, lb, [str(x) for x in sizes]))
    if unrec and not n_pairs:
        run.broken("R11.3", "polynomial::multiply", "transform-size", where, unrec)
    run.check(not bad, "R11.3", "polynomial::multiply", "bound>=product-length", where,
              "for operand lengths %s the transforms are requested with sizes %s: smaller than len_a + len_b − 1 (the cyclic convolution wraps around) or not the same for both operands"
              % (["%dx%d" % (x[0], x[1]) for x in bad[:6]], [x[2] for x in bad[:3]]), sample="dft size >= len_a + len_b − 1 for %d length pairs up to %d×%d" % (n_pairs, LMAX, LMAX))
    run.floor("R11.3", "polynomial::multiply", "length pairs on the FFT path", n_pairs, 1500, where)
    pad = PI.poly_method(F, "pad_power_of_two")
    run.analysed(pad)
    for size in range(1, 12):
        P = PI.poly(PI.symbols("a", 3))
        PI.call(F, pad, [P, sp.Integer(size)])
        n = len(P["coefficients"])
        good = n >= max(size, 3) and (n & (n - 1) == 0 or n == 3) and n >= 3
        if size > 3:
            good = n >= size and n & (n - 1) == 0 and n < 2 * size
        run.check(good, "R11.3", "Polynomial::pad_power_of_two", "size=%d" % size, F.loc(pad), "padding 3 coefficients for size %d gives length %d" % (size, n))


def check_dft(F, run, tier):
    dft, idft = PI.poly_method(F, "dft"), PI.poly_method(F, "idft")
    run.analysed(dft)
    run.analysed(idft)
    for la, size in ((1, 1), (2, 2), (3, 4), (4, 4), (3, 8), (3, 16)) + (((5, 8), (5, 16), (9, 16)) if tier == "thorough" else ()):
        a = PI.symbols("a", la)
        inst = "len=%d,size=%d" % (la, size)
        try:
            v, it = PI.call(F, dft, [PI.poly(a), sp.Integer(size)], hook=hook_real, cls=PI.CycloInterp, seconds=SECONDS[tier])
        except (sym.Unsupported, vecint.IndexPanic) as e:
            run.broken("R11.4", "Polynomial::dft", inst, F.loc(dft), str(e))
            continue
        n = len(v)
        run.check(n >= size and n & (n - 1) == 0, "R11.4", "Polynomial::dft", "size:" + inst, F.loc(dft), "dft returns %d points for size %d" % (n, size))
        if 16 % n == 0:
            w = PI._cos_k(16 // n) + sp.I * PI._cos_k(16 // n - 4)      # e^{2πi/n} in Q(i)[c]/(8c⁴ − 8c² + 1)
        else:
            w = sp.exp(2 * sp.pi * sp.I / n)
        ok = all(sym.is_zero(PI.cyc_reduce(sp.expand(v[k] - sum(a[j] * w ** (j * k) for j in range(la)), complex=True))) for k in range(n))
        run.check(ok, "R11.4", "Polynomial::dft", "values-at-roots-of-unity:" + inst, F.loc(dft),
                  "dft does not return the values p(e^{2πik/n}), k = 0..n-1", sample="dft(%s) = p(ω^k), ω = e^{2πi/%d}" % (inst, n))
        for hook, fld in ((hook_real, "real"), (hook_complex, "complex")):
            try:
                back, _ = PI.call(F, idft, [list(v), PI.TOL], hook=hook, cls=PI.CycloInterp, seconds=SECONDS[tier])
            except (sym.Unsupported, vecint.IndexPanic) as e:
                run.broken("R11.4", "Polynomial::idft", inst + ":" + fld, F.loc(idft), str(e))
                continue
            cs = [PI.cyc_reduce(sp.expand(x, complex=True)) for x in PI.coeffs(back)]
            run.check(PI.same_poly(cs, a), "R11.4", "Polynomial::idft", "inverts-dft:%s:%s" % (inst, fld), F.loc(idft),
                      "idft(dft(p)) = %s, not p" % [str(x) for x in cs][:6], sample="idft∘dft = id (%s, %s)" % (inst, fld))


def complex_fold(n):
    """Complex<f64> evaluation with signed zeros of the tiny constant sub-language used for the imaginary unit."""
    n = peel(n)
    k = n.get("k")
    if k == "Call":
        d = callee(n) or ""
        if d.endswith("One::one"):
            return complex(1.0, 0.0)
        if d.endswith("Zero::zero"):
            return complex(0.0, 0.0)
        if d.endswith("Complex::<T>::new") or d.endswith("Complex::new"):
            a, b = complex_fold(n["args"][0]), complex_fold(n["args"][1])
            return complex(a.real, b.real)
        if d.endswith("i") and "Complex" in d and not n["args"]:
            return complex(0.0, 1.0)
        if d.split("::")[-1] in sym.FROM_PRIM:
            return complex_fold(n["args"][0])
    if k == "Lit" and n["lit"] in ("float", "int"):
        return complex(float(n["v"].replace("_", "").replace("f64", "")), 0.0)
    if k == "Un" and n["op"] == "Neg":
        v = complex_fold(n["e"])
        return complex(-v.real, -v.imag)
    if k == "MCall" and n["name"] == "sqrt":
        return cmath.sqrt(complex_fold(n["recv"]))
    if k == "MCall" and n["name"] in ("unwrap", "clone"):
        return complex_fold(n["recv"])
    if k == "Bin" and n["op"] in ("Add", "Sub", "Mul", "Div"):
        a, b = complex_fold(n["l"]), complex_fold(n["r"])
        return {"Add": a + b, "Sub": a - b, "Mul": a * b, "Div": a / b}[n["op"]]
    raise Missing("imaginary-unit expression outside the folded sub-language: %s" % pp(n)[:60])


def check_imaginary_unit(F, run):
    """R11.5 — IEEE detail the exact product identities cannot see: a *constant* square root in idft (the imaginary unit is built as the root of
    −1) is evaluated in Complex<f64> arithmetic with signed zeros; −1−0i has the principal root −i, which conjugates every complex product
    computed through the FFT path.  Every constant-foldable `sqrt` in idft (wherever it sits: in the mapping closure, hoisted into a `let`, in an
    Option) must not evaluate to a negative imaginary number."""
    idft = PI.poly_method(F, "idft")
    run.analysed(idft)
    n_sites = 0
    for n in walk(idft["body"]):
        if n.get("k") == "MCall" and n["name"] == "sqrt":
            try:
                v = complex_fold(n)
            except Missing:
                continue                      # not a constant: an ordinary square root of data
            n_sites += 1
            good = not (abs(v.real) < 1e-300 and v.imag < 0)
            run.check(good, "R11.5", "Polynomial::idft", "unit=+i", F.loc(idft, n),
                      "the constant `%s` evaluates to %r in Complex<f64> arithmetic (−1−0i has the principal square root −i): every complex product computed "
                      "through the FFT path comes back conjugated" % (pp(n)[:50], v), sample="constant root `%s` = %r" % (pp(n)[:40], v))
    if n_sites == 0:
        run.observe("R11.5", F.loc(idft), "idft contains no constant square root: the imaginary unit is not built from a signed-zero-sensitive root (the exact identities of R11.1/R11.2 decide its value)")


def check_nonempty(F, run):
    """R11.6 — the coefficient vector never becomes empty (every operator assumes at least one coefficient).  Decided by executing the editing
    methods that shorten it — found by their effect, `pop` / `truncate` / `clear` / `remove` / `drain` on `coefficients`, not by their text — on
    every length 1..3 with generic and with all-zero coefficients and every power 0..3; a shortening site in a function without scenarios
    fails closed."""
    shrinkers = {}
    for b in F.bodies:
        if not b["file"].startswith("src/polynomial"):
            continue
        for n in walk(b["body"]):
            if n.get("k") == "MCall" and n["name"] in ("pop", "truncate", "clear", "remove", "drain", "split_off", "retain") and (place(n["recv"]) or "").endswith("coefficients"):
                shrinkers.setdefault(b["path"], (b, []))[1].append(n)
    n_sites = sum(len(v[1]) for v in shrinkers.values())
    run.floor("R11.6", "polynomial", "pop sites", n_sites, 2)
    covered = set()

    def run_case(name, args, inst, b):
        try:
            PI.call(F, b, args, seconds=SECONDS.get("quick", 25))
        except vecint.IndexPanic as e:
            run.fail("R11.6", b["path"], "panic:" + inst, F.loc(b), "abstract execution panics: %s" % e.why)
            return
        except (sym.Unsupported, vecint.Budget) as u:
            run.broken("R11.6", b["path"], inst, F.loc(b, u.node if isinstance(getattr(u, "node", None), dict) else None), str(u))
            return
        cs = PI.coeffs(args[0])
        run.check(len(cs) >= 1, "R11.6", b["path"], "pop-guarded", F.loc(b), "%s(%s) on %s leaves an empty coefficient vector" % (name, ", ".join(str(a) for a in args[1:]), inst),
                  sample="%s on %s keeps >= 1 coefficient" % (name, inst))
    for path, (b, sites) in sorted(shrinkers.items()):
        if (b.get("impl_self") or "") != "polynomial::Polynomial<N>" or b.get("impl_trait"):
            continue
        params = b["params"]
        tys = [(q.get("ty") or "") for q in params]
        if not params or params[0].get("name") != "self" or not tys[0].startswith("&mut"):
            continue
        run.analysed(b)
        extra = tys[1:]
        if any(t not in ("usize", "u32", "u64") for t in extra) or len(extra) > 1:
            continue
        covered.add(path)
        for nlen in (1, 2, 3):
            for kind, cs in (("generic", PI.symbols("a", nlen)), ("zeros", [sp.Integer(0)] * nlen), ("zero-lead", PI.symbols("a", nlen - 1) + [sp.Integer(0)])):
                if extra:
                    for k in range(0, nlen + 2):
                        run_case(b["name"], [PI.poly(list(cs)), sp.Integer(k)], "len=%d,%s,arg=%d" % (nlen, kind, k), b)
                else:
                    run_case(b["name"], [PI.poly(list(cs))], "len=%d,%s" % (nlen, kind), b)
    # methods taking another polynomial by reference (division): executed on small generic / exact-multiple / zero shapes; every polynomial in the
    # result must keep one coefficient
    def polys_in(v):
        if isinstance(v, dict) and "coefficients" in v:
            yield v
        elif isinstance(v, sym.Variant):
            for a in v.args:
                yield from polys_in(a)
        elif isinstance(v, (tuple, list)):
            for a in v:
                yield from polys_in(a)
    for path, (b, sites) in sorted(shrinkers.items()):
        if path in covered or (b.get("impl_self") or "") != "polynomial::Polynomial<N>" or b.get("impl_trait"):
            continue
        tys = [(q.get("ty") or "") for q in b["params"]]
        if len(tys) != 2 or b["params"][0].get("name") != "self" or "Polynomial<N>" not in tys[1]:
            continue
        run.analysed(b)
        covered.add(path)
        x0, x1 = PI.symbols("d", 2)
        cases = []
        for nl in (1, 2, 3):
            for kind, dv in (("const", [x0]), ("linear", [x0, x1])):
                cases.append(("len=%d/%s" % (nl, kind), PI.symbols("a", nl), dv))
        cases.append(("exact-multiple", [x0 * 3, x1 * 3 + x0 * 5, x1 * 5], [x0, x1]))
        cases.append(("zero-dividend", [sp.Integer(0)], [x0, x1]))
        for inst, num_, den_ in cases:
            try:
                v, _ = PI.call(F, b, [PI.poly(list(num_)), PI.poly(list(den_))], seconds=SECONDS.get("quick", 25))
            except vecint.IndexPanic as e:
                run.fail("R11.6", b["path"], "panic:" + inst, F.loc(b), "abstract execution panics: %s" % e.why)
                continue
            except (sym.Unsupported, vecint.Budget) as u:
                run.broken("R11.6", b["path"], inst, F.loc(b, u.node if isinstance(getattr(u, "node", None), dict) else None), str(u))
                continue
            ps_ = list(polys_in(v))
            run.check(all(len(PI.coeffs(q)) >= 1 for q in ps_), "R11.6", b["path"], "pop-guarded", F.loc(b), "%s on %s returns a polynomial with an empty coefficient vector" % (b["name"], inst),
                      sample="%s on %s: %d polynomial(s) returned, none empty" % (b["name"], inst, len(ps_)))
    # shortening sites elsewhere: the loop or branch they sit in must keep one coefficient
    for path, (b, sites) in sorted(shrinkers.items()):
        if path in covered:
            continue
        run.analysed(b)
        for n in sites:
            g = cfg.guards_of(b["body"], n)
            ok = False
            for l in cfg.conj_lits(g):
                t = pp(l[1])
                if l[2] and "coefficients.len()" in t and ("> 1" in t or ">= 2" in t or "!= 1" in t):
                    ok = True
            run.check(ok, "R11.6", b["path"], "pop-guarded", F.loc(b, n), "`%s` can empty the coefficient vector (no `len > 1` guard, and no scenario model for this function)" % pp(n)[:50],
                      sample="%s: %s under len > 1" % (b["name"], pp(n)[:40]))


def check_trim_both_parts(F, run):
    """R11.7 — products through the FFT branch and `idft` finish by trimming negligible leading coefficients (`purge_leading`): the degree-of-a-product clause
    needs that trim to look at the whole coefficient.  A leading coefficient that is purely imaginary (i·a, a generic) must survive it; exact zeros behind it go."""
    try:
        pl = PI.poly_method(F, "purge_leading")
    except Missing as m:
        run.broken("R11.7", "Polynomial::purge_leading", "anchor", "src/polynomial/mod.rs", str(m))
        return
    run.analysed(pl)
    for n in (2, 3):
        cs = PI.with_imaginary_lead("a", n)
        for extra, label in (([], "imaginary-lead,len=%d" % n), ([sp.Integer(0)], "imaginary-lead+0,len=%d" % n)):
            Pm = PI.poly(list(cs) + extra)
            try:
                PI.call(F, pl, [Pm])
            except vecint.IndexPanic as e:
                run.fail("R11.7", "Polynomial::purge_leading", "panic:" + label, F.loc(pl), "abstract execution panics: %s" % e.why)
                continue
            except sym.Unsupported as u:
                run.broken("R11.7", "Polynomial::purge_leading", label, F.loc(pl), str(u))
                continue
            run.check(len(PI.coeffs(Pm)) == n, "R11.7", "Polynomial::purge_leading", "keeps-imaginary-lead:" + label, F.loc(pl),
                      "the trim that ends every FFT product / inverse transform removes a purely imaginary leading coefficient (%d of %d coefficients left): the product of "
                      "complex polynomials loses its degree" % (len(PI.coeffs(Pm)), n), sample="purge_leading keeps i·a (%s)" % label)


def run(F, run, tier):
    check_operator_families(F, run, tier)
    check_trim_both_parts(F, run)
    check_multiply(F, run, tier)
    check_transform_size(F, run)
    check_dft(F, run, tier)
    check_imaginary_unit(F, run)
    check_nonempty(F, run)
    L = 5 if tier == "thorough" else 4
    run.extra["length_bound"] = L
    run.assumptions += ["exact arithmetic: the ε-proportional rounding bound of the statement is not decided",
                        "operand lengths up to %d per side are evaluated; longer operands are covered by the index-uniformity of the loops (checked) and by the size rule R11.3" % L,
                        "generic coefficients: a symbolic coefficient that is not identically zero is not negligible against the zero tolerance"]
    expl = ("All 32 operator impls, `multiply` (scalar, linear and FFT branches, both operand orders, real and complex field configuration), `dft` and "
            "`idft` are evaluated abstractly on coefficient vectors of every length up to %d with symbolic entries in exact arithmetic and compared with "
            "independently computed coefficient algebra; the transform-size inequality is proved for symbolic lengths; the imaginary unit is folded in "
            "Complex<f64> arithmetic with signed zeros; pops are shown to be guarded." % L)
    return "other", expl, None
