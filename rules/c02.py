"""C02 — accepted IVP steps are locally accurate to the tolerance: the *mechanism* is decided, the bound is not.

The bound (distance to the reference flow <= C·tol·h) is numerical: not decided.  Decided necessary conditions,
without which it fails for every non-trivial problem:
R2.1  accept guard: every write to self.state / self.time in the adaptive steppers is (a) on the true edge of the
      accept test `estimate <= tolerance` (estimate defined from a norm, tolerance the builder's field), or (b) a
      roll-back write of a rejected start-up (verified by the typestate rule C01-R1.4-T3), and every call of the
      unchecked RK4 helper is the start-up (validated by the next step, rolled back on rejection) or the one named
      clipped-final-step site per solver.
R2.2  one predicate: a new point is returned only under the accept test; Redo on a rejected step only under its
      negation (RK tests the predicate twice: both normal forms must agree).
R2.3  the estimator is an estimator: Σ e_i = 0, b and b±e satisfy the order conditions of the advertised pair,
      estimate = ‖Σ e_i k_i‖/dt; Adams: c·‖corrector − predictor‖/dt with the Adams–Bashforth/Moulton pair; BDF:
      ‖higher − lower‖ of the BDF-k / BDF-(k−1) solves (formulas checked as in C03).
"""
import sympy as sp

from bsa import cfg, nalg, sym
from bsa.hir import Missing, callee, peel, place, pp, walk
from rules import c03
from rules import ivp_model as M

LEVEL = "other"

ADAPTIVE = {"RungeKutta": "ivp::rk::RungeKuttaSolver<", "Adams": "ivp::adams::AdamsSolver<", "BDF": "ivp::bdf::BDFSolver<"}


def local_let(body, local_id):
    d = [n for n in walk(body["body"]) if n.get("k") == "LetS" and n["pat"].get("k") == "Bind" and n["pat"]["id"] == local_id and "init" in n]
    return d[0]["init"] if len(d) == 1 else None


def accept_polarity(body, cond):
    """+1 if `cond` is the accept test (estimate <= tolerance), -1 if it is its negation form, None otherwise.
    The estimate must be a local defined from a `.norm()`, the bound must be self.tolerance."""
    c = peel(cond)
    if c.get("k") == "Un" and c.get("op") == "Not":
        p_ = accept_polarity(body, c["e"])          # `!(estimate <= tolerance)`: the reject form
        return None if p_ is None else -p_
    if c.get("k") != "Bin" or c["op"] not in ("Le", "Lt", "Ge", "Gt"):
        return None
    l, r = peel(c["l"]), peel(c["r"])

    def is_tol(x):
        x = peel(x)
        while x.get("k") == "MCall" and x["name"] in ("real", "clone"):
            x = peel(x["recv"])
        return place(x) == "self.tolerance"

    def is_est(x):
        x = peel(x)
        while x.get("k") == "MCall" and x["name"] in ("real", "clone"):
            x = peel(x["recv"])
        if x.get("k") != "Local":
            return False
        d = local_let(body, x["id"])
        return d is not None and any(y.get("k") == "MCall" and y["name"] in ("norm",) for y in walk(d))
    if is_est(l) and is_tol(r):
        return 1 if c["op"] in ("Le", "Lt") else -1
    if is_tol(l) and is_est(r):
        return 1 if c["op"] in ("Ge", "Gt") else -1
    return None


def accept_guard(body, node):
    """+1 / -1 / 0: node is under the accept test, under its negation, or neither (top-level conjuncts only)."""
    g = cfg.guards_of(body["body"], node)
    for l in cfg.conj_lits(g):
        p = accept_polarity(body, l[1])
        if p is not None:
            return p if l[2] else -p
    return 0


def pending_guard(body, node):
    g = cfg.guards_of(body["body"], node)
    for l in cfg.conj_lits(g):
        c = peel(l[1])
        if l[2] and c.get("k") == "Bin" and c["op"] == "Eq":
            lhs = peel(c["l"])
            if place(lhs) == "self.yield_memory":
                return True
            # `let pending = self.yield_memory; … if pending == O + 1`: the value the sentinel had on entry
            if lhs.get("k") == "Local":
                d = local_let(body, lhs["id"])
                if d is not None and place(peel(d)) == "self.yield_memory":
                    return True
        # `let unconfirmed = self.yield_memory == O + 1; … if unconfirmed`
        if l[2] and c.get("k") == "Local" and (c.get("ty") == "bool"):
            d = local_let(body, c["id"])
            dd = peel(d) if d is not None else {}
            if dd.get("k") == "Bin" and dd.get("op") == "Eq" and place(peel(dd["l"])) == "self.yield_memory":
                return True
    return False


def check_accept_guard(F, run, sname):
    b = M.method_of(F, ADAPTIVE[sname], "IVPStepper", "step")
    run.analysed(b)
    dp = sname + "Solver::step"
    n_w = 0
    for n in walk(b["body"], into_closures=False):
        if n.get("k") in ("Assign", "AssignOp") and place(n["l"]) in ("self.state", "self.time"):
            n_w += 1
            pol = accept_guard(b, n)
            inst = "%s[%s]" % (pp(n)[:50], "accept" if pol > 0 else ("reject" if pol < 0 else "unguarded"))
            if pol > 0:
                run.ok("R2.1", inst, "%s: `%s` under estimate <= tolerance" % (dp, pp(n)[:50]))
                continue
            rollback = pending_guard(b, n) and pol < 0
            run.check(rollback, "R2.1", dp, "commit:" + inst, F.loc(b, n),
                      "`%s` changes the solution without being on the true edge of the accept test `estimate <= tolerance` "
                      "(and is not the roll-back of a rejected start-up)" % pp(n)[:70], sample="%s: roll-back write `%s`" % (dp, pp(n)[:50]))
    run.floor("R2.1", dp, "writes to state/time", n_w, 1, F.loc(b))
    # calls of the unchecked RK4 helper
    if sname != "RungeKutta":
        calls = [n for n in walk(b["body"], into_closures=False) if n.get("k") == "MCall" and n["name"] == "runge_kutta"]
        n_final = 0
        for n in calls:
            g = cfg.guards_of(b["body"], n)
            lits = cfg.conj_lits(g)
            startup = any(l[2] and peel(l[1]).get("k") == "MCall" and peel(l[1])["name"] == "is_empty" and place(peel(l[1])["recv"]) == "self.prev_values" for l in lits)
            arg = peel(n["args"][0])
            final = arg.get("k") == "Lit" and arg.get("v") == "1"
            if final:
                n_final += 1
            run.check(startup or final, "R2.1", dp, "rk4-call:" + pp(n)[:40], F.loc(b, n),
                      "unchecked RK4 steps are taken outside the start-up (history empty) and outside the single clipped final step",
                      sample="%s: %s (%s)" % (dp, pp(n)[:40], "start-up" if startup else "clipped final step"))
            if startup:
                # the start-up must be left pending (validated by the next step): yield_memory := pending, return Redo
                pm = cfg.parent_map(b["body"])
                blk = [a for a in cfg.ancestors(pm, n) if a.get("k") == "Block"][0]
                txt = " ".join(pp(s) for s in blk["stmts"])
                run.check("self.yield_memory =" in txt and "IVPStatus::Redo" in txt, "R2.1", dp, "startup-left-pending", F.loc(b, n),
                          "the start-up branch does not leave the start-up pending (yield_memory := pending; return Redo) for validation by the next step")
        run.check(n_final == 1, "R2.1", dp, "one-unchecked-final-step", F.loc(b),
                  "expected exactly one clipped final RK4 step site (named exception), found %d" % n_final)
    return b


def check_one_predicate(F, run, sname, b):
    dp = sname + "Solver::step"
    n_ok = n_redo = 0
    for n in walk(b["body"], into_closures=False):
        is_ret = n.get("k") == "Ret" and "e" in n
        e = n["e"] if is_ret else n
        e = peel(e)
        if not (e.get("k") == "Call" and callee(e)):
            continue
        if not is_ret and not is_tail(b, n):
            continue
        what = callee(e).split("::")[-1]
        if what == "Ok":
            tup = current_point_tuple(b, peel(e["args"][0]))
            cur = tup.get("k") == "Tup" and len(tup["es"]) == 2 and place_through(tup["es"][0]) == "self.time" and place_through(tup["es"][1]) == "self.state"
            if not cur:
                continue
            # sentinel branch (yield of the committed step) is governed by yield_memory, not by a fresh estimate
            if pending_guard(b, n):
                continue
            n_ok += 1
            run.check(accept_guard(b, n) > 0, "R2.2", dp, "new-point-under-accept", F.loc(b, n),
                      "a new (time, state) point is returned without the accept test `estimate <= tolerance` holding on that path",
                      sample="%s: Ok((time, state)) under the accept test" % dp)
        elif what == "Err" and "IVPStatus::Redo" in pp(e):
            pol = accept_guard(b, n)
            if pol == 0:
                continue   # start-up Redo
            n_redo += 1
            if pol > 0:
                run.check(pending_guard(b, n), "R2.2", dp, "redo-under-accept", F.loc(b, n),
                          "Redo is returned on an accepted step outside the start-up commit")
            else:
                run.ok("R2.2", "redo-on-reject", "%s: Redo under estimate > tolerance" % dp)
    run.floor("R2.2", dp, "returns of a new point", n_ok, 1, F.loc(b))
    run.floor("R2.2", dp, "Redo returns tied to the estimate", n_redo, {"RungeKutta": 1, "Adams": 1, "BDF": 1}[sname], F.loc(b))


def is_tail(body, n):
    """n is in tail position of the function body (value of the function)."""
    pm = cfg.parent_map(body["body"])
    cur = n
    while id(cur) in pm:
        par = pm[id(cur)]
        k = par.get("k")
        if k == "Block":
            if par.get("expr") is not cur:
                return False
        elif k == "If":
            if cur is par.get("c"):
                return False
        elif k in ("Match",):
            if cur is par.get("e"):
                return False
        else:
            return False
        cur = par
    return True


def current_point_tuple(b, n):
    """`Ok(accepted)` with `let accepted = (self.time.real(), self.state.clone())`: the tuple expression, provided neither self.time nor self.state
    is written between the let and the use (source order inside the function; a write anywhere in between keeps the local unresolved)."""
    if n.get("k") != "Local":
        return n
    order = list(walk(b["body"], into_closures=False))
    defs = [i for i, x in enumerate(order) if x.get("k") == "LetS" and x["pat"].get("k") == "Bind" and x["pat"]["id"] == n["id"]
            and "init" in x and "Mut)" not in x["pat"].get("mode", "")]
    use = [i for i, x in enumerate(order) if x is n]
    if len(defs) != 1 or not use:
        return n
    init = peel(order[defs[0]]["init"])
    if init.get("k") == "Local" and init.get("id") != n.get("id"):
        # `let point = current;` — follow the chain of immutable copies (nothing may write time/state on the way: checked below for the last link)
        inner = current_point_tuple(b, init)
        if inner.get("k") == "Tup":
            init = inner
    if init.get("k") != "Tup":
        return n
    for x in order[defs[0]:use[0]]:
        if x.get("k") in ("Assign", "AssignOp") and (place(x["l"]) or "") in ("self.time", "self.state"):
            return n
        if x.get("k") == "MCall" and x["name"] not in ("real", "clone", "push_back", "pop_front", "clear") and place(peel(x["recv"])) in ("self", "self.state", "self.time"):
            return n
    return init


def place_through(n):
    n = peel(n)
    while n.get("k") == "MCall" and n["name"] in ("real", "clone"):
        n = peel(n["recv"])
    return place(n)


def check_bdf_estimate(F, run):
    b = M.method_of(F, ADAPTIVE["BDF"], "IVPStepper", "step")
    # error local: norm of (higher_step - lower_step), both results of secant on the two residuals
    acc = None
    for n in walk(b["body"], into_closures=False):
        if n.get("k") == "If" and accept_polarity(b, n["c"]) in (1, -1):
            acc = n
            break
    if not run.check(acc is not None, "R2.3-estimate", "BDFSolver::step", "accept-test", F.loc(b), "no accept test found"):
        return
    cmp_ = peel(acc["c"])
    while cmp_.get("k") == "Un" and cmp_.get("op") == "Not":
        cmp_ = peel(cmp_["e"])
    acc = dict(acc, c=cmp_)
    est = peel(acc["c"]["l"]) if accept_polarity(b, acc["c"]) else None
    it = nalg.NInterp(F, b, {"O": 7})
    solves = {}
    for n in walk(b["body"], into_closures=False):
        if n.get("k") == "LetS" and n.get("init", {}).get("k") == "Try":
            e = peel(n["init"]["e"])
            if e.get("k") == "MCall" and e["name"] == "secant":
                s = sym.S("solve_" + peel(e["args"][0]).get("name", "?"))
                it.bind(n["pat"], s)
                solves[n["pat"]["name"]] = s
    try:
        for n in walk(b["body"], into_closures=False):
            if n.get("k") == "LetS" and n["pat"].get("name") in ("difference", "error") and "init" in n:
                it.bind(n["pat"], it.ev(n["init"]))
        v = None
        for i, nm in it.names.items():
            if nm == "error":
                v = it.env[i]
    except sym.Unsupported as u:
        v = None
    vals = list(solves.values())
    good = v is not None and len(vals) == 2 and (v == sp.Function("norm")(vals[0] - vals[1]) or v == sp.Function("norm")(vals[1] - vals[0]))
    run.check(good, "R2.3-estimate", "BDFSolver::step", "higher-minus-lower", F.loc(b, acc),
              "BDF error estimate is %s, expected ‖higher-order solve − lower-order solve‖" % v, sample="estimate = %s" % v)


def run(F, run, tier):
    for sname in ADAPTIVE:
        try:
            b = check_accept_guard(F, run, sname)
            check_one_predicate(F, run, sname, b)
        except Missing as e:
            run.broken("R2.1", sname, "anchor", "src/ivp", str(e))
    # R2.3 (shared extraction with C03)
    for name in M.RK_IMPLS:
        c03.check_rk(F, run, name)
    for name in M.ADAMS_IMPLS:
        c03.check_adams(F, run, name)
    for name in M.BDF_IMPLS:
        c03.check_bdf(F, run, name)
    check_bdf_estimate(F, run)
    # start-up points and the clipped final step are produced by the RK4 helpers without an estimator of their own: their local accuracy
    # rests on the helper being the classical fourth-order method (shared with C03 R3.2)
    c03.check_rk4_startup(F, run, "adams", "ivp::adams::AdamsSolver", M.ADAMS_IMPLS["AdamsCoefficients5"][0], 5)
    c03.check_rk4_startup(F, run, "bdf", "ivp::bdf::BDFSolver", M.BDF_IMPLS["BDF6Coefficients"][0], 7)
    # a rejected start-up must be undone coherently: the next points are judged against the exact flow restarted from the *yielded* point, so a
    # roll-back that restores the state but not the matching time (or vice versa) puts an error of order dt — not tol·dt — into the next step
    # (typestate exploration shared with C01 R1.4-T3 / C03 R3.2-T3)
    from rules import proto
    for name, (selfty, O) in list(M.ADAMS_IMPLS.items()) + list(M.BDF_IMPLS.items()):
        kind = "adams" if name in M.ADAMS_IMPLS else "bdf"
        try:
            P = proto.Proto(F, kind, selfty, O)
            r = P.explore()
        except (Missing, sym.Unsupported) as e:
            run.broken("R2.5-T3", name, "exploration", "src/ivp", "cannot explore the step() protocol: %s" % e)
            continue
        hits = {k: v for k, v in r["problems"].items() if k.startswith("T3")}
        for key, (what, node, st, labels) in hits.items():
            run.fail("R2.5-T3", P.name, "%s:%s" % (key.split(":", 1)[1], name), F.loc(P.step, node) if node else F.loc(P.step), what)
        # the multistep formulas (and the estimate, their difference) assume an equally spaced history at the current dt: history entries taken at
        # an older spacing and read by the formula after dt was rewritten make both solves wrong by O(Δdt·|y'|) while their difference stays small —
        # the estimator is deceived and an inaccurate step is accepted (rule shared with C03 R3.6 / C01)
        stale = {k: v for k, v in r["problems"].items() if k.startswith("R3.6:stale-spacing")}
        for key, (what, node, st, labels) in stale.items():
            run.fail("R2.5-spacing", P.name, "%s:%s" % (key.split(":", 1)[1], name), F.loc(P.step, node) if node else F.loc(P.step), what)
        if not stale:
            run.ok("R2.5-spacing", name, "%s: the history read by the formulas was taken at the current spacing on every explored path" % name)
        if not hits:
            run.ok("R2.5-T3", name, "%s: every roll-back of a rejected start-up returns to the saved (time, state) over %d transitions" % (name, len(r["transitions"])))
    run.assumptions += ["the local error *bound* is numerical and is not decided; only the mechanism is",
                        "the clipped final RK4 step (one site per multistep solver) is taken without an estimator: named exception"]
    expl = ("Every write to the solution in the three adaptive steppers is shown to lie on the true edge of the accept test (estimate defined "
            "from a norm, compared with the builder's tolerance) or to be the roll-back of a rejected start-up; new points are returned only "
            "under that test; the estimators are shown to be differences of two embedded methods of the advertised orders (exact order "
            "conditions / generated Adams and BDF formulas). The numerical bound tolerance×step itself is outside static reach.")
    return "other", expl, None
