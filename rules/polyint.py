"""Helpers to evaluate the crate's polynomial code abstractly (exact coefficients, concrete lengths)."""
import sympy as sp

from bsa import sym, vecint
from bsa.hir import Missing

TOL = sp.Symbol("tol", positive=True)


def poly(coeffs, tol=TOL):
    """Abstract Polynomial value; coeffs lowest power first."""
    return {"coefficients": list(coeffs), "tolerance": tol, "__struct__": "polynomial::Polynomial"}


def symbols(prefix, n):
    return [sp.Symbol("%s%d" % (prefix, i), real=True) for i in range(n)]


def csymbols(prefix, n):
    """Generic complex coefficients re + i·im with real symbolic parts."""
    return [sp.Symbol("%sr%d" % (prefix, i), real=True) + sp.I * sp.Symbol("%si%d" % (prefix, i), real=True) for i in range(n)]


def with_imaginary_lead(prefix, n):
    """Coefficients whose leading one is purely imaginary (real part exactly 0): a tolerance test that forgets the imaginary part trims it."""
    cs = symbols(prefix, n)
    cs[-1] = sp.I * sp.Symbol("%si%d" % (prefix, n - 1), real=True, nonzero=True)
    return cs


def _small(e):
    if e.is_number:
        return bool(e > 0 and e <= sp.Rational(1, 1000))     # a literal zero tolerance such as the default 1e-10
    return bool(e.free_symbols) and all(str(x).startswith("tol") for x in e.free_symbols)


def generic_decide(c, small=(TOL,)):
    """Decide a tolerance comparison for *generic* symbolic operands: an expression that is not identically zero is not
    negligible; exact zero is.  Returns True/False/None."""
    if c is sp.true:
        return True
    if c is sp.false:
        return False
    if isinstance(c, sp.And):
        rs = [generic_decide(a, small) for a in c.args]
        if any(r is False for r in rs):
            return False
        if all(r is True for r in rs):
            return True
        return None
    if isinstance(c, sp.Or):
        rs = [generic_decide(a, small) for a in c.args]
        if any(r is True for r in rs):
            return True
        if all(r is False for r in rs):
            return False
        return None
    if isinstance(c, sp.Not):
        r = generic_decide(c.args[0], small)
        return None if r is None else (not r)
    if isinstance(c, (sp.Le, sp.Lt, sp.Ge, sp.Gt)):
        lhs, rhs = c.lhs, c.rhs
        flip = False
        if _small(lhs) and not _small(rhs):
            lhs, rhs = rhs, lhs
            flip = True
        if _small(rhs) and not any(str(x).startswith("tol") for x in lhs.free_symbols):
            e = lhs.args[0] if isinstance(lhs, sp.Abs) else lhs
            zero = sym.is_zero(e)
            less = isinstance(c, (sp.Le, sp.Lt)) != flip     # "|e| < small"
            # |e| < tol: true iff e == 0 (for <= and <: 0 <= tol and 0 < tol both hold since tol > 0)
            return zero if less else (not zero)
    if isinstance(c, (sp.Eq, sp.Ne)):
        z = sym.is_zero(c.lhs - c.rhs)
        return z if isinstance(c, sp.Eq) else (not z)
    return None


def interp(F, body=None, consts=None):
    b = body or F.bodies[0]
    it = vecint.VInterp(F, b, consts)
    it.if_hook = lambda i, n, c: generic_decide(c)
    return it


class _Timeout(Exception):
    pass


TRACE = set()      # def-paths of crate functions inlined by abstract calls (reported as functions analysed)


def call(F, body, args, consts=None, hook=None, seconds=25, cls=None):
    """Abstract call with a wall-clock budget (a diverging abstract execution fails closed instead of hanging)."""
    import signal
    it = (cls or vecint.VInterp)(F, body, consts)
    it.if_hook = hook or (lambda i, n, c: generic_decide(c))
    for p, a in zip(body["params"], args):
        it.bind(p, a, body)

    def on_alarm(signum, frame):
        raise _Timeout()
    old = signal.signal(signal.SIGALRM, on_alarm)
    signal.setitimer(signal.ITIMER_REAL, seconds)
    try:
        try:
            v = it.ev(body["body"])
        except sym.Return as r:
            v = r.value
    except _Timeout:
        raise vecint.Budget(body["body"], "abstract execution of %s exceeded %ds (diverging loop or exploding expressions)" % (body["path"], seconds))
    finally:
        signal.setitimer(signal.ITIMER_REAL, 0)
        signal.signal(signal.SIGALRM, old)
        TRACE.add(body["path"])
        TRACE.update(it.shared.get("trace_fns", []))
    return v, it


def poly_method(F, name):
    c = [b for b in F.bodies if b["name"] == name and (b.get("impl_self") or "") == "polynomial::Polynomial<N>" and not b.get("impl_trait")]
    if len(c) != 1:
        raise Missing("Polynomial::%s: %d candidates" % (name, len(c)))
    return c[0]


def op_impls(F, trait):
    """All impls of an operator trait for Polynomial / &Polynomial: list of (body, rhs type)."""
    out = []
    for b in F.bodies:
        tr = b.get("impl_trait") or ""
        i = tr.find(" as std::ops::")
        if i < 0 or "Polynomial" not in (b.get("impl_self") or ""):
            continue
        rest = tr[i + len(" as std::ops::"):-1]
        j = rest.find("<")
        op = rest[:j] if j >= 0 else rest
        if op != trait:
            continue
        rhs = rest[j + 1:-1] if j >= 0 else b["impl_self"]
        out.append((b, rhs))
    return out


def coeffs(v):
    if isinstance(v, dict) and "coefficients" in v:
        return v["coefficients"]
    raise Missing("not a polynomial value: %r" % (v,))


def trimmed(cs):
    cs = list(cs)
    while len(cs) > 1 and sym.is_zero(cs[-1]):
        cs.pop()
    return cs


def same_poly(cs, want):
    a, b = trimmed([cyc_reduce(sp.expand(x)) for x in cs]), trimmed([cyc_reduce(sp.expand(x)) for x in want])
    return len(a) == len(b) and all(sym.is_zero(x - y) for x, y in zip(a, b))


def timed(fn, seconds=20, default=None):
    """Run a pure computation under a wall-clock budget; returns `default` on timeout."""
    import signal

    def on_alarm(signum, frame):
        raise _Timeout()
    old = signal.signal(signal.SIGALRM, on_alarm)
    signal.setitimer(signal.ITIMER_REAL, seconds)
    try:
        return fn()
    except _Timeout:
        return default
    finally:
        signal.setitimer(signal.ITIMER_REAL, 0)
        signal.signal(signal.SIGALRM, old)


# ---- exact arithmetic with 16th roots of unity: the quotient ring Q(i)[c]/(8c⁴ − 8c² + 1), c = cos(π/8) --------------------------------
# sympy turns cos(π/8) into nested radicals whose products it simplifies slowly and unreliably; all cosines and sines of multiples of π/8 are
# Chebyshev polynomials in c, and 8c⁴ − 8c² + 1 is the minimal polynomial of c (irreducible over Q(i)), so remainders modulo it are normal forms.
CYC = sp.Symbol("cos_pi_8", real=True)
CYC_MIN = 8 * CYC ** 4 - 8 * CYC ** 2 + 1


def cyc_reduce(e):
    e = sp.sympify(e)
    if not e.has(CYC):
        return e
    return sp.expand(sp.rem(sp.expand(e), CYC_MIN, CYC))


def _cos_k(k):
    """cos(kπ/8) as a reduced polynomial in c."""
    k %= 16
    if k > 8:
        k = 16 - k
    return cyc_reduce(sp.chebyshevt(k, CYC))


class CycloInterp(vecint.VInterp):
    """VInterp in which cos/sin of multiples of π/8 are elements of Q[c]/(8c⁴ − 8c² + 1) and products are reduced."""
    def ev_MCall_numeric(self, n, rv):
        if n["name"] in ("cos", "sin") and not n["args"]:
            x = self.num(rv, n)
            try:
                q = sp.nsimplify(x / sp.pi * 8)
            except Exception:
                q = None
            if q is not None and getattr(q, "is_Integer", False):
                k = int(q)
                return _cos_k(k) if n["name"] == "cos" else _cos_k(k - 4)
        return vecint.VInterp.ev_MCall_numeric(self, n, rv)

    def binop(self, op, a, b, n):
        v = vecint.VInterp.binop(self, op, a, b, n)
        if op == "Mul" and hasattr(v, "has") and v.has(CYC):
            return cyc_reduce(v)
        return v
