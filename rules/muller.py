"""R8.9 — Muller's method: the quantities carried by the loop are the divided differences of the polynomial at the three current points,
the step is a root of the interpolating parabola, and the shift of the three points re-establishes the invariant.

One iteration of `muller_polynomial` is explored with the polynomial uninterpreted (P(z)), the three points symbolic and the carried
quantities preset to their invariant meaning
    h_1 = x1 − x0, h_2 = x2 − x1, δ_1 = P[x0,x1], δ_2 = P[x1,x2], δ = P[x0,x1,x2], poly_2_evaluated = P(x2).
With a = P[x0,x1,x2], b = P[x1,x2] + (x2 − x1)·a, c = P(x2) the parabola a·(z − x2)² + b·(z − x2) + c interpolates P at the three points
(identity, proved once on symbols); the step s of the code must satisfy a·s² + b·s + c = 0 modulo (sqrt(E))² = E for the radicand E the
code takes the root of, the denominator chosen is the larger one, and after the shift the carried quantities are the divided differences
at (x1, x2, x2 + s).  The same invariant must hold at loop entry.
"""
import sympy as sp

from bsa import guards, paths, sym
from bsa.hir import Missing, peel, pp, walk
from rules import c07

PATH = "roots::polynomial::muller_polynomial"
P = sp.Function("P")
SQ = sp.Function("SQRT")      # opaque square root: (SQRT(E))² = E is applied explicitly


class MInterp(guards.GInterp):
    """Complex::new(re, im) of a symbol is the symbol; poly.evaluate(z) = P(z); sqrt kept as sqrt."""
    def ev_Call(self, n):
        from bsa.hir import callee
        d = callee(n) or ""
        if d.endswith("Complex::<T>::new") or d.endswith("Complex::new"):
            a, b = self.ev(n["args"][0]), self.ev(n["args"][1])
            if b == 0:
                return a
            # Complex::new(z.real(), z.imaginary()) is z
            return a if str(a) == str(b) else a + sp.I * b
        return guards.GInterp.ev_Call(self, n)

    def ev_MCall(self, n):
        name = n["name"]
        if name == "evaluate":
            return P(self.num(self.ev(n["args"][0]), n))
        if name in ("make_complex", "real", "imaginary"):
            return self.ev(n["recv"])
        if name == "sqrt":
            return SQ(self.num(self.ev(n["recv"]), n))
        return guards.GInterp.ev_MCall(self, n)


def dd(*pts):
    """Divided difference of P over the given points."""
    if len(pts) == 1:
        return P(pts[0])
    return (dd(*pts[1:]) - dd(*pts[:-1])) / (pts[-1] - pts[0])


def zero(e):
    return sp.expand(sp.numer(sp.together(e))) == 0


def check(F, run):
    b = F.fn(PATH)
    run.analysed(b)
    st, loop = guards.first_loop(b)
    if loop is None:
        run.broken("R8.9", PATH, "loop", F.loc(b), "no main loop")
        return
    where = F.loc(b, loop)
    x0, x1, x2 = sym.S("X0"), sym.S("X1"), sym.S("X2")
    inv = {"poly_0": x0, "poly_1": x1, "poly_2": x2, "h_1": x1 - x0, "h_2": x2 - x1, "delta_1": dd(x0, x1), "delta_2": dd(x1, x2), "delta": dd(x0, x1, x2),
           "poly_2_evaluated": P(x2)}

    def names_of(it):
        return {nm: it.env.get(i) for i, nm in it.names.items()}
    # (0) the invariant at loop entry
    try:
        pre = paths.explore(F, b, stop_at=st, interp_cls=MInterp)
    except sym.Unsupported as u:
        run.broken("R8.9", PATH, "prefix", F.loc(b, u.node if isinstance(u.node, dict) else None), str(u))
        pre = []
    for p in pre:
        if not p.fell_through:
            continue
        cur = names_of(p.interp)
        a0, a1, a2 = cur.get("poly_0"), cur.get("poly_1"), cur.get("poly_2")
        if a0 is None or a1 is None or a2 is None:
            run.broken("R8.9", PATH, "prefix", F.loc(b), "the three start points are not bound before the loop")
            continue
        sub = {x0: a0, x1: a1, x2: a2}
        for nm in ("h_1", "h_2", "delta_1", "delta_2", "delta", "poly_2_evaluated"):
            want = inv[nm].subs(sub, simultaneous=True)
            got = cur.get(nm)
            run.check(got is not None and zero(got - want), "R8.9", PATH, "entry-invariant:" + nm, F.loc(b),
                      "at loop entry %s = %s, expected %s (divided differences of the polynomial at the three start points)" % (nm, got, want), sample="entry: %s" % nm)
    # (1) one iteration
    vals = dict(c07.constant_locals(F, b, cls=MInterp))
    vals.update(inv)
    try:
        lps = paths.explore(F, b, setup=c07.preset_all(b, vals), node=loop["body"], interp_cls=MInterp, limit=64)
    except sym.Unsupported as u:
        run.broken("R8.9", PATH, "iteration", F.loc(b, u.node if isinstance(u.node, dict) else loop), str(u))
        return
    a, bb, c = dd(x0, x1, x2), dd(x1, x2) + (x2 - x1) * dd(x0, x1, x2), P(x2)
    # the reference parabola interpolates (sanity of the reference itself)
    q = lambda z: a * (z - x2) ** 2 + bb * (z - x2) + c
    run.check(zero(q(x0) - P(x0)) and zero(q(x1) - P(x1)) and zero(q(x2) - P(x2)), "R8.9", "refs", "parabola-interpolates", "rules/muller.py", "reference parabola does not interpolate")
    n_paths = 0
    for p in lps:
        cur = names_of(p.interp)
        if guards.is_ok(p.result):
            pnew = p.result.args[0]
        elif p.fell_through:
            pnew = cur.get("poly_2")
        else:
            continue
        if not hasattr(pnew, "free_symbols"):
            continue
        n_paths += 1
        s_ = sp.together(pnew - x2)
        roots_ = list(s_.atoms(SQ))
        inst = "[%s%d]" % ("ok" if guards.is_ok(p.result) else "next", n_paths)
        if len(roots_) != 1:
            run.fail("R8.9", PATH, "step-shape" + inst, where, "the step %s does not contain exactly one square root" % str(s_)[:100])
            continue
        E = roots_[0].args[0]
        Dv = sp.Symbol("D_", real=True)
        expr = sp.together((a * s_ ** 2 + bb * s_ + c).subs(roots_[0], Dv))
        num = sp.numer(expr)
        rem = sp.rem(sp.expand(num), Dv ** 2 - sp.expand(E), Dv)
        run.check(sp.expand(rem) == 0, "R8.9", PATH, "step-is-root-of-parabola" + inst, where,
                  "the step s = %s does not satisfy a·s² + b·s + c = 0 for the parabola through the three current points (a = P[x0,x1,x2], b = P[x1,x2] + (x2−x1)·a, c = P(x2)), "
                  "taking (sqrt E)² = E for the code's radicand" % str(s_)[:120], sample="a·s² + b·s + c = 0 on path %s" % inst)
        # denominator choice: the larger of |b + D| and |b − D|
        lits = [l for l in p.pc if isinstance(l, sp.Basic) and l.has(sp.Abs) and l.has(roots_[0])]
        den = sp.cancel(sp.together(-2 * c / s_))
        ok_sign = False
        for l in lits:
            l0 = l.args[0] if isinstance(l, sp.Not) else l
            pos = not isinstance(l, sp.Not)
            if isinstance(l0, (sp.StrictLessThan, sp.LessThan, sp.StrictGreaterThan, sp.GreaterThan)):
                small, big = (l0.lhs, l0.rhs) if isinstance(l0, (sp.StrictLessThan, sp.LessThan)) else (l0.rhs, l0.lhs)
                if not pos:
                    small, big = big, small
                # on this path |small| <(=) |big| is known: the chosen denominator must be the argument of `big`
                bigs = [x.args[0] for x in big.atoms(sp.Abs)]
                if bigs and any(zero(den - x) for x in bigs):
                    ok_sign = True
        run.check(ok_sign, "R8.9", PATH, "larger-denominator" + inst, where,
                  "on the path %s the step divides by %s, which the path condition does not identify as the larger of |b + D| and |b − D|" % (inst, str(den)[:80]),
                  sample="denominator of larger magnitude on path %s" % inst)
        if p.fell_through:
            sub = {x0: x1, x1: x2, x2: pnew}
            for nm in ("poly_0", "poly_1", "h_1", "h_2", "delta_1", "delta_2", "delta", "poly_2_evaluated"):
                want = inv[nm].subs(sub, simultaneous=True)
                got = cur.get(nm)
                good = got is not None and zero(got - want)
                run.check(good, "R8.9", PATH, "shift-invariant:%s%s" % (nm, inst), where,
                          "after the shift %s = %s, expected %s (the divided differences at the new points x1, x2, x2 + s)" % (nm, str(got)[:80], str(want)[:80]),
                          sample="shift re-establishes %s" % nm)
    run.floor("R8.9", PATH, "iteration paths", n_paths, 2, where)
