"""C07 — bracketing root finders: guard, hull, success-criterion and cached-value clauses (structural).

R7.1  precondition guards: every path that reaches the iteration establishes the stated preconditions (ordered
      interval / sign change / tolerance and ITP parameter ranges); early exits return Err.
R7.2  bisection evaluates f only inside the hull: `middle` is a convex combination of the current end points at
      loop entry and after every iteration, and end points are only ever replaced by the evaluated midpoint.
R7.3  a success return is a convergence decision: every disjunct that lets a solver return Ok involves a function
      value, or is implied by a zero-width bracket; a disjunct that only says "the iterate is near the origin" is not.
R7.4  cached function values stay attached to their end points on every path of an iteration.
R7.5  sign-by-division `e / |e|` must be guarded by e != 0 (0/0 = NaN).
R7.6  IEEE sign predicates are not a three-way comparison: an `else` arm after is_sign_positive / is_sign_negative is dead.
R7.7  bisection's loop is a counter loop bounded by n_max (termination bound); Brent/ITP termination rests on numerical
      contraction and is not decided.
"""
import itertools

import sympy as sp

from bsa import cfg, guards, logic, paths, sym
from bsa.hir import Missing, callee, pat_binds, peel, place, pp, walk
from rules import caps

LEVEL = "other"

FNS = {"bisection": "roots::bisection", "brent": "roots::brent", "itp": "roots::itp"}
# role names of the instance table (confirmed by reading the pinned tree)
ROLES = {"bisection": {"left", "right", "middle", "f_a"},
         "brent": {"left", "right", "c", "s", "f_left", "f_right", "f_c", "f_s", "mflag"},
         "itp": {"left", "right", "f_left", "f_right", "x_half", "x_f", "x_t", "x_itp", "f_itp", "r", "delta", "sigma"}}


def S(n):
    return sym.S(n)


def fn_atom(it, name="f"):
    return it.fn_atom(name)


def reqs_for(name):
    def sign_change(a, b):
        return lambda it: sp.Lt(fn_atom(it)(a) * fn_atom(it)(b), 0)
    if name == "bisection":
        return [("left<right", lambda it: sp.Lt(S("left"), S("right"))), ("sign-change", sign_change(S("left"), S("right")))]
    if name == "brent":
        return [("tol>=0", lambda it: sp.Ge(S("tol"), 0)), ("sign-change", sign_change(S("initial.0"), S("initial.1")))]
    golden = (1 + sp.sqrt(5)) / 2
    return [("tol>=0", lambda it: sp.Ge(S("tol"), 0)), ("k_1>=0", lambda it: sp.Ge(S("k_1"), 0)), ("k_2>1", lambda it: sp.Gt(S("k_2"), 1)),
            ("k_2<1+golden", lambda it: sp.Lt(S("k_2"), 1 + golden)), ("n_0>=0", lambda it: sp.Ge(S("n_0"), 0)), ("sign-change", sign_change(S("initial.0"), S("initial.1")))]


def all_binds(body):
    out = {}
    for p in body["params"]:
        for i, nm in pat_binds(p):
            out.setdefault(nm, []).append(i)
    for n in walk(body["body"]):
        if n.get("k") in ("LetS", "For"):
            for i, nm in pat_binds(n["pat"]):
                out.setdefault(nm, []).append(i)
    return out


def preset_all(body, values):
    binds = all_binds(body)

    def setup(it):
        for nm, ids in binds.items():
            v = values.get(nm, sym.S(nm)) if not callable(values.get(nm)) else values[nm](it)
            for i in ids:
                it.env[i] = v
                it.names[i] = nm
    return setup


def constant_locals(F, body, cls=None):
    """Locals whose immutable definition folds to a number (half, two, three, four; also from earlier such constants and through
    `Complex::new(c, 0)`), in definition order.  A shadowing re-definition (`let four = Complex::new(four, 0)`) is accepted when every
    definition of the name folds to the same number."""
    by_id = {}
    binds = all_binds(body)
    names = {}
    for n in walk(body["body"]):
        if n.get("k") == "LetS" and n["pat"].get("k") == "Bind" and "init" in n and "Mut)" not in n["pat"].get("mode", ""):
            local_closures = {q["pat"]["id"] for q in walk(body["body"]) if q.get("k") == "LetS" and q["pat"].get("k") == "Bind" and peel(q.get("init") or {}).get("k") == "Closure"}
            if any(x.get("k") == "Call" and "ovl" in x and not (peel(x["f"]).get("k") == "Local" and peel(x["f"]).get("id") in local_closures) for x in walk(n["init"])):
                continue          # a call of the user's function is not a constant (a call of a local closure such as `to_complex` may be)
            try:
                it = (cls or guards.GInterp)(F, body, lambda c: True)
                for i, v in by_id.items():
                    it.env[i] = v
                    it.names[i] = names[i]
                v = it.ev(n["init"])
                if hasattr(v, "is_number") and v.is_number:
                    by_id[n["pat"]["id"]] = v
                    names[n["pat"]["id"]] = n["pat"]["name"]
            except Exception:
                pass
    out = {}
    for nm, ids in binds.items():
        vs = [by_id.get(i) for i in ids]
        if vs and all(v is not None for v in vs) and all(v == vs[0] for v in vs):
            out[nm] = vs[0]
    return out


def defined_locals(F, body, base=None):
    """Immutable `let`s of the function's top-level block (outside loops) expanded to expressions over the parameters (and the given base
    values): `let two_tol = two * tol` -> 2·tol.  Only lets whose initialiser involves no user call and no mutable local are expanded."""
    out = dict(base or {})
    muts = set()
    for n in walk(body["body"]):
        if n.get("k") == "LetS" and n["pat"].get("k") == "Bind" and "Mut)" in n["pat"].get("mode", ""):
            muts.add(n["pat"]["name"])
        if n.get("k") in ("Assign", "AssignOp") and peel(n["l"]).get("k") == "Local":
            muts.add(peel(n["l"])["name"])
    for st in body["body"].get("stmts", []):
        if st.get("k") != "LetS" or st["pat"].get("k") != "Bind" or "init" not in st or st["pat"]["name"] in muts:
            continue
        init = st["init"]
        if any(x.get("k") == "Call" and "ovl" in x for x in walk(init)) or any(x.get("k") == "Local" and x["name"] in muts for x in walk(init)):
            continue
        try:
            it = guards.GInterp(F, body, lambda c: True)
            preset_all(body, out)(it)
            v = it.ev(init)
        except Exception:
            continue
        if hasattr(v, "free_symbols") and not isinstance(v, sp.logic.boolalg.Boolean):
            out[st["pat"]["name"]] = v
    return out


def fvalue_locals(body):
    """Names of locals that hold values of the user function (dataflow fixpoint)."""
    fv = set()
    changed = True

    def is_fv_expr(e):
        e = peel(e)
        if e.get("k") == "Call" and "ovl" in e:
            return True
        if e.get("k") == "Local" and e["name"] in fv:
            return True
        return False
    while changed:
        changed = False
        for n in walk(body["body"]):
            tgt, src = None, None
            if n.get("k") == "LetS" and n["pat"].get("k") == "Bind" and "init" in n:
                tgt, src = n["pat"]["name"], n["init"]
            elif n.get("k") == "Assign" and peel(n["l"]).get("k") == "Local":
                tgt, src = peel(n["l"])["name"], n["r"]
            if tgt and tgt not in fv and is_fv_expr(src):
                fv.add(tgt)
                changed = True
    return fv


def check_hull(F, run, b, loop):
    dp = "roots::bisection"
    L, R = S("left"), S("right")
    ps = guards.prefix_paths(F, b)
    through = [p for p in ps if p.fell_through]
    for p in through:
        it = p.interp
        m = None
        for i, nm in it.names.items():
            if nm == "middle":
                m = it.env.get(i)
        if m is None:
            run.broken("R7.2", dp, "middle", F.loc(b), "no `middle` at loop entry")
            continue
        e = sp.expand(m)
        a, c = e.coeff(L), e.coeff(R)
        good = sym.is_zero(e - a * L - c * R) and a.is_number and c.is_number and a >= 0 and c >= 0 and a + c == 1
        run.check(good, "R7.2", dp, "entry-midpoint-in-hull", F.loc(b),
                  "at loop entry middle = %s is not a convex combination of the end points: the first evaluation can fall outside the bracket" % e,
                  sample="middle₀ = %s" % e)
        for pl, args, node, v in it.calls:
            x = sp.expand(args[0])
            a, c = x.coeff(L), x.coeff(R)
            good = sym.is_zero(x - a * L - c * R) and a.is_number and c.is_number and a >= 0 and c >= 0 and a + c == 1
            run.check(good, "R7.2", dp, "prefix-eval-in-hull:" + str(x), F.loc(b, node), "f is evaluated at %s before the loop, outside the closed interval" % x)
    # one iteration
    M = S("middle")
    try:
        lps = paths.explore(F, b, setup=preset_all(b, constant_locals(F, b)), node=loop["body"], interp_cls=guards.GInterp)
    except sym.Unsupported as u:
        run.broken("R7.2", dp, "iteration", F.loc(b, loop), "cannot interpret the loop body: %s" % u)
        return
    run.floor("R7.2", dp, "paths of one iteration", len(lps), 2, F.loc(b, loop))
    for p in lps:
        it = p.interp
        cur0 = {nm: it.env.get(i) for i, nm in it.names.items() if nm in ("left", "right")}
        inst = "[left'=%s,right'=%s,%s]" % (cur0.get("left"), cur0.get("right"), "returns" if not p.fell_through else "continues")
        for pl, args, node, v in it.calls:
            run.check(args[0] in (L, R, M), "R7.2", dp, "eval-at-midpoint" + inst, F.loc(b, node),
                      "f is evaluated at %s inside the loop, which is not the current midpoint/end point" % args[0], sample="f(%s)" % args[0])
        cur = {}
        for i, nm in it.names.items():
            if nm in ("left", "right", "middle"):
                cur[nm] = it.env.get(i)
        for end in ("left", "right"):
            run.check(cur.get(end) in (L, R, M), "R7.2", dp, "end-from-hull:%s%s" % (end, inst), F.loc(b, loop),
                      "after the iteration %s = %s is not one of {left, right, middle}" % (end, cur.get(end)))
        if p.fell_through and cur.get("middle") is not None:
            e = sp.expand(cur["middle"])
            l2, r2 = cur.get("left"), cur.get("right")
            lam = sp.Symbol("lam")
            ok = False
            for a in (sp.Rational(1, 2),):
                ok = ok or sym.is_zero(e - (a * l2 + (1 - a) * r2))
            if not ok:
                # general convex check: e = a*l2 + c*r2 with a+c=1, a,c>=0 when l2, r2 are distinct symbols
                if l2 != r2:
                    a, c = e.coeff(l2) if l2.is_Symbol else None, e.coeff(r2) if r2.is_Symbol else None
                    ok = a is not None and c is not None and sym.is_zero(e - a * l2 - c * r2) and a.is_number and c.is_number and a >= 0 and c >= 0 and a + c == 1
            run.check(ok, "R7.2", dp, "next-midpoint-in-hull" + inst, F.loc(b, loop),
                      "the next midpoint %s is not a convex combination of the updated end points (%s, %s)" % (e, l2, r2),
                      sample="middle' = %s with (left', right') = (%s, %s)" % (e, l2, r2))


class HullInterp(guards.GInterp):
    """Loop body of Brent / ITP with the non-linear quantities re-bound to free symbols (instance table REBIND)."""
    REBIND = {}

    def bind(self, pat, val, node=None):
        if pat.get("k") == "Bind" and pat["name"] in self.REBIND:
            self.recorded = getattr(self, "recorded", {})
            self.recorded[pat["name"]] = val
            val = self.REBIND[pat["name"]]
        return guards.GInterp.bind(self, pat, val, node)

    def assign(self, lhs, val, node):
        l = peel(lhs)
        if l.get("k") == "Local" and l["name"] in self.REBIND and hasattr(val, "free_symbols") and not (val.free_symbols <= {sym.S("left"), sym.S("right")}):
            self.recorded = getattr(self, "recorded", {})
            self.recorded.setdefault(l["name"], []).append(val) if isinstance(self.recorded.get(l["name"], []), list) else None
            val = self.REBIND[l["name"]]
        return guards.GInterp.assign(self, lhs, val, node)


def in_hull(x, a, b):
    return sp.Or(sp.And(sp.Le(a, x), sp.Le(x, b)), sp.And(sp.Le(b, x), sp.Le(x, a)))


def check_hull_brent_itp(F, run, name, b, loop):
    """R7.2 for Brent / ITP: every abscissa handed to f inside the loop lies in the hull of the current bracket, by linear
    arithmetic (Fourier–Motzkin) over the path condition of each path of one iteration."""
    from bsa import logic
    dp = FNS[name]
    L, R = sym.S("left"), sym.S("right")
    consts = constant_locals(F, b)
    if name == "itp":
        XF, DELTA, RR = sym.S("XF"), sym.S("DELTA"), sym.S("RR")
        rebind = {"x_f": XF, "delta": DELTA, "r": RR}
        assume = [sp.Ge(DELTA, 0), sp.Ge(RR, 0)]
        hull_syms = [XF]
    else:
        S0 = sym.S("S_interp")
        rebind = {"s": S0}
        assume = []
        hull_syms = []

    class HI(HullInterp):
        REBIND = rebind
    vals = dict(consts)
    vals.update({k: v for k, v in rebind.items() if name != "brent"})
    try:
        lps = paths.explore(F, b, setup=preset_all(b, consts), node=loop["body"], interp_cls=HI, limit=512)
    except sym.Unsupported as u:
        run.broken("R7.2", dp, "iteration-hull", F.loc(b, loop), "cannot interpret the loop body: %s" % u)
        return
    n_calls = 0
    for p in lps:
        it = p.interp
        # the regula-falsi point is in the hull when the end values have opposite signs (lemma); check that x_f *is* that point
        if name == "itp":
            rec = getattr(it, "recorded", {})
            f = it.fn_atom("f")
            fl, fr = sym.S("f_left"), sym.S("f_right")
            want = (fr * L - fl * R) / (fr - fl)
            run.check("x_f" in rec and sym.is_zero(rec["x_f"] - want), "R7.2", dp, "x_f-is-regula-falsi", F.loc(b, loop),
                      "x_f is %s, not the regula-falsi point (f_r·l − f_l·r)/(f_r − f_l) (which lies in the bracket when the end values have opposite signs)" % rec.get("x_f"))
        for pl, args, node, v in it.calls:
            n_calls += 1
            x = args[0]
            # relevance filter (sound: dropping hypotheses only weakens them): keep the conjuncts of the path condition that speak
            # about the bracket, the trial point and the re-bound quantities only
            relevant = {L, R} | set(x.free_symbols) | set(hull_syms) | set(rebind.values()) | {sym.S("x_half")}
            pc = []
            stack = [sp.to_nnf(c, simplify=False) if isinstance(c, sp.Basic) else c for c in p.pc]
            while stack:
                c = stack.pop()
                if isinstance(c, sp.And):
                    stack.extend(c.args)
                    continue
                if isinstance(c, sp.Basic) and not isinstance(c, sp.Symbol) and c.free_symbols and c.free_symbols <= relevant and not c.atoms(sp.core.function.AppliedUndef):
                    pc.append(c)
            ok = True
            for order in (sp.Le(L, R), sp.Le(R, L)):
                hyp = [order] + assume + [in_hull(h, L, R) for h in hull_syms] + pc
                g = sp.And(*hyp)
                tgt = sp.And(sp.Le(sp.Min(L, R), x), sp.Le(x, sp.Max(L, R)))
                lo, hi = (L, R) if order.lhs == L else (R, L)
                tgt = sp.And(sp.Le(lo, x), sp.Le(x, hi))
                if not logic.lin_entails(g, tgt):
                    ok = False
            inst = "[x=%s]" % str(x).replace(" ", "")[:60]
            run.check(ok, "R7.2", dp, "eval-in-hull" + inst, F.loc(b, node),
                      "on the path %s of one iteration f is evaluated at %s, which the path condition does not confine to the closed bracket [left, right]: "
                      "the truncation/projection safeguard does not keep the trial point inside" % (inst, str(x)[:80]),
                      sample="%s path %s: f(%s) in hull(left, right)" % (name, inst, str(x)[:50]))
    run.floor("R7.2", dp, "function evaluations over the paths of one iteration", n_calls, 2, F.loc(b, loop))


def check_success_criterion(F, run, name, b):
    dp = FNS[name]
    fv = fvalue_locals(b)
    binds = all_binds(b)
    tolsym = sp.Symbol("tol", positive=True)
    values = {nm: (sp.Symbol("fv_" + nm, real=True) if nm in fv else sym.S(nm)) for nm in binds}
    values["tol"] = tolsym
    values.update(constant_locals(F, b))
    values.update({k: v for k, v in defined_locals(F, b, {"tol": tolsym, **constant_locals(F, b)}).items() if k not in fv})
    pm = cfg.parent_map(b["body"])
    oks = []
    for n in walk(b["body"], into_closures=False):
        if n.get("k") == "Call" and (callee(n) or "").endswith("Ok") and "prelude" in (callee(n) or "") or (n.get("k") == "Call" and callee(n) == "std::prelude::v1::Ok"):
            if cfg.in_return_position(b["body"], pm, n):       # (an `Ok(())` that is the value of a validation block under `?` is not a result)
                oks.append(n)
    run.floor("R7.3", dp, "Ok returns", len(oks), 1, F.loc(b))
    abscissae = [values[nm] for nm in binds if nm not in fv and isinstance(values[nm], sp.Symbol) and nm not in ("tol", "n", "n_max", "j", "k_1", "k_2", "n_0", "half", "two", "three", "four", "mflag", "n_half", "f")]
    x = sp.Symbol("x_common", real=True, nonzero=True)
    seen_conditions = set()
    for okn in oks:
        # deciding condition: nearest enclosing If (with polarity), else the exit of the last loop before it
        cond = None
        cur = okn
        while id(cur) in pm:
            par = pm[id(cur)]
            if par.get("k") == "If" and cur is not par.get("c"):
                # skip pure selection between two successes (both branches return Ok)
                both_ok = "e" in par and "Ok(" in pp(par["t"]) and "Ok(" in pp(par["e"])
                if not both_ok:
                    cond = (par["c"], cur is par.get("t"))
                    break
            if par.get("k") in ("While",):
                break
            cur = par
        if cond is None:
            # after a loop: negated loop condition
            top = cur
            while id(top) in pm and pm[id(top)].get("k") != "Block":
                top = pm[id(top)]
            loops = [n for n in walk(b["body"], into_closures=False) if n.get("k") == "While"]
            inside = [w for w in loops if any(a is w for a in cfg.ancestors(pm, okn))]
            if inside:
                run.broken("R7.3", dp, "ok-in-loop-without-condition", F.loc(b, okn), "unconditional Ok inside the loop")
                continue
            if not loops:
                run.fail("R7.3", dp, "unconditional-ok", F.loc(b, okn), "Ok is returned without any convergence decision")
                continue
            cond = (loops[-1]["c"], False)
        cnode, pol = cond
        key = (id(cnode), pol)
        if key in seen_conditions:
            continue
        seen_conditions.add(key)
        try:
            it = guards.GInterp(F, b, lambda c: True)
            preset_all(b, values)(it)
            cv = it.ev(cnode)
        except sym.Unsupported as u:
            run.broken("R7.3", dp, "condition:" + pp(cnode)[:40], F.loc(b, cnode), "cannot interpret the success condition: %s" % u)
            continue
        if not pol:
            cv = sp.Not(cv)
        d = sp.to_dnf(cv, simplify=False)
        disj = d.args if isinstance(d, sp.Or) else (d,)
        for dj in disj:
            has_fv = any(s.name.startswith("fv_") for s in dj.free_symbols)
            collapsed = dj.subs({a: x for a in abscissae})
            try:
                implied = sp.simplify(collapsed) is sp.true or collapsed is sp.true
            except Exception:
                implied = False
            run.check(has_fv or implied, "R7.3", dp, "success-disjunct:" + str(dj)[:60], F.loc(b, cnode),
                      "Ok can be returned because `%s` holds; this involves neither a function value nor the bracket width (it is not implied by a zero-width "
                      "bracket): a point is returned because it is near the origin, not because it is a root" % dj,
                      sample="%s: success when %s" % (name, str(dj)[:70]))
            if name in ("brent", "itp"):
                # the statement makes Brent's and ITP's tolerance absolute: wherever the tolerance bounds a width or a function value its coefficient is a constant
                for l in (dj.args if isinstance(dj, sp.And) else (dj,)):
                    l0 = l.args[0] if isinstance(l, sp.Not) else l
                    if not isinstance(l0, sp.core.relational.Relational) or tolsym not in l0.free_symbols:
                        continue
                    c = sp.expand(l0.lhs - l0.rhs).coeff(tolsym)
                    run.check(bool(c.is_number and c != 0), "R7.3", dp, "absolute-tolerance:" + str(dj)[:50], F.loc(b, cnode),
                              "in the success condition `%s` the tolerance is scaled by %s: %s's tolerance is absolute (a bracket far from the origin would be accepted at a "
                              "width of tol·|x|)" % (dj, c, name), sample="%s: tolerance enters `%s` with the constant factor %s" % (name, str(l0)[:50], c))


def check_cached_values(F, run, name, b, loop):
    dp = FNS[name]
    ps = guards.prefix_paths(F, b)
    through = [p for p in ps if p.fell_through]
    if not through:
        return
    it0 = through[0].interp
    f = it0.fn_atoms.get("f")
    if f is None:
        run.broken("R7.4", dp, "f", F.loc(b), "user function never called before the loop")
        return
    vals = {}
    for i, nm in it0.names.items():
        v = it0.env.get(i)
        if v is not None and hasattr(v, "free_symbols"):
            vals[nm] = v
    # instance table (confirmed by reading): which local caches f at which abscissa; validated against the prefix state
    table = {"bisection": [("left", "f_a")], "brent": [("left", "f_left"), ("right", "f_right"), ("c", "f_c"), ("s", "f_s")],
             "itp": [("left", "f_left"), ("right", "f_right")]}[name]
    pairs = []
    for u, v in table:
        if u not in vals or v not in vals:
            run.broken("R7.4", dp, "pair:%s~%s" % (u, v), F.loc(b), "cache pair (%s, %s) of the instance table no longer exists" % (u, v))
            continue
        run.check(vals[v] == f(vals[u]), "R7.4", dp, "entry:%s~%s" % (u, v), F.loc(b), "at loop entry %s = %s is not f(%s = %s)" % (v, vals[v], u, vals[u]),
                  sample="entry: %s = f(%s)" % (v, u))
        pairs.append((u, v))
    run.floor("R7.4", dp, "cached (abscissa, value) pairs", len(pairs), {"bisection": 1, "brent": 3, "itp": 2}[name], F.loc(b))
    values = {}
    for u, v in pairs:
        values[u] = sym.S(u.upper() + "0")
    for u, v in pairs:
        values[v] = (lambda uu: (lambda it: it.fn_atom("f")(values[uu])))(u)
    try:
        lps = paths.explore(F, b, setup=preset_all(b, values), node=loop["body"], interp_cls=guards.GInterp, limit=256)
    except sym.Unsupported as e:
        run.broken("R7.4", dp, "iteration", F.loc(b, loop), "cannot interpret the loop body: %s" % e)
        return
    for p in lps:
        it = p.interp
        ff = it.fn_atom("f")
        cur = {}
        for i, nm in it.names.items():
            cur[nm] = it.env.get(i)
        inst = "[%s]" % ",".join(("T" if not isinstance(c, sp.Not) else "F") for c in p.pc)
        for u, v in pairs:
            good = cur[v] == ff(cur[u])
            collapsed = name == "itp" and cur.get("left") == cur.get("right")
            if collapsed and not good:
                run.ok("R7.4", "named-exception", "ITP exact-root arm collapses the bracket (left = right); caches are irrelevant after it")
                continue
            run.check(good, "R7.4", dp, "attached:%s~%s%s" % (u, v, inst), F.loc(b, loop),
                      "after an iteration %s = %s but its cached value %s = %s is not f(%s)" % (u, cur[u], v, cur[v], u),
                      sample="%s = f(%s) preserved on path %s" % (v, u, inst))


# ---- R7.8: the bracket keeps a sign change — finite reachability over IEEE signs ---------------------------------------------
SB = sp.Function("signbit")
SG = ("N", "NZ", "PZ", "P")            # negative, −0.0, +0.0, positive
_BIT = {"N": 1, "NZ": 1, "PZ": 0, "P": 0}
_ZERO = {"N": False, "NZ": True, "PZ": True, "P": False}


def _mk(bit, zero):
    return ("NZ" if bit else "PZ") if zero else ("N" if bit else "P")


class SignInterp(guards.GInterp):
    """is_sign_positive / is_sign_negative are kept as tests of the IEEE sign bit (not as >= 0 / < 0)."""
    def ev_MCall(self, n):
        if n["name"] in ("is_sign_positive", "is_sign_negative") and not n["args"]:
            x = self.num(self.ev(n["recv"]), n)
            return sp.Eq(SB(x), 0 if n["name"] == "is_sign_positive" else 1)
        return guards.GInterp.ev_MCall(self, n)


def signs_of(e, sigma):
    """Possible IEEE signs of the value of e when the function values (atoms f(..)) have the signs sigma; unknown -> all four."""
    e = sp.sympify(e)
    if e in sigma:
        return {sigma[e]}
    if e.is_number:
        if e == 0:
            return {"PZ"}
        return {"P"} if e > 0 else {"N"}
    if isinstance(e, sp.Mul):
        cur = {"P1"}
        acc = {(0, False)}
        for a in e.args:
            sa = signs_of(a, sigma)
            nxt = set()
            for (b, z) in acc:
                for t in sa:
                    nb, nz = b ^ _BIT[t], z or _ZERO[t]
                    nxt.add((nb, nz))
                    if not nz:
                        nxt.add((nb, True))        # a product of non-zeros may underflow to a zero of the same sign
            acc = nxt
        return {_mk(b, z) for b, z in acc}
    if isinstance(e, sp.Abs):
        return {_mk(0, _ZERO[t]) for t in signs_of(e.args[0], sigma)}
    if isinstance(e, sp.sign):
        return {_mk(_BIT[t], False) for t in signs_of(e.args[0], sigma)}
    if isinstance(e, sp.Pow) and e.args[1] == -1:
        return {t for t in signs_of(e.args[0], sigma) if not _ZERO[t]} or set(SG)
    return set(SG)


def truth_of(l, sigma):
    """Possible truth values of a path literal under sigma (three-valued: {True}, {False} or both)."""
    BOTH = {True, False}
    if l is sp.true:
        return {True}
    if l is sp.false:
        return {False}
    if isinstance(l, sp.Not):
        return {not t for t in truth_of(l.args[0], sigma)}
    if isinstance(l, sp.And):
        r = {True}
        for a in l.args:
            ta = truth_of(a, sigma)
            r = {x and y for x in r for y in ta}
        return r
    if isinstance(l, sp.Or):
        r = {False}
        for a in l.args:
            ta = truth_of(a, sigma)
            r = {x or y for x in r for y in ta}
        return r
    if isinstance(l, (sp.Eq, sp.Ne)) and l.lhs.func == SB and l.rhs in (0, 1):
        ss = signs_of(l.lhs.args[0], sigma)
        r = {(_BIT[t] == int(l.rhs)) for t in ss}
        return r if isinstance(l, sp.Eq) else {not t for t in r}
    if isinstance(l, (sp.Eq, sp.Ne)):
        from sympy.logic.boolalg import Boolean
        a, b_ = l.lhs, l.rhs
        r = None
        if isinstance(a, Boolean) and isinstance(b_, Boolean):
            # equality of two sign tests: `x.is_sign_positive() == y.is_sign_positive()`
            r = {x == y for x in truth_of(a, sigma) for y in truth_of(b_, sigma)}
        elif isinstance(a, sp.sign) and isinstance(b_, sp.sign):
            # Rust's signum is ±1 by the sign bit (signum(−0.0) = −1)
            r = {_BIT[x] == _BIT[y] for x in signs_of(a.args[0], sigma) for y in signs_of(b_.args[0], sigma)}
        if r is not None:
            return r if isinstance(l, sp.Eq) else {not t for t in r}
    if isinstance(l, sp.core.relational.Relational):
        lhs, rhs = l.lhs, l.rhs
        if lhs == 0 and rhs != 0:
            l = l.reversed
            lhs, rhs = l.lhs, l.rhs
        if rhs == 0:
            ss = signs_of(lhs, sigma)
            if ss == set(SG) and not any(lhs.has(a) for a in sigma):
                return BOTH
            out = set()
            for t in ss:
                v = 0 if _ZERO[t] else (-1 if _BIT[t] else 1)
                out.add(bool(l.func(v, 0)))
            return out
    return BOTH


def check_sign_reachability(F, run, name, b, loop):
    """R7.8.  State at the loop head = (IEEE sign of f at `left`, IEEE sign of f at `right`), signs in {negative, −0, +0, positive}.  Entry states
    are those that pass the guard prefix; one iteration is explored path-sensitively and every path literal that tests a function value
    (sign-bit predicates, comparisons with 0, products — which may underflow to a zero) is evaluated on the signs; the function value at a
    new abscissa is any of the four.  Every reachable state must still bracket: not both ends strictly positive, not both strictly negative."""
    dp = FNS[name]
    ends = ("left", "right")
    caches = {"bisection": {"left": "f_a"}, "brent": {"left": "f_left", "right": "f_right"}, "itp": {"left": "f_left", "right": "f_right"}}[name]
    try:
        pre = paths.explore(F, b, stop_at=guards.first_loop(b)[0], interp_cls=SignInterp)
    except sym.Unsupported as u:
        run.broken("R7.8", dp, "prefix", F.loc(b, u.node if isinstance(u.node, dict) else None), str(u))
        return

    def end_exprs(it):
        cur = {nm: it.env.get(i) for i, nm in it.names.items()}
        return cur

    def atoms_f(it):
        f = it.fn_atoms.get("f")
        return f

    states = set()
    for p in pre:
        if not p.fell_through:
            continue
        it = p.interp
        f = it.fn_atoms.get("f")
        cur = end_exprs(it)
        if f is None or any(cur.get(e) is None for e in ends):
            run.broken("R7.8", dp, "entry", F.loc(b), "no bracket ends / no function value before the loop")
            return
        fl, fr = f(cur["left"]), f(cur["right"])
        atoms = sorted({a for l in p.pc for a in l.atoms(sp.Function) if a.func == f} | {fl, fr}, key=str)
        for combo in itertools.product(SG, repeat=len(atoms)):
            sigma = dict(zip(atoms, combo))
            if all(True in truth_of(l, sigma) for l in p.pc):
                states.add((sigma[fl], sigma[fr]))
    if not states:
        run.broken("R7.8", dp, "entry", F.loc(b), "no abstract state passes the guard prefix")
        return
    n_entry = len(states)
    L0, R0 = sym.S("LEFT0"), sym.S("RIGHT0")
    values = {"left": L0, "right": R0}
    for e_, c_ in caches.items():
        values[c_] = (lambda pos: (lambda it: it.fn_atom("f")(pos)))(values[e_])
    try:
        lps = paths.explore(F, b, setup=preset_all(b, values), node=loop["body"], interp_cls=SignInterp, limit=512)
    except sym.Unsupported as u:
        run.broken("R7.8", dp, "iteration", F.loc(b, u.node if isinstance(u.node, dict) else loop), str(u))
        return
    # transitions, computed once per path as a function of (state, signs of the new function values)
    work = list(states)
    seen = set(states)
    witness = {}
    n_trans = 0
    while work:
        st = work.pop()
        for pi, p in enumerate(lps):
            it = p.interp
            f = it.fn_atom("f")
            cur = end_exprs(it)
            base = {f(L0): st[0], f(R0): st[1]}
            new_atoms = sorted(({a for l in p.pc for a in l.atoms(sp.Function) if a.func == f} | {f(cur["left"]), f(cur["right"])}) - set(base), key=str)
            if len(new_atoms) > 3:
                run.broken("R7.8", dp, "iteration", F.loc(b, loop), "more than three new function values on one path")
                return
            for combo in itertools.product(SG, repeat=len(new_atoms)):
                sigma = dict(base)
                sigma.update(zip(new_atoms, combo))
                if not all(True in truth_of(l, sigma) for l in p.pc):
                    continue
                n_trans += 1
                ns = (sigma[f(cur["left"])], sigma[f(cur["right"])])
                if ns not in seen:
                    seen.add(ns)
                    witness[ns] = (st, pi, dict((str(k), v) for k, v in sigma.items()))
                    work.append(ns)
    names = {"N": "negative", "NZ": "-0.0", "PZ": "+0.0", "P": "positive"}
    bad = sorted(s_ for s_ in seen if s_ in (("P", "P"), ("N", "N")))
    for s_ in bad:
        frm, pi, sig = witness.get(s_, (None, None, None))
        run.fail("R7.8", dp, "bracket-lost:f(left)=%s,f(right)=%s" % (names[s_[0]], names[s_[1]]), F.loc(b, loop),
                 "the loop can reach a bracket whose ends both have %s function values (no sign change, no zero): from f(left) %s, f(right) %s with %s "
                 "— IEEE semantics: x.is_sign_positive() tests the sign bit (−0.0 is negative), `x >= 0` is true for −0.0, a product of non-zeros may underflow to ±0"
                 % (names[s_[0]], names[frm[0]] if frm else "?", names[frm[1]] if frm else "?", sig))
    if not bad:
        run.ok("R7.8", "bracket-kept:" + name, "%s: %d reachable sign states from %d entry states, %d transitions; every one brackets a root" % (name, len(seen), n_entry, n_trans))
    run.floor("R7.8", dp, "entry sign states", n_entry, 2, F.loc(b))


def check_itp_orientation(F, run, b, loop):
    """R7.9 — ITP's projection radius r = tol·2^(n_max − j) − width/2 and its truncation δ = k_1·width^k_2 need the non-negative bracket width.
    The ends are exchanged by sign (f(left) < 0 < f(right)), so for a decreasing function left > right: with a signed (right − left) the radius
    exceeds the half-width on every iteration (the minmax safeguard never engages and the evaluation count is not bounded by n_1/2 + n_0) and δ is
    NaN for non-integer k_2.  Either every path into the loop establishes left <= right, or r and δ are invariant under exchanging the ends."""
    from bsa import logic
    dp = FNS["itp"]
    L, R = sym.S("left"), sym.S("right")

    class Rec(HullInterp):
        REBIND = {"delta": sym.S("DELTA"), "r": sym.S("RR")}
    consts = constant_locals(F, b)
    sym_ok = None
    try:
        lps = paths.explore(F, b, setup=preset_all(b, consts), node=loop["body"], interp_cls=Rec, limit=512)
        recs = [getattr(p.interp, "recorded", {}) for p in lps]
        exprs = [(nm, rc[nm]) for rc in recs for nm in ("delta", "r") if nm in rc and hasattr(rc[nm], "subs")]
        if exprs:
            tmp = sp.Symbol("_swap_tmp", real=True)
            sym_ok = all(sp.simplify(e.subs({L: tmp, R: L}).subs({tmp: R}) - e) == 0 for _, e in exprs) and {nm for nm, _ in exprs} == {"delta", "r"}
    except sym.Unsupported as u:
        run.broken("R7.9", dp, "width-formulas", F.loc(b, loop), str(u))
        return
    if sym_ok is None:
        run.broken("R7.9", dp, "width-formulas", F.loc(b, loop), "the truncation δ and the projection radius r were not found in the loop body")
        return
    ps = guards.prefix_paths(F, b)
    n = 0
    for p in ps:
        if not p.fell_through:
            continue
        n += 1
        cur = {nm: p.interp.env.get(i) for i, nm in p.interp.names.items()}
        l_, r_ = cur.get("left"), cur.get("right")
        pc = [c for c in p.pc if isinstance(c, sp.Basic) and not c.atoms(sp.core.function.AppliedUndef)]
        ordered = l_ is not None and r_ is not None and logic.lin_entails(sp.And(*pc) if pc else sp.true, sp.Le(l_, r_))
        inst = "[%s]" % ",".join("T" if not isinstance(c, sp.Not) else "F" for c in p.pc)
        run.check(ordered or sym_ok, "R7.9", dp, "bracket-width-non-negative" + inst, F.loc(b, loop),
                  "on the path %s into the iteration the bracket is (left, right) = (%s, %s), nothing establishes left <= right, and the truncation / projection radius use the "
                  "signed difference (right − left): for a decreasing function (or a bracket given in reverse order) the radius always exceeds the half-width and the "
                  "worst-case bound n_1/2 + n_0 on the number of evaluations is lost" % (inst, l_, r_),
                  sample="itp entry path %s: %s" % (inst, "left <= right" if ordered else "δ and r are symmetric in the ends"))
    run.floor("R7.9", dp, "paths into the loop", n, 1, F.loc(b))
    # R7.10 — the projection radius r = tol·2^e − width/2 is non-negative on every iteration (the hull argument of R7.2 assumes it, and a negative
    # radius pushes the iterate away from the midpoint until it sticks to an end point: no termination).  Preconditions of the standard argument:
    # n_1/2 >= log2(width_0/(2 tol)), e >= n_1/2 − j for n_0 >= 0 (guarded, R7.1), j counts the iterations from 0.
    j_, n0_, nmax_, nh_ = sym.S("j"), sym.S("n_0"), sym.S("n_max"), sym.S("n_half")
    tol_ = sym.S("tol")
    for p in ps:
        if not p.fell_through:
            continue
        cur = {nm: p.interp.env.get(i) for i, nm in p.interp.names.items()}
        nm_, l_, r_ = cur.get("n_max"), cur.get("left"), cur.get("right")
        # n_1/2 is the ceil(log2(·)) term of n_max (whether or not it has a local of its own)
        nh = None
        if hasattr(nm_, "atoms"):
            cands = [a for a in nm_.atoms(sp.Function) if str(a.func) == "ceil"]
            if len(cands) == 1:
                nh = cands[0]
        ok_nh = False
        if nh is not None and str(getattr(nh, "func", "")) == "ceil" and str(getattr(nh.args[0], "func", "")) == "log2":
            arg = nh.args[0].args[0]
            ok_nh = sp.simplify(arg - sp.Abs(r_ - l_) / (2 * tol_)) == 0 or sp.simplify(arg - sp.Abs(l_ - r_) / (2 * tol_)) == 0
        run.check(ok_nh, "R7.10", dp, "n_half>=log2(width/(2tol))", F.loc(b),
                  "n_1/2 is %s; expected ceil(log2(|right − left| / (2·tol))) — rounding it down makes 2^(n_1/2)·2·tol smaller than the bracket and the projection radius negative" % nh,
                  sample="n_half = ceil(log2(width/(2 tol)))")
        run.check(nm_ is not None and nh is not None and sym.is_zero(nm_ - nh - n0_), "R7.10", dp, "n_max=n_half+n_0", F.loc(b), "n_max is %s, expected n_half + n_0" % nm_)
        run.check(cur.get("j") == 0, "R7.10", dp, "j-starts-at-0", F.loc(b), "the iteration counter starts at %s" % cur.get("j"))
        break
    n_r = 0
    for p in lps:
        rec = getattr(p.interp, "recorded", {})
        if "r" not in rec or not hasattr(rec["r"], "atoms"):
            continue
        n_r += 1
        pw = [q for q in rec["r"].atoms(sp.Pow) if q.base == 2]
        ok_e = False
        e = None
        if len(pw) == 1:
            e = pw[0].exp
            d = sp.expand(e.subs(nmax_, nh_ + n0_) - (nh_ - j_))
            ok_e = d.free_symbols <= {n0_} and sp.Poly(d, n0_).degree() <= 1 and all(c >= 0 for c in sp.Poly(d, n0_).all_coeffs())
            ok_e = ok_e and sym.is_zero(sp.expand(rec["r"]) - sp.expand(tol_ * pw[0] - sp.Abs(sym.S("right") - sym.S("left")) / 2))
        run.check(ok_e, "R7.10", dp, "radius=tol·2^(>=n_half−j)−width/2", F.loc(b, loop),
                  "the projection radius is %s; expected tol·2^e − |right − left|/2 with e − (n_1/2 − j) a non-negative multiple of n_0" % rec["r"],
                  sample="r = tol·2^(%s) − width/2" % e)
        if p.fell_through:
            cur = {nm: p.interp.env.get(i) for i, nm in p.interp.names.items()}
            run.check(sym.is_zero(cur.get("j") - j_ - 1), "R7.10", dp, "j-counts-iterations", F.loc(b, loop), "after an iteration j is %s" % cur.get("j"))
        break
    run.floor("R7.10", dp, "iterations with a recorded radius", n_r, 1, F.loc(b))


def formula_to_sympy(f, ev):
    """cfg guard formula -> sympy, evaluating literal nodes with `ev`."""
    if f == cfg.TRUE:
        return sp.true
    if f == cfg.FALSE:
        return sp.false
    if f[0] == "lit":
        v = ev(f[1])
        return v if f[2] else sp.Not(v)
    if f[0] == "and":
        return sp.And(*[formula_to_sympy(x, ev) for x in f[1]])
    if f[0] == "or":
        return sp.Or(*[formula_to_sympy(x, ev) for x in f[1]])
    if f[0] == "not":
        return sp.Not(formula_to_sympy(f[1], ev))
    raise sym.Unsupported(None, "guard formula %r" % (f[0],))


def check_brent_return(F, run, b):
    """R7.11 — Brent: the point handed back is the one the exit condition speaks about.  For every `Ok(x)` (inside or after the loop) and every
    satisfiable disjunct of the condition under which it is reached (enclosing branches, earlier early exits not taken, and the negated loop
    condition when it follows the loop): either the disjunct bounds the *cached value of x itself* by the tolerance, or x is an end of the
    bracket and the disjunct bounds the bracket width by the tolerance."""
    from bsa import logic
    dp = FNS["brent"]
    cache = {"left": "f_left", "right": "f_right", "s": "f_s", "c": "f_c"}
    fv = fvalue_locals(b)
    binds = all_binds(b)
    tolsym = sp.Symbol("tol", positive=True)
    values = {nm: (sp.Symbol("fv_" + nm, real=True) if nm in fv else sym.S(nm)) for nm in binds}
    values["tol"] = tolsym
    values.update(constant_locals(F, b))
    pm = cfg.parent_map(b["body"])
    loops = [n for n in walk(b["body"], into_closures=False) if n.get("k") == "While"]
    if len(loops) != 1:
        run.broken("R7.11", dp, "loop", F.loc(b), "expected one main loop")
        return
    loop = loops[0]

    def ev(node):
        it = guards.GInterp(F, b, lambda c: True)
        preset_all(b, values)(it)
        return it.ev(node)
    n_ok = 0
    for okn in walk(b["body"], into_closures=False):
        if not (okn.get("k") == "Call" and (callee(okn) or "").endswith("::Ok") and okn.get("args")):
            continue
        inside = any(a is loop for a in cfg.ancestors(pm, okn))
        if not inside and not cfg.before(b["body"], loop, okn):
            continue        # an early Ok before the iteration (none today) is R7.3's business
        arg = peel(okn["args"][0])
        name = arg.get("name") if arg.get("k") == "Local" else None
        n_ok += 1
        if name not in cache:
            run.fail("R7.11", dp, "returned:" + pp(okn)[:30], F.loc(b, okn), "Brent returns %s, which is not one of the tracked abscissae" % pp(arg))
            continue
        try:
            cond = formula_to_sympy(cfg.guards_of(b["body"], okn), ev)
            if inside:
                # the loop condition held at the head of this iteration; what matters is the branch that returns
                pass
            else:
                cond = sp.And(cond, sp.Not(ev(loop["c"])))
        except sym.Unsupported as u:
            run.broken("R7.11", dp, "condition:" + name, F.loc(b, okn), str(u))
            continue
        d = sp.to_dnf(sp.to_nnf(cond, simplify=False), simplify=False)
        own = sp.Symbol("fv_" + cache[name], real=True)
        width_ok = name in ("left", "right")
        for dj in (d.args if isinstance(d, sp.Or) else (d,)):
            if logic.unsat(dj):
                continue
            lits = dj.args if isinstance(dj, sp.And) else (dj,)
            good = False
            for l in lits:
                if isinstance(l, (sp.StrictLessThan, sp.LessThan)) and l.rhs == tolsym:
                    if l.lhs == sp.Abs(own):
                        good = True
                    if width_ok and l.lhs in (sp.Abs(sym.S("left") - sym.S("right")), sp.Abs(sym.S("right") - sym.S("left"))):
                        good = True
            run.check(good, "R7.11", dp, "returned-point-is-the-converged-one:%s:%s" % (name, dkey_(dj)), F.loc(b, okn),
                      "Ok(%s) can be returned when `%s`: this bounds neither f(%s) nor (for an end point) the bracket width — the tolerance was met at another point"
                      % (name, dj, name), sample="brent: Ok(%s) under %s" % (name, str(dj)[:60]))
    run.floor("R7.11", dp, "Ok returns of the iteration", n_ok, 2, F.loc(b))


def dkey_(dj):
    return ",".join(sorted({str(x) for x in dj.free_symbols}))[:60]


def check_nan_idiom(F, run):
    n_sites = 0
    for name, path in FNS.items():
        b = F.fn(path)
        for n in walk(b["body"]):
            if n.get("k") == "Bin" and n["op"] == "Div":
                r = peel(n["r"])
                if r.get("k") == "MCall" and r["name"] in ("abs", "modulus", "norm") and pp(peel(r["recv"])) == pp(peel(n["l"])):
                    n_sites += 1
                    g = cfg.guards_of(b["body"], n)
                    e = pp(peel(n["l"]))
                    ok = any(("!= " in pp(l[1]) or "==" in pp(l[1])) and e.strip("()") in pp(l[1]) for l in cfg.conj_lits(g))
                    run.check(ok, "R7.5", path, "sign-by-division:" + e[:40], F.loc(b, n),
                              "`%s / |%s|` is evaluated without a guard that the expression is non-zero: 0/0 = NaN propagates into the returned point" % (e, e))
    return n_sites


def check_sign_three_way(F, run):
    for name, path in FNS.items():
        b = F.fn(path)
        for n in walk(b["body"]):
            if n.get("k") != "If" or "e" not in n:
                continue
            c1 = peel(n["c"])
            e1 = peel(n["e"])
            if e1.get("k") == "Block" and not e1.get("stmts") and e1.get("expr") is not None:
                e1 = peel(e1["expr"])
            if c1.get("k") == "MCall" and c1["name"] in ("is_sign_positive", "is_sign_negative") and e1.get("k") == "If" and "e" in e1:
                c2 = peel(e1["c"])
                if c2.get("k") == "MCall" and c2["name"] in ("is_sign_positive", "is_sign_negative") and c2["name"] != c1["name"] \
                        and pp(c1["recv"]) == pp(c2["recv"]):
                    dead = peel(e1["e"])
                    nonempty = dead.get("k") != "Block" or dead.get("stmts") or dead.get("expr") is not None
                    run.check(not nonempty, "R7.6", path, "dead-zero-arm:" + pp(c1["recv"])[:30], F.loc(b, e1["e"]),
                              "the `else` arm after %s.is_sign_positive()/is_sign_negative() is dead for every non-NaN value (±0.0 has a sign): the exact-root case it was written for is never taken"
                              % pp(c1["recv"]))


def check_counter_loop(F, run, b, loop):
    """R7.7 — bisection's loop is bounded by the caller's cap (rules/caps.py) and exhausting it gives Err."""
    ok, form, why = caps.bounded_by_cap(b, loop)
    run.check(ok, "R7.7", "roots::bisection", "counter-loop", F.loc(b, loop), "bisection's loop is not bounded by n_max: %s" % why,
              sample="bisection: %s bounded by the cap" % form)
    tail = peel(b["body"].get("expr") or {})
    run.check(tail.get("k") == "Call" and (callee(tail) or "").endswith("Err"), "R7.7", "roots::bisection", "cap-gives-err", F.loc(b),
              "exhausting the iteration cap does not return Err")


def check_brent_safeguards(F, run, b, loop):
    """R7.12 — Brent's evaluation bound rests on its safeguards: the interpolated point is replaced by the midpoint whenever the standard
    Brent–Dekker test demands it (s outside ((3a+b)/4, b); after a bisection: |s−b| ≥ |b−c|/2 or |b−c| < tol; after an interpolation:
    |s−b| ≥ |c−d|/2 or |c−d| < tol).  The code's condition may be *more* conservative (bisect more often), never less: for both values of
    the flag, the standard test must entail the code's test (linear arithmetic with case splits on the magnitudes)."""
    dp = FNS["brent"]
    # Decided on the paths of one iteration, for both values of the flag at its start: on a path that ends with the flag cleared (the
    # interpolated point was kept) none of the standard clauses may be satisfiable together with the path condition.
    left, right, c_, d_, tol = (sp.Symbol(nm, real=True) for nm in ("left", "right", "c", "d", "tol"))
    vals = dict(constant_locals(F, b))
    n_kept = 0
    for flag in (True, False):
        v = dict(vals)
        v.update({"left": left, "right": right, "c": c_, "d": d_, "tol": tol, "mflag": sp.true if flag else sp.false})
        try:
            lps = paths.explore(F, b, setup=preset_all(b, v), node=loop["body"], interp_cls=guards.GInterp, limit=512)
        except sym.Unsupported as u:
            run.broken("R7.12", dp, "safeguard-condition", F.loc(b, u.node if isinstance(getattr(u, "node", None), dict) else loop), "cannot explore one iteration: %s" % u)
            return
        prev = sp.Abs(right - c_) if flag else sp.Abs(c_ - d_)
        for p in lps:
            if not p.fell_through:
                continue                      # the iteration was left (a convergence exit written inside the loop body): no step was taken
            env = {nm: p.interp.env.get(i) for i, nm in p.interp.names.items()}
            mf = env.get("mflag")
            if mf is sp.true or mf is True:
                continue                      # this path bisected
            extra = sp.true
            if not (mf is sp.false or mf is False):
                # `mflag = use_bisection;` — the flag holds the decision as a formula: the kept case is the part of this path where it is false
                if not isinstance(mf, sp.logic.boolalg.Boolean) and not isinstance(mf, sp.core.relational.Relational):
                    run.broken("R7.12", dp, "flag", F.loc(b, loop), "the flag is %r at the end of an iteration" % (mf,))
                    return
                if logic.lin_unsat(sp.And(p.cond(), sp.Not(mf))):
                    continue                  # the flag is set on this path
                extra = sp.Not(mf)
            s_val = env.get("s")
            if not isinstance(s_val, sp.Basic):
                run.broken("R7.12", dp, "trial-point", F.loc(b, loop), "no trial point `s` at the end of an iteration")
                return
            n_kept += 1
            in_range = sp.Or(sp.And(s_val >= (3 * left + right) / 4, s_val <= right), sp.And(s_val <= (3 * left + right) / 4, s_val >= right))
            std = [("outside-range", sp.Not(in_range)), ("step-not-halved", sp.Abs(s_val - right) >= prev / 2), ("previous-step-below-tol", prev < tol)]
            # only the part of the path condition decided up to the safeguard matters; later literals (signs of f at the new point) cannot contradict it
            for nm, clause in std:
                good = logic.lin_unsat(sp.And(p.cond(), extra, clause))
                run.check(good, "R7.12", dp, "bisects-when-%s:%s" % (nm, "after-bisection" if flag else "after-interpolation"), F.loc(b, loop),
                          "Brent's safeguard `%s` (%s) does not force a bisection step: with mflag = %s the interpolated point is kept on the path [%s] although the clause can hold — "
                          "without it the iteration can settle into a long run of interpolation steps and the bound on the number of function evaluations is lost"
                          % (nm, str(clause)[:80], flag, str(p.cond())[:160]), sample="mflag=%s: %s ⟹ bisect" % (flag, nm))
    run.floor("R7.12", dp, "paths on which the interpolated point is kept", n_kept, 2, F.loc(b, loop))


def run(F, run, tier):
    n_nan = 0
    for name, path in FNS.items():
        b = F.fn(path)
        run.analysed(b)
        _st, loop = guards.first_loop(b)
        if loop is None:
            run.broken("R7.1", path, "loop", F.loc(b), "no main loop found")
            continue
        guards.check_preconditions(F, run, "R7.1", b, path, reqs_for(name), allow_early_ok=(name == "bisection"), floor=2)
        if name == "bisection":
            check_counter_loop(F, run, b, loop)
        # The remaining rules name roles (which local is the left end, which caches f there, …) by the instance table confirmed on the pinned tree
        # (locals renamed by a refactoring get these names back through refs/locals.json).  When the roles are not all present the function has
        # been restructured beyond that table: say exactly that, once, instead of judging a different program by the old roles.
        have = set(all_binds(b))
        missing = sorted(ROLES[name] - have)
        if missing:
            run.broken("R7.2", path, "roles", F.loc(b), "the locals %s of the instance table (bracket ends, cached function values, trial points) are not present: the "
                       "bracketing rules R7.2–R7.4, R7.8–R7.11 cannot be applied to this shape of the solver and the instance table needs re-confirming" % missing)
            continue
        check_success_criterion(F, run, name, b)
        check_cached_values(F, run, name, b, loop)
        check_sign_reachability(F, run, name, b, loop)
        if name == "bisection":
            check_hull(F, run, b, loop)
        else:
            check_hull_brent_itp(F, run, name, b, loop)
        if name == "itp":
            check_itp_orientation(F, run, b, loop)
        if name == "brent":
            check_brent_return(F, run, b)
            check_brent_safeguards(F, run, b, loop)
    n_nan = check_nan_idiom(F, run)
    check_sign_three_way(F, run)
    run.extra["sign_by_division_sites"] = n_nan
    run.assumptions += ["comparisons over an ordered field; is_sign_positive(x) is read as x >= 0 in the guard entailment",
                        "Brent/ITP termination and the accuracy of the returned point rest on numerical contraction: not decided"]
    expl = ("For bisection, Brent and ITP the guard prefix is explored path-sensitively (every path into the iteration establishes the "
            "preconditions, every early exit is Err); bisection's midpoint/end-point updates are shown to stay in the hull of the bracket for "
            "symbolic end points; every disjunct that allows an Ok is classified (function value / implied by zero width / neither); cached "
            "function values are shown to stay attached to their abscissae on every path of one iteration; the NaN and sign-predicate idioms are matched structurally.")
    return "other", expl, None
