"""C17 — least-squares fitting: the linear fit is decided in full (identity obligations); Levenberg–Marquardt is
decided for its guards and Jacobians only (convergence / termination are numerical: not decided).

R17.1  linear fit: on symbolic data (m = 2..6 points) the returned slope a and intercept b satisfy the normal equations
       Σ(y − a x − b) = 0 and Σ x (y − a x − b) = 0 identically, exactly-linear data are reproduced, the result does not
       depend on the order of the points, and mismatched lengths give Err.
R17.2  guards of curve_fit / curve_fit_jac: invalid tolerance, step width (finite-difference driver), damping and
       mismatched lengths are rejected with Err before the model is ever called.
R17.3  Jacobians: the finite-difference Jacobian is a consistent central difference of the model in parameter `col`, stored
       at (row, col), parameters restored (shared rule with C03/C08); jac_analytic stores component `col` of the user's
       gradient at (row, col).
"""
import itertools

import sympy as sp

from bsa import guards, nalg, sym, vecint
from bsa.hir import Missing, callee, pat_binds, peel, place, pp, walk
from rules import fdjac
from rules import polyint as PI

LEVEL = "other"


def check_linear_fit(F, run, tier):
    b = F.fn("optimize::linear_fit")
    run.analysed(b)
    dp = "optimize::linear_fit"
    where = F.loc(b)
    mmax = 6 if tier == "thorough" else 5
    for m in range(2, mmax + 1):
        xs, ys = PI.symbols("x", m), PI.symbols("y", m)
        inst = "m=%d" % m
        try:
            v, _ = PI.call(F, b, [list(xs), list(ys)], seconds=60)
        except (sym.Unsupported, vecint.IndexPanic) as e:
            run.broken("R17.1", dp, inst, where, str(e))
            continue
        if not (isinstance(v, sym.Variant) and v.name == "Ok"):
            run.fail("R17.1", dp, "result:" + inst, where, "linear_fit returns %r" % (v,))
            continue
        cs = PI.coeffs(v.args[0])
        if not run.check(len(cs) == 2, "R17.1", dp, "two-coefficients:" + inst, where, "fit has %d coefficients" % len(cs)):
            continue
        b0, a1 = cs[0], cs[1]
        r = [y - a1 * x - b0 for x, y in zip(xs, ys)]
        run.check(PI.timed(lambda: sym.is_zero(sum(r)), 40, False), "R17.1", dp, "normal-equation-1:" + inst, where,
                  "the residuals of the returned line do not sum to zero (not orthogonal to 1)", sample="%s: Σ r_i = 0" % inst)
        run.check(PI.timed(lambda: sym.is_zero(sum(x * ri for x, ri in zip(xs, r))), 40, False), "R17.1", dp, "normal-equation-x:" + inst, where,
                  "the residuals of the returned line are not orthogonal to x", sample="%s: Σ x_i r_i = 0" % inst)
        # order independence
        perm = list(range(m))[1:] + [0]
        try:
            v2, _ = PI.call(F, b, [[xs[i] for i in perm], [ys[i] for i in perm]], seconds=60)
            c2 = PI.coeffs(v2.args[0])
            run.check(PI.timed(lambda: sym.is_zero(c2[0] - b0) and sym.is_zero(c2[1] - a1), 40, False), "R17.1", dp, "order-independent:" + inst, where,
                      "the fit changes when the data points are listed in another order")
        except (sym.Unsupported, vecint.IndexPanic) as e:
            run.broken("R17.1", dp, "perm:" + inst, where, str(e))
    # exactly linear data
    k, c = sp.Symbol("k", real=True), sp.Symbol("c", real=True)
    xs = [sp.Rational(*t) for t in ((-2, 1), (-1, 3), (1, 2), (7, 5))]
    try:
        v, _ = PI.call(F, b, [list(xs), [k * x + c for x in xs]], seconds=60)
        cs = PI.coeffs(v.args[0])
        run.check(PI.same_poly(cs, [c, k]), "R17.1", dp, "reproduces-line", where, "data on the line k·x + c are fitted by %s" % [str(sp.simplify(t)) for t in cs],
                  sample="linear data reproduced")
    except (sym.Unsupported, vecint.IndexPanic) as e:
        run.broken("R17.1", dp, "reproduces-line", where, str(e))
    # complex scalars (the function is generic over ComplexField): the closed form is an algebraic identity, so data on a complex line over abscissae off the
    # real axis are reproduced, and the (bilinear) normal equations hold; a |x|² in place of x² is invisible on the real axis
    kc, cc = PI.csymbols("k", 1)[0], PI.csymbols("c", 1)[0]
    xc = [sp.Rational(-2) + sp.I, sp.Rational(1, 3) - 2 * sp.I, sp.Rational(1, 2) + sp.I / 2, sp.Rational(7, 5) * sp.I]
    try:
        v, _ = PI.call(F, b, [list(xc), [sp.expand(kc * x + cc) for x in xc]], seconds=60)
        cs = PI.coeffs(v.args[0]) if isinstance(v, sym.Variant) and v.name == "Ok" else None
        run.check(cs is not None and len(cs) == 2 and PI.timed(lambda: sym.is_zero(sp.expand(cs[0] - cc)) and sym.is_zero(sp.expand(cs[1] - kc)), 60, False), "R17.1", dp, "reproduces-line:complex", where,
                  "data on a complex line k·x + c over abscissae off the real axis are fitted by %s" % ([str(sp.simplify(t))[:60] for t in cs] if cs else v,), sample="complex linear data reproduced")
    except (sym.Unsupported, vecint.IndexPanic) as e:
        run.broken("R17.1", dp, "reproduces-line:complex", where, str(e))
    xs, ys = PI.csymbols("x", 3), PI.csymbols("y", 3)
    try:
        v, _ = PI.call(F, b, [list(xs), list(ys)], seconds=90)
        cs = PI.coeffs(v.args[0]) if isinstance(v, sym.Variant) and v.name == "Ok" else None
        if run.check(cs is not None and len(cs) == 2, "R17.1", dp, "result:complex,m=3", where, "linear_fit on complex data returns %r" % (v,)):
            r = [y - cs[1] * x - cs[0] for x, y in zip(xs, ys)]
            run.check(PI.timed(lambda: sym.is_zero(sp.simplify(sum(r))) and sym.is_zero(sp.simplify(sum(x * ri for x, ri in zip(xs, r)))), 90, False), "R17.1", dp, "normal-equations:complex,m=3", where,
                      "with complex data the residuals of the returned line are not orthogonal to 1 and x (Σ r = 0, Σ x·r = 0)", sample="complex m=3: normal equations")
    except (sym.Unsupported, vecint.IndexPanic) as e:
        run.broken("R17.1", dp, "complex,m=3", where, str(e))
    try:
        v, _ = PI.call(F, b, [PI.symbols("x", 3), PI.symbols("y", 2)], seconds=30)
        run.check(isinstance(v, sym.Variant) and v.name == "Err", "R17.1", dp, "length-mismatch", where, "mismatched lengths return %r" % (v,), sample="linear_fit(3 xs, 2 ys) = Err")
    except (sym.Unsupported, vecint.IndexPanic) as e:
        run.broken("R17.1", dp, "length-mismatch", where, str(e))


def check_lm_guards(F, run):
    for path, needs_h in (("optimize::curve_fit", True), ("optimize::curve_fit_jac", False)):
        b = F.fn(path)
        run.analysed(b)
        # the guard prefix ends where the working copies are created (`let mut params = SVector::from_column_slice(initial)`)
        stop = None
        for st in b["body"]["stmts"]:
            if st.get("k") == "LetS" and st["pat"].get("name") == "params" and "from_column_slice" in pp(st.get("init", {})):
                stop = st
                break
        if stop is None:
            run.broken("R17.2", path, "prefix-end", F.loc(b), "cannot find the end of the guard prefix")
            continue
        S = sym.S
        reqs = [("tolerance>=0", lambda it: sp.Ge(S("params.tolerance"), 0)), ("damping>=0", lambda it: sp.Ge(S("params.damping"), 0)),
                ("lengths-match", lambda it: sp.Eq(sp.Symbol("len(xs)", integer=True, nonnegative=True), sp.Symbol("len(ys)", integer=True, nonnegative=True)))]
        if needs_h:
            reqs.append(("h>=0", lambda it: sp.Ge(S("params.h"), 0)))
        ps = guards.check_preconditions(F, run, "R17.2", b, path, reqs, stop_stmt=stop, floor=3)
        # the model is not called before the guards are passed
        for p in ps:
            run.check(not p.interp.calls, "R17.2", path, "no-model-call-in-guards", F.loc(b), "the model function is called before the input is validated")


def check_jac_analytic(F, run):
    b = F.fn("optimize::jac_analytic")
    run.analysed(b)
    it = nalg.NInterp(F, b, {})
    it.symbolic_for = True
    it.fresh_user_symbols = True
    try:
        it.ev(b["body"])
    except sym.Return:
        pass
    except sym.Unsupported as u:
        # the symbolic-loop reading is a convenience: the same obligation is decided entry by entry at a concrete shape by lm.check_coverage
        # ('lm-analytic': entry (r, c) is exactly component c of the gradient at xs[r], parameters unperturbed), which does not depend on the loop shape
        run.observe("R17.3-symbolic", F.loc(b, u.node if isinstance(u.node, dict) else None), "symbolic-loop reading of jac_analytic not applicable (%s); decided at the concrete shape" % str(u)[:100])
        return
    good = len(it.stores) == 1 and len(it.user_calls) == 1
    if not good:
        run.observe("R17.3-symbolic", F.loc(b), "jac_analytic is not a single symbolic store; decided at the concrete shape")
        return
    if good:
        name, idx, val, node = it.stores[0]
        call = it.user_calls[0]
        idxs = tuple(str(x) for x in (idx if isinstance(idx, tuple) else (idx,)))
        comp_ok = False
        if isinstance(val, sp.Indexed):
            comp_ok = str(val.base.label) == str(call[0]) and tuple(str(i) for i in val.indices) == ("col",)
        else:
            ats = list(val.atoms(sp.Function("at"))) if hasattr(val, "atoms") else []
            comp_ok = len(ats) == 1 and val == ats[0] and ats[0].args[0] == call[0] and str(ats[0].args[1]) == "col"
        good = name == "mat" and idxs == ("row", "col") and comp_ok and str(call[2][0]) == "xs[row]"
    run.check(good, "R17.3", b["path"], "entry(row,col)=gradient[col]at(xs[row])", F.loc(b),
              "jac_analytic does not store component `col` of the gradient evaluated at xs[row] into mat[(row, col)]", sample="mat[(row,col)] = jac(xs[row], params)[col]")


def run(F, run, tier):
    check_linear_fit(F, run, tier)
    check_lm_guards(F, run)
    fd_symbolic_ok = fdjac.analyse(F, run, "C17", "R17.3", "optimize", soft=True)
    check_jac_analytic(F, run)
    from rules import lm
    for path in ("optimize::curve_fit", "optimize::curve_fit_jac"):
        try:
            lm.check(F, run, path, None)
        except Missing as e:
            run.broken("R17.4", path, "anchor", "src/optimize/mod.rs", str(e))
    lm.check_coverage(F, run, "R17.3", "optimize::jac_finite_differences", "lm-fd", moments=(fd_symbolic_ok is False))
    lm.check_coverage(F, run, "R17.3", "optimize::jac_analytic", "lm-analytic")
    # observation: the start-up helpers advance a by-value copy of the parameters while they update evaluation / jac through references
    for path in ("optimize::initial_residuals", "optimize::initial_residuals_exact"):
        try:
            hb = F.fn(path)
        except Missing:
            continue
        for prm, ty in zip(hb.get("params", []), hb.get("inputs", [])):
            names = [nm for _, nm in pat_binds(prm)]
            if names == ["params"] and not ty.startswith("&"):
                writes = [n for n in walk(hb["body"]) if n.get("k") in ("Assign", "AssignOp") and peel(n["l"]).get("k") == "Local" and peel(n["l"])["name"] == "params"]
                if writes:
                    run.observe("R17.4", F.loc(hb), "%s advances a by-value copy of `params` (%d write(s)) while `evaluation`, `jac` and `damping` are returned/updated: "
                                "the caller's first iteration adds a step computed at the advanced point to the initial parameters (costs an iteration; later iterations are consistent)"
                                % (path.split("::")[-1], len(writes)))
    run.assumptions += ["exact arithmetic for the linear fit", "termination and convergence of Levenberg–Marquardt (no iteration cap exists) are numerical: not decided",
                        "one LM iteration is evaluated at the shape m = 3 data points, V = 2 parameters; model, Jacobian providers and linear solves uninterpreted; a failed solve_mut is assumed to leave its right-hand side untouched"]
    expl = ("The linear fit is evaluated abstractly on symbolic data and the normal equations are established as identities (plus reproduction of linear data, order "
            "independence and the length guard); for Levenberg–Marquardt the guard prefix of both drivers is explored path-sensitively and the two Jacobian providers are "
            "checked (stencil moments, storage position, restoration); one iteration of each driver is evaluated with symbolic matrices: damped normal equations "
            "(JᵀJ with the diagonal scaled by 1+damping resp. 1+damping/mult, right-hand side Jᵀ(y − f)), p' = p + step, the trial with the smaller residual is kept, damping is "
            "divided only then, evaluation/sum_sq/Jacobian/transpose are refreshed consistently at p', unsolvable systems give Err. Whether the LM iteration terminates and "
            "converges is not decided.")
    return "other", expl, None
