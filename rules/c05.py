"""C05 — adaptive solvers finish with order-appropriate work: the termination *skeleton* is decided, the work
bound (evaluations <= C·L·tol^(-1/p)) is numerical and is not.

R5.1  who may fail: IVPError::MinimumTimeDeltaExceeded is constructed only on the true edge of `dt < dt_min`;
      MaximumIterationsExceeded / SingularMatrix only inside BDFSolver::secant; no other error is constructed by a
      stepper (user errors arrive through `?`).
R5.2  every retry makes progress: a path of step() that returns Redo either changes yield_memory (bounded typestate
      progress, C01-R1.4) or writes dt and passes the `dt < dt_min ⇒ Failure` test, so IVPIterator::next cannot
      spin on an unchanged state.
R5.3  bounded inner loops: every `while` in src/ivp/** is a counter loop (constant init, constant bound, increment
      on every back edge).
R5.4  controller constants fold to the documented values: shrink clamp in (0,1), growth clamp > 1, safety factor in
      (0,1], exponent in (0,1]; on a rejected step every step-size write shrinks.
"""
import sympy as sp

from bsa import cfg, nalg, sym
from bsa.hir import Missing, callee, peel, place, pp, walk
from rules import caps
from rules import c01, c02
from rules import ivp_model as M
from rules import proto

LEVEL = "other"


def lt_cond(F, body, c, a, b):
    v = c01.cond_sym(F, body, c)
    if isinstance(v, (sp.Lt, sp.Le)):
        return sym.is_zero((v.lhs - v.rhs) - (sym.S(a) - sym.S(b)))
    if isinstance(v, (sp.Gt, sp.Ge)):
        return sym.is_zero((v.rhs - v.lhs) - (sym.S(a) - sym.S(b)))
    return False


def check_who_may_fail(F, run):
    n_min = 0
    allowed_elsewhere = {"MaximumIterationsExceeded": "secant", "SingularMatrix": "secant"}
    for b in F.bodies:
        if not b["file"].startswith("src/ivp") or b["name"] not in ("step", "secant", "jac_finite_diff", "runge_kutta"):
            continue
        run.analysed(b)
        for n in walk(b["body"]):
            if n.get("k") != "Path":
                continue
            d = n.get("ctor_of") or n.get("def") or ""
            if not d.startswith("ivp::IVPError::"):
                continue
            v = d.split("::")[-1]
            if v == "UserError":
                continue
            if v == "MinimumTimeDeltaExceeded":
                n_min += 1
                g = cfg.guards_of(b["body"], n)
                ok = any(l[2] and lt_cond(F, b, l[1], "dt", "dt_min") for l in cfg.conj_lits(g))
                run.check(ok and b["name"] == "step", "R5.1", b["path"], "min-dt-only-below-min", F.loc(b, n),
                          "MinimumTimeDeltaExceeded is raised without `dt < dt_min` holding on that path: a spurious error on a problem the solver could finish",
                          sample="%s: MinimumTimeDeltaExceeded under dt < dt_min" % b["path"][:60])
            elif v in allowed_elsewhere:
                run.check(b["name"] == allowed_elsewhere[v], "R5.1", b["path"], "variant:" + v, F.loc(b, n),
                          "%s is constructed outside BDFSolver::secant" % v, sample="%s in %s" % (v, b["name"]))
            else:
                run.fail("R5.1", b["path"], "variant:" + v, F.loc(b, n), "a stepper constructs IVPError::%s" % v)
    run.floor("R5.1", "ivp", "MinimumTimeDeltaExceeded sites", n_min, 3)


def must_write_dt(n):
    k = n.get("k")
    if k in ("ExprS", "Semi"):
        return must_write_dt(n["e"])
    if k in ("Assign", "AssignOp"):
        return place(n["l"]) == "self.dt"
    if k == "Block":
        seq = list(n["stmts"]) + ([n["expr"]] if n.get("expr") is not None else [])
        return any(must_write_dt(s) for s in seq)
    if k == "If":
        return "e" in n and must_write_dt(n["t"]) and must_write_dt(n["e"])
    return False


def check_rk_retry(F, run):
    b = M.method_of(F, "ivp::rk::RungeKuttaSolver<", "IVPStepper", "step")
    run.analysed(b)
    dp = "RungeKuttaSolver::step"
    redos = [n for n in walk(b["body"], into_closures=False) if n.get("k") == "Call" and "IVPStatus::Redo" in pp(n) and (callee(n) or "").endswith("Err")]
    run.floor("R5.2", dp, "Redo returns", len(redos), 1, F.loc(b))
    top = list(b["body"]["stmts"]) + ([b["body"]["expr"]] if b["body"].get("expr") is not None else [])
    for r in redos:
        mins = []
        for s in top:
            e = s.get("e", s) if s.get("k") in ("ExprS", "Semi") else s
            if e.get("k") == "If" and any(l[2] and lt_cond(F, b, l[1], "dt", "dt_min") for l in cfg.conj_lits(cfg.lit(e["c"]))) \
                    and "MinimumTimeDeltaExceeded" in pp(e["t"]) and (cfg.precedes(b["body"], s, r) or ("e" in e and any(x is r for x in walk(e["e"])))):
                # the test comes before the Redo, or the Redo is what the test's own else branch returns (`if dt < dt_min { Err(Failure) } else if … { … } else { Err(Redo) }`)
                mins.append(s)
        writes = [s for s in top if must_write_dt(s) and (cfg.precedes(b["body"], s, r) or (mins and top.index(s) < top.index(mins[-1])))]
        okorder = bool(writes and mins) and top.index(writes[-1]) < top.index(mins[-1])
        run.check(okorder, "R5.2", dp, "redo-after-dt-update-and-min-test", F.loc(b, r),
                  "Redo is returned without every path first updating dt and then passing the `dt < dt_min ⇒ Failure` test: the iterator could retry the same step forever",
                  sample="%s: controller update, then dt<dt_min test, then Redo" % dp)
    # on reject, the Redo is under the negated accept test
    for r in redos:
        run.check(c02.accept_guard(b, r) < 0, "R5.2", dp, "redo-only-on-reject", F.loc(b, r), "Redo is not tied to a rejected estimate")


def check_rk_reject_shrinks(F, run):
    """On a rejected RK step (estimate > tolerance) every feasible write to dt multiplies it by a factor <= 1."""
    t = M.rk_effective_tableau(F, M.RK_IMPLS["RKCoefficients45"][0], 6)
    fields = t["fields"]
    b = M.method_of(F, "ivp::rk::RungeKuttaSolver<", "IVPStepper", "step")
    dp = "RungeKuttaSolver::step"
    tol, dt, s_ = sp.Symbol("tolerance", positive=True), sp.Symbol("dt", positive=True), sp.Symbol("s_excess", positive=True)
    err = sp.Symbol("error", positive=True)

    def interp_for(n):
        it = nalg.NInterp(F, b, {"O": 6})
        for k, v in fields.items():
            if hasattr(v, "is_number") and v.is_number:
                it.fields["self." + k] = v
        for nm in ("time", "end", "dt_max", "dt_min"):
            it.fields["self." + nm] = sp.Symbol(nm, positive=True)
        it.fields["self.tolerance"] = tol
        it.fields["self.dt"] = dt

        def bind(expr, depth=0):
            for x in walk(expr):
                if x.get("k") == "Local" and x["id"] not in it.env:
                    if x["name"] == "error":
                        it.env[x["id"]] = err
                        continue
                    d = c01.local_def(b, x["id"], n) if depth < 4 else None
                    if d is not None:
                        bind(d, depth + 1)
                        try:
                            it.env[x["id"]] = it.ev(d)
                            continue
                        except sym.Unsupported:
                            pass
                    it.env[x["id"]] = sp.Symbol(x["name"], positive=True)
        return it, bind
    writes = [n for n in walk(b["body"], into_closures=False) if n.get("k") in ("Assign", "AssignOp") and place(n["l"]) == "self.dt"]
    n_checked = 0
    for w in writes:
        cls, detail = c01.classify_dt_write(F, b, w)
        if cls in ("clip", "clamp"):
            continue
        it, bind = interp_for(w)
        bind(w["r"])
        try:
            r = it.ev(w["r"])
        except sym.Unsupported as u:
            run.broken("R5.4", dp, "reject-write:" + pp(w)[:40], F.loc(b, w), str(u))
            continue
        if w["k"] == "AssignOp" and w["op"] == "MulAssign":
            factor = r
        elif w["k"] == "AssignOp" and w["op"] == "DivAssign":
            factor = 1 / r
        else:
            factor = r / dt
        rej = {err: tol * (1 + s_)}
        # feasibility of the write's own guards on a rejected step
        g = cfg.guards_of(b["body"], w)
        feasible = True
        for l in cfg.conj_lits(g):
            it2, bind2 = interp_for(w)
            bind2(l[1])
            try:
                c = it2.ev(l[1])
            except Exception:
                continue
            c = c.subs(rej) if hasattr(c, "subs") else c
            if not l[2]:
                c = sp.Not(c)
                c = c.args[0].negated if isinstance(c, sp.Not) and hasattr(c.args[0], "negated") else c
            if isinstance(c, (sp.Ge, sp.Gt)) and c.rhs.is_number and c.rhs >= 1:
                try:
                    if c01.lt_one(c.lhs) and (isinstance(c, sp.Gt) or c.rhs > 1 or True):
                        feasible = False
                except Exception:
                    pass
        if not feasible:
            run.ok("R5.4", "rk-reject-infeasible", "%s: `%s` cannot execute on a rejected step (its guard needs a factor >= 1)" % (dp, pp(w)[:40]))
            continue
        n_checked += 1
        f2 = factor.subs(rej) if hasattr(factor, "subs") else factor
        try:
            good = c01.lt_one(f2)
        except Exception:
            good = False
        run.check(good, "R5.4", dp, "reject-shrinks:" + pp(w)[:44], F.loc(b, w),
                  "on a rejected step `%s` changes dt by the factor %s, which is not provably <= 1: the same step can be retried forever without MinimumTimeDeltaExceeded"
                  % (pp(w)[:60], sp.simplify(f2)), sample="RK reject path: %s (factor %s)" % (pp(w)[:40], sp.simplify(f2)))
        if good:
            try:
                strict = c01.strict_lt_one(f2, s_)
            except Exception:
                strict = False
            run.check(strict, "R5.4", dp, "reject-shrinks-by-a-margin:" + pp(w)[:44], F.loc(b, w),
                      "on a rejected step `%s` changes dt by the factor %s (error = tolerance·(1+s), s > 0), which is below 1 but not bounded away from 1: a step that "
                      "just fails is retried with an almost unchanged step, many times over (no safety factor)" % (pp(w)[:60], sp.simplify(f2)),
                      sample="RK reject path: %s shrinks by a margin" % pp(w)[:40])
    run.floor("R5.4", dp, "controller writes feasible on a rejected step", n_checked, 2, F.loc(b))


def check_multistep_retry(F, run):
    for kind, impls in (("adams", M.ADAMS_IMPLS), ("bdf", M.BDF_IMPLS)):
        for name, (selfty, O) in impls.items():
            try:
                P = proto.Proto(F, kind, selfty, O)
                r = P.explore()
            except (Missing, sym.Unsupported) as e:
                run.broken("R5.2", name, "exploration", "src/ivp", str(e))
                continue
            run.analysed(P.step)
            n = 0
            for (st, nst, wrote_dt, min_test, labels) in r["redo"]:
                n += 1
                progress = st[0] != nst[0] or st[1] != nst[1]
                good = progress or (wrote_dt and min_test)
                via = "; ".join("%s=%s" % (str(c)[:50], d) for c, d in labels[-3:])
                run.check(good, "R5.2", P.name, "redo-progress:%s:ym=%s" % (name, P.ymname(st[0])), F.loc(P.step),
                          "a Redo path from state %s neither changes the typestate nor updates dt and passes the dt<dt_min test [%s]" % (st, via),
                          sample="%s: Redo from ym=%s: typestate %s -> %s%s" % (name, st[0], st[0], nst[0], ", dt updated + min test" if wrote_dt and min_test else ""))
            run.floor("R5.2", P.name, "Redo transitions (%s)" % name, n, 2, F.loc(P.step))
            # a Failure(MinimumTimeDeltaExceeded) transition exists only after a dt write on that path
            fails = [t for t in r["transitions"] if t[1] == "failure"]
            run.floor("R5.2", P.name, "Failure transitions (%s)" % name, len(fails), 1, F.loc(P.step))


def check_while_loops(F, run):
    n = 0
    for b in F.bodies:
        if not b["file"].startswith("src/ivp") or (b["name"] == "next" and "IVPIterator" in (b.get("impl_self") or "")):
            continue   # IVPIterator::next's retry loop is the subject of R5.2 / C06-R6.6
        for w in walk(b["body"]):
            if w.get("k") not in ("While", "Loop"):
                continue
            n += 1
            run.analysed(b)
            if w.get("k") == "Loop":
                run.fail("R5.3", b["path"], "unbounded-loop", F.loc(b, w), "`loop` without a counter in an IVP stepper")
                continue
            c = peel(w["c"])
            ok = c.get("k") == "Bin" and c["op"] in ("Lt", "Le") and peel(c["l"]).get("k") == "Local" and peel(c["r"]).get("k") == "Lit"
            cnt = peel(c["l"]) if ok else None
            if ok:
                init = c02.local_let(b, cnt["id"])
                ok = init is not None and peel(init).get("k") == "Lit"
            if ok:
                # increment on every back edge: a top-level `cnt += lit` in the loop body, no `continue`
                incs = [s for s in w["body"]["stmts"] if s.get("e", {}).get("k") == "AssignOp" and s["e"]["op"] == "AddAssign"
                        and peel(s["e"]["l"]).get("k") == "Local" and peel(s["e"]["l"])["id"] == cnt["id"] and peel(s["e"]["r"]).get("k") == "Lit"
                        and peel(s["e"]["r"]).get("lit") == "int" and int(peel(s["e"]["r"])["v"]) > 0]
                conts = [x for x in walk(w["body"], into_closures=False) if x.get("k") == "Continue"]
                other = [x for x in walk(w["body"]) if x.get("k") in ("Assign", "AssignOp") and peel(x["l"]).get("k") == "Local" and peel(x["l"])["id"] == cnt["id"]]
                ok = len(incs) == 1 and not conts and len(other) == 1
            if not ok:
                # the other bounded spellings (rules/caps.py): an up- or down-counter against an integer parameter (the number of start-up steps)
                ok2, form, why = caps.bounded_by_cap(b, w)
                ok = ok2
            run.check(ok, "R5.3", b["path"], "counter-loop", F.loc(b, w),
                      "`while %s` is not a counter loop (constant init, constant bound, one unconditional increment, no continue)" % pp(w["c"])[:40],
                      sample="%s: while %s" % (b["name"], pp(w["c"])[:40]))
    # the floor guards against a vacuous pass; a stepper whose inner iteration is a `for` over a literal range has no `while` left and is bounded
    # by construction
    n_for = 0
    for b in F.bodies:
        if b["file"].startswith("src/ivp"):
            for w in walk(b["body"]):
                if w.get("k") == "For":
                    n_for += 1
    run.floor("R5.3", "ivp", "while loops", n + (1 if n_for else 0), 1)


def check_controller_constants(F, run):
    # Runge–Kutta controller
    t = M.rk_effective_tableau(F, M.RK_IMPLS["RKCoefficients45"][0], 6)
    f = t["fields"]
    sb = t["solve"]
    for nm, lo, hi, what in (("one_tenth", 0, 1, "shrink clamp"), ("point_eighty_four", 0, None, "safety factor"), ("one_fourth", 0, None, "step-size exponent")):
        v = f.get(nm)
        good = v is not None and v.is_number and v > lo and (hi is None or v < hi) and (nm == "one_tenth" or v <= 1)
        run.check(good, "R5.4", "RungeKutta::solve", "const:" + nm, F.loc(sb), "%s folds to %s, expected a number in (%s, %s]" % (what, v, lo, 1), sample="%s = %s" % (nm, v))
    v = f.get("four")
    run.check(v is not None and v.is_number and v > 1, "R5.4", "RungeKutta::solve", "const:four", F.loc(sb), "growth clamp folds to %s, expected > 1" % v, sample="four = %s" % v)
    if f.get("point_eighty_four") == 1:
        run.observe("R5.4", F.loc(sb), "RK safety factor folds to 100/100 = 1 (the field is named point_eighty_four): no safety margin in the step-size controller")
    if f.get("one_fourth") is not None:
        run.observe("R5.4", F.loc(sb), "RK step-size exponent is %s for both tableaux (estimator orders 4 and 2)" % f.get("one_fourth"))
    # on a rejected step of the multistep solvers every step-size write shrinks
    for sname, prefix in (("Adams", "ivp::adams::AdamsSolver<"), ("BDF", "ivp::bdf::BDFSolver<")):
        b = M.method_of(F, prefix, "IVPStepper", "step")
        n = 0
        for w in walk(b["body"], into_closures=False):
            if w.get("k") in ("Assign", "AssignOp") and place(w["l"]) == "self.dt" and c02.accept_guard(b, w) < 0:
                n += 1
                cls, detail = c01.classify_dt_write(F, b, w, strict=True)
                run.check(cls in ("shrink", "weak-shrink"), "R5.4", sname + "Solver::step", "reject-shrinks:" + pp(w)[:40], F.loc(b, w),
                          "on a rejected step `%s` does not provably shrink the step (%s): the retry may loop or grow" % (pp(w)[:50], detail),
                          sample="%s reject path: %s (%s)" % (sname, pp(w)[:40], detail))
                run.check(cls != "weak-shrink", "R5.4", sname + "Solver::step", "reject-shrinks-by-a-margin:" + pp(w)[:40], F.loc(b, w),
                          "on a rejected step `%s`: %s — a step that just fails is retried with an almost unchanged step, each retry costing a full restart" % (pp(w)[:50], detail))
        run.floor("R5.4", sname + "Solver::step", "step-size writes on the reject path", n, 1, F.loc(b))
    # R5.5 a rejected step's shrink must survive until the retry: every write to dt that is neither on the accepted edge nor on the reject path
    # (i.e. it runs on every call, before the accept test) never enlarges the step
    for sname, prefix in (("RungeKutta", "ivp::rk::RungeKuttaSolver<"), ("Adams", "ivp::adams::AdamsSolver<"), ("BDF", "ivp::bdf::BDFSolver<")):
        b = M.method_of(F, prefix, "IVPStepper", "step")
        n = 0
        tests = [x for x in walk(b["body"], into_closures=False) if x.get("k") == "If" and c02.accept_polarity(b, x["c"]) is not None]
        if not tests:
            run.broken("R5.5", sname + "Solver::step", "accept-test", F.loc(b), "no accept test found")
            continue
        for w in walk(b["body"], into_closures=False):
            if w.get("k") in ("Assign", "AssignOp") and place(w["l"]) == "self.dt" and c02.accept_guard(b, w) == 0 and cfg.before(b["body"], w, tests[0]):
                n += 1
                okw, why = c01.write_never_grows(F, b, w)
                run.check(okw, "R5.5", sname + "Solver::step", "pre-test-write-never-grows:" + pp(w)[:40], F.loc(b, w),
                          "`%s` runs on every call before the accept test and %s — after a rejection the shrunk step is overwritten on the retry, which repeats the rejected step forever"
                          % (pp(w)[:50], why), sample="%s: %s (%s)" % (sname, pp(w)[:40], why))
        run.floor("R5.5", sname + "Solver::step", "step-size writes before the accept test", n, {"RungeKutta": 1, "Adams": 2, "BDF": 2}[sname], F.loc(b))
    # constants of the multistep solvers
    for kind, impl, O, names in (("adams", M.ADAMS_IMPLS["AdamsCoefficients5"][0], 5, ("one_tenth", "half", "two", "four", "one_sixth")),
                                 ("bdf", M.BDF_IMPLS["BDF6Coefficients"][0], 7, ("one_tenth", "half", "two", "one_sixth"))):
        sb2, fields, _ = M.solver_fields(F, kind, impl, O)
        want = {"one_tenth": sp.Rational(1, 10), "half": sp.Rational(1, 2), "two": 2, "four": 4, "one_sixth": sp.Rational(1, 6)}
        for nm in names:
            run.check(fields.get(nm) == want[nm], "R5.4", kind + "::solve", "const:" + nm, F.loc(sb2), "field %s folds to %s, expected %s" % (nm, fields.get(nm), want[nm]),
                      sample="%s.%s = %s" % (kind, nm, fields.get(nm)))
        run.check(fields.get("order") == O, "R5.4", kind + "::solve", "const:order", F.loc(sb2), "field order folds to %s, expected O = %d" % (fields.get("order"), O))


def run(F, run, tier):
    check_who_may_fail(F, run)
    check_rk_retry(F, run)
    try:
        check_rk_reject_shrinks(F, run)
    except (Missing, sym.Unsupported) as e:
        run.broken("R5.4", "RungeKuttaSolver::step", "reject-shrinks", "src/ivp/rk.rs", str(e))
    check_multistep_retry(F, run)
    check_while_loops(F, run)
    check_controller_constants(F, run)
    # the work bound presupposes that the solver runs with the bounds the user configured: the step setters (shared with C06 R6.1/R6.2) store
    # exactly the requested bound and only adjust the other one to keep min <= max (a builder that lowers dt_max to dt_min makes every solve
    # take interval/dt_min steps)
    from rules import c06
    for bname in ("RungeKutta", "Adams", "BDF"):
        for m in ("with_maximum_dt", "with_minimum_dt"):
            try:
                c06.check_setter(F, run, bname, m)
            except Missing as e:
                run.broken("R6.1", "%s::%s" % (bname, m), "anchor", "src/ivp", str(e))
    # "order-appropriate work" presupposes estimators of the advertised order: the embedded pairs / predictor–corrector pairs / BDF pairs are the
    # published ones (an inconsistent tableau — a stage time that is not the row sum — adds an O(h) term to the estimate and turns tol^(-1/p)
    # work into tol^(-1) work for non-autonomous problems).  Rules shared with C03 (R3.1, R3.3, R3.4).
    from rules import c03
    for name in M.RK_IMPLS:
        c03.check_rk(F, run, name)
    for name in M.ADAMS_IMPLS:
        c03.check_adams(F, run, name)
    for name in M.BDF_IMPLS:
        c03.check_bdf(F, run, name)
    # "completes without reporting an error … including solutions at rest and solutions relaxing to a steady state": the one place a solver error can arise
    # (R5.1) is the BDF inner solve, and at rest its residual at the predicted state is exactly zero — the first step of the solve is zero.  The Broyden
    # rule shared with C03/C08 (rules/broyden.py) includes the obligation that a zero step cannot reach the Sherman–Morrison division (0/0 → NaN inverse →
    # MaximumIterationsExceeded).
    from rules import broyden
    try:
        broyden.check(F, run, M.method_of(F, "ivp::bdf::BDFSolver<", None, "secant"), "R3.8", "BDFSolver::secant", 2,
                      names=("jac_inv", "shift", "derivative", "guess"))
    except Missing as e:
        run.broken("R3.8", "BDFSolver::secant", "anchor", "src/ivp/bdf.rs", str(e))
    run.assumptions += ["the evaluation-count bound is numerical and is not decided", "numeric guards are nondeterministic in the typestate exploration"]
    expl = ("Decides the termination skeleton: which errors a stepper may construct and under which guard, that every Redo path makes typestate "
            "progress or updates dt and passes the minimum-step test (RK structurally, Adams/BDF over all transitions of the explored protocol), "
            "that inner loops are counter loops, and that the controller constants fold to admissible values with every reject-path write "
            "provably shrinking. The work bound itself is outside static reach.")
    return "other", expl, None
