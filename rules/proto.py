"""Typestate exploration of the multistep `step()` protocol (Adams, BDF): C01-R1.4, C03-R3.6, C05-R5.2.

step() is interpreted abstractly with the const generic instantiated.  The abstract state between two calls is
  (yield_memory, tags of prev_values, tags of prev_derivatives, save tag, last yielded tag)   relative to the position p,
where a *tag* is the index of the solution point an entry describes (position p = index of (self.time, self.state)).
Guards on yield_memory and on deque emptiness are evaluated; every other guard (time vs end, error vs tolerance,
dt vs dt_min …) is nondeterministic.  `runge_kutta(m)` is an abstract operation (its body is verified separately by
C03-R3.2): it pushes the m points p+1 … p+m and moves the position by m.  The finite transition system is explored
exhaustively and the protocol rules are checked on every transition.
"""
import sympy as sp

from bsa import nalg, sym
from bsa.hir import Missing, peel, place, pp, walk
from rules import ivp_model as M


def T(k):
    return sp.Symbol("T@%d" % k, real=True)


def Y(k):
    return sp.Symbol("Y@%d" % k, real=True)


def tag_of(s):
    if isinstance(s, sp.Symbol) and "@" in s.name:
        return int(s.name.split("@")[1])
    return None


class Anomaly(Exception):
    pass


class ProtoInterp(nalg.NInterp):
    def __init__(self, F, body, consts, kind, decide):
        nalg.NInterp.__init__(self, F, body, consts)
        self.kind = kind
        self.decide = decide
        self.p = 0
        self.ste = None        # ghost: number of dt-steps from the current position to the end time, when known
        self.dt_dirty = False  # the step size was rewritten since the pending start-up steps were taken
        self.safe_advance = 0  # largest k for which `time + k·dt < end` was established on this path (dt unchanged since)
        self.at_or_past_end = False
        self.advanced = 0
        self.margin = -1       # ghost: largest k >= 0 with `time + k·dt < end` known (carried across calls; -1 = nothing known)
        self.events = []       # (what, payload, node)
        self.fresh_user_symbols = True
        self.state_fresh = False
        self.if_hook = lambda interp, node, c: self.decide(c, node)

    def note_advance(self, k, node):
        if k <= 0:
            return
        self.margin = max(-1, self.margin - k)
        self.advanced += k
        if self.ste is not None:
            if k > self.ste:
                self.events.append(("overshoot", "advances %d step(s) of dt although the end time is %d step(s) away" % (k, self.ste), node))
        elif self.advanced > self.safe_advance:
            self.events.append(("overshoot", "advances %d step(s) of dt while only time + %d·dt < end is established on this path" % (self.advanced, self.safe_advance), node))

    # position bookkeeping ---------------------------------------------------------------------
    def cur_state_tag(self):
        v = self.fields["self.state"]
        t = tag_of(v)
        return t

    def assign(self, lhs, val, node):
        pl = self.norm_place(place(lhs)) if peel(lhs).get("k") == "Field" else None
        if pl == "self.time":
            old = self.fields["self.time"]
            dt = self.fields["self.dt"]
            # old is a tagged symbol; val = old + k*dt symbolic in the *expression*; recover k
            k = sp.simplify((val - old) / dt)
            if not (k.is_Integer):
                self.events.append(("bad-time-write", "time changes by %s, not an integer number of steps of dt" % sp.simplify(val - old), node))
                k = sp.Integer(0)
            if k.is_Integer and int(k) < 0 and self.dt_dirty:
                self.events.append(("bad-time-write", "time is rolled back by %d step(s) of a dt that was rewritten after those steps were taken: the solver does not return to the saved time" % -int(k), node))
            self.p += int(k)
            self.note_advance(int(k), node)
            if self.ste is not None:
                self.ste -= int(k)
            self.fields["self.time"] = T(self.p)
            self.events.append(("time", int(k), node))
            # a fresh state written just before/after belongs to the new position
            if self.state_fresh:
                self.fields["self.state"] = Y(self.p)
                self.state_fresh = False
                self.pending_state = False
            elif int(k) > 0:
                self.pending_state = True   # time advanced, state write expected
            return
        if pl == "self.state":
            t = tag_of(val) if isinstance(val, sp.Symbol) else None
            if t is not None:
                # restoring a saved/tagged value
                self.fields["self.state"] = val
                self.events.append(("state-restore", t, node))
                self.state_fresh = False
                return
            if getattr(self, "pending_state", False):
                self.fields["self.state"] = Y(self.p)
                self.pending_state = False
            else:
                self.fields["self.state"] = sp.Symbol("Yfresh", real=True)
                self.state_fresh = True
            self.events.append(("state-write", None, node))
            return
        if pl == "self.dt":
            end, tm = self.fields["self.end"], self.fields["self.time"]
            try:
                q = sp.simplify((end - tm) / val)
            except Exception:
                q = None
            self.ste = int(q) if (q is not None and getattr(q, "is_Integer", False) and q > 0) else None
            if self.ste is None:
                self.safe_advance = 0
            self.dt_dirty = True
            self.margin = min(self.margin, 0)      # `time < end` survives a change of dt, `time + k·dt < end` does not
            self.advanced = 0 if self.ste is None else self.advanced
            self.events.append(("dt", self.ste, node))
            pv = self.fields.get("self.prev_values")
            if isinstance(pv, nalg.DequeVal):
                pv.log.append(("self.dt", "dt-write", None, node))
            return nalg.NInterp.assign(self, lhs, val, node)
        if pl == "self.save_state":
            self.fields["self.save_state"] = val
            self.events.append(("save", tag_of(val), node))
            return
        return nalg.NInterp.assign(self, lhs, val, node)

    def ev_MCall(self, n):
        name = n["name"]
        if name == "runge_kutta" and place(n["recv"]) == "self":
            m = self.ev(n["args"][0])
            if not getattr(m, "is_Integer", False):
                raise sym.Unsupported(n, "runge_kutta with non-constant step count %s" % m)
            m = int(m)
            vals = self.fields["self.prev_values"]
            ders = self.fields.get("self.prev_derivatives")
            for j in range(1, m + 1):
                vals.items.append((T(self.p + j), Y(self.p + j)))
                vals.op("push_back", self.p + j, n)
                if isinstance(ders, nalg.DequeVal):
                    ders.items.append(sp.Symbol("F@%d" % (self.p + j), real=True))
                    ders.op("push_back", self.p + j, n)
            self.p += m
            self.note_advance(m, n)
            if self.ste is not None:
                self.ste -= m
            self.fields["self.time"] = T(self.p)
            self.fields["self.state"] = Y(self.p)
            self.state_fresh = False
            self.events.append(("rk", m, n))
            self.dt_dirty = False
            return sym.Variant("Ok", [()])
        if name == "secant" and place(n["recv"]) == "self":
            self.events.append(("solve", None, n))
            pv = self.fields.get("self.prev_values")
            if isinstance(pv, nalg.DequeVal):
                pv.log.append(("prev_values", "formula-read", None, n))   # the implicit BDF solve reads the whole value history
            return sym.Variant("Ok", [sp.Symbol("Solve%d" % len(self.events), real=True)])
        if name == "real" or name == "clone":
            return self.ev(n["recv"])
        if name == "push_back":
            r = nalg.NInterp.ev_MCall(self, n)
            dq = self.ev(n["recv"])
            if isinstance(dq, nalg.DequeVal) and dq.items:
                x = dq.items[-1]
                if dq.name == "prev_derivatives" and tag_of(x) is None:
                    dq.items[-1] = sp.Symbol("F@%d" % self.p, real=True)
                if dq.name == "prev_values":
                    if not (isinstance(x, tuple) and len(x) == 2 and tag_of(x[0]) is not None and tag_of(x[0]) == tag_of(x[1])):
                        self.events.append(("incoherent-push", "history push of (%s, %s)" % (x[0] if isinstance(x, tuple) else x, x[1] if isinstance(x, tuple) and len(x) > 1 else "?"), n))
                        dq.items[-1] = (T(self.p), Y(self.p))
            return r
        return nalg.NInterp.ev_MCall(self, n)

    def ev_Closure(self, n):
        return sym.ClosureVal(n, None)

    def ev_If(self, n):
        c = self.ev(n["c"])
        if c is sp.true or c is True:
            dec = True
        elif c is sp.false or c is False:
            dec = False
        else:
            dec = self.end_condition(c)
            if dec is None:
                dec = self.decide(c, n)
                k = self.end_steps(c)
                if k is not None and not dec:
                    self.safe_advance = max(self.safe_advance, k) if self.ste is None else self.safe_advance
                    self.margin = max(self.margin, k)
                if k is not None and dec and k == 0:
                    self.at_or_past_end = True
        if dec:
            return self.ev(n["t"])
        if "e" in n:
            return self.ev(n["e"])
        return None

    def end_steps(self, c):
        """k if c is `time + k·dt >= end` (k integer), else None."""
        if not isinstance(c, (sp.Ge, sp.Gt)) or c.rhs != self.fields["self.end"]:
            return None
        try:
            k = sp.simplify((c.lhs - self.fields["self.time"]) / self.fields["self.dt"])
        except Exception:
            return None
        return int(k) if getattr(k, "is_Integer", False) else None

    def end_condition(self, c):
        """time + k·dt >= end is decided by the ghost steps-to-end when it is known."""
        if not isinstance(c, (sp.Ge, sp.Gt)):
            return None
        if self.ste is None:
            # facts carried over from earlier end tests: time + k·dt < end for every k <= margin
            if self.margin >= 0 and c.rhs == self.fields["self.end"]:
                try:
                    k = sp.simplify((c.lhs - self.fields["self.time"]) / self.fields["self.dt"])
                except Exception:
                    return None
                if getattr(k, "is_Integer", False) and 0 <= int(k) <= self.margin:
                    return False
            return None
        end = self.fields["self.end"]
        if c.rhs != end:
            return None
        try:
            k = sp.simplify((c.lhs - self.fields["self.time"]) / self.fields["self.dt"])
        except Exception:
            return None
        if not getattr(k, "is_Integer", False):
            return None
        return bool(int(k) >= self.ste) if isinstance(c, sp.Ge) else bool(int(k) > self.ste)


class Proto:
    def __init__(self, F, kind, impl_selfty, O):
        self.F, self.kind, self.O = F, kind, O
        self.sb, self.fields, self.raw = M.solver_fields(F, kind, impl_selfty, O)
        prefix = "ivp::adams::AdamsSolver<" if kind == "adams" else "ivp::bdf::BDFSolver<"
        self.step = M.method_of(F, prefix, "IVPStepper", "step")
        self.name = ("AdamsSolver" if kind == "adams" else "BDFSolver") + "::step"

    def run_call(self, state, prefix):
        """Execute step() from abstract `state` following decision `prefix`; returns (result, forks)."""
        ym, vals, ders, save, last, ste, dirty, origin, margin, stale = state
        forks = []
        decisions = list(prefix)
        pos = [0]
        labels = []

        memo = {}

        def canon(c):
            try:
                return c.canonical if isinstance(c, sp.core.relational.Relational) else c
            except Exception:
                return c

        def decide(c, node):
            # one condition, one truth value within a call: a test kept in a flag and read twice (`let too_small = dt < dt_min; if !too_small {…} Err(if too_small {…})`)
            # is not two independent choices.  Conditions are expressions over the symbols of the entry state, so equal expressions are equal values.
            if isinstance(c, sp.Basic) and not isinstance(c, (sp.Symbol,)):
                k1 = canon(c)
                if k1 in memo:
                    return memo[k1]
                try:
                    k2 = canon(sp.Not(c))
                except Exception:
                    k2 = None
                if k2 is not None and k2 in memo:
                    return not memo[k2]
                d = decide_fresh(c, node)
                memo[k1] = d
                return d
            return decide_fresh(c, node)

        def decide_fresh(c, node):
            if pos[0] < len(decisions):
                d = decisions[pos[0]]
            else:
                d = True
                forks.append(decisions[:pos[0]] + [False])
                decisions.append(True)
            pos[0] += 1
            labels.append((c, d))
            return d
        it = ProtoInterp(self.F, self.step, {"O": self.O}, self.kind, decide)
        for k, v in self.fields.items():
            it.fields["self." + k] = v
        for nm in ("dt", "end", "tolerance", "dt_max", "dt_min"):
            it.fields["self." + nm] = sym.S(nm)
        it.fields["self.time"] = T(0)
        it.fields["self.state"] = Y(0)
        it.fields["self.data"] = sym.Opaque("data")
        it.ste = ste
        it.dt_dirty = dirty
        it.margin = margin
        it.safe_advance = max(0, margin)
        it.fields["self.yield_memory"] = sp.Integer(ym)
        it.fields["self.save_state"] = Y(save) if save is not None else sp.Symbol("Ysave?", real=True)
        log = []
        it.fields["self.prev_values"] = nalg.DequeVal("prev_values", [(T(t), Y(t)) for t in vals], log)
        if self.kind == "adams":
            it.fields["self.prev_derivatives"] = nalg.DequeVal("prev_derivatives", [sp.Symbol("F@%d" % t, real=True) for t in ders], log)
        try:
            res = it.ev(self.step["body"])
        except sym.Return as r:
            res = r.value
        return it, res, log, forks, labels

    def classify(self, it, res):
        """-> (kind, tag)"""
        if isinstance(res, sym.Variant) and res.name == "Ok":
            v = res.args[0]
            if isinstance(v, tuple) and len(v) == 2:
                tt, ty = tag_of(v[0]), tag_of(v[1])
                if tt is not None and ty is not None and tt == ty:
                    return ("yield", tt)
                return ("yield-incoherent", (str(v[0]), str(v[1])))
            return ("yield-unknown", str(v))
        if isinstance(res, sym.Variant) and res.name == "Err":
            e = res.args[0]
            if isinstance(e, sym.Variant):
                if e.name == "Failure":
                    inner = e.args[0].name if e.args and isinstance(e.args[0], sym.Variant) else "?"
                    return ("failure", inner)
                return (e.name.lower(), None)
        return ("unknown", str(res))

    def explore(self, limit=4000):
        O = self.O
        init = (0, (), (), None, 0, None, False, None, -1, ())
        seen = {init}
        work = [init]
        transitions = []
        problems = {}

        flagged = [False]

        def problem(key, what, node=None, state=None, labels=None):
            flagged[0] = True
            if key not in problems:
                problems[key] = (what, node, state, [(str(c)[:80], d) for c, d in (labels or [])])
        def ymname(v):
            return {O: "O", O + 1: "O+1", O + 2: "O+2", O - 1: "O-1"}.get(v, str(v)) if v > 2 else str(v)
        self.ymname = ymname
        redo = []
        n_calls = 0
        while work:
            st = work.pop()
            stack = [[]]
            while stack:
                prefix = stack.pop()
                try:
                    it, res, log, forks, labels = self.run_call(st, prefix)
                except sym.Unsupported as u:
                    problem("unsupported:" + str(u)[:60], "step() leaves the modelled domain from state %s: %s" % (st, u), u.node if isinstance(u.node, dict) else None, st)
                    continue
                except IndexError:
                    continue
                stack.extend(forks)
                n_calls += 1
                flagged[0] = False
                ym, vals, ders, save, last, ste, dirty, origin, margin, stale = st
                kind, tag = self.classify(it, res)
                # ghost: under which end tests was the pending start-up taken (identifies the history that leads to a T1 finding)
                norigin = origin
                if any(w == "save" for w, _, _ in it.events):
                    ends = []
                    for c, d in labels:
                        if isinstance(c, (sp.Ge, sp.Gt)) and c.rhs == sym.S("end"):
                            try:
                                k = sp.simplify((c.lhs - T(0)) / sym.S("dt"))
                            except Exception:
                                k = None
                            if k == 0:
                                continue
                            lhs = "t" if k == 0 else ("t+%s·dt" % ("" if k == 1 else k) if k is not None and k.is_number else str(c.lhs))
                            ends.append("%s%send:%s" % (lhs, ">=" if isinstance(c, sp.Ge) else ">", "T" if d else "F"))
                    norigin = ",".join(ends) or "no-end-test"
                osfx = "[start-up under %s]" % origin if origin else ""
                p = it.p
                nvals = tuple(tag_of(x[0]) for x in it.fields["self.prev_values"].items)
                nders = tuple(tag_of(x) for x in it.fields["self.prev_derivatives"].items) if self.kind == "adams" else ()
                nym = it.fields["self.yield_memory"]
                if not getattr(nym, "is_Integer", False):
                    problem("ym-symbolic", "yield_memory becomes non-constant", None, st, labels)
                    continue
                nym = int(nym)
                nsave = save
                rolled = False
                for what, payload, node in it.events:
                    if what == "bad-time-write":
                        problem("T3:time-write", payload, node, st, labels)
                    if what == "overshoot":
                        problem("R1.2:overshoot", payload, node, st, labels)
                    if what == "incoherent-push":
                        problem("R1.5:incoherent-push", payload + " is not a coherent (time, state) pair", node, st, labels)
                    if what == "save":
                        nsave = payload
                    if what == "state-restore":
                        rolled = True
                        if payload != p:
                            problem("T3:restore-mismatch", "state restored to point %s while the time is rolled back to point %s (from state %s)" % (payload, p, st), node, st, labels)
                stag = tag_of(it.fields["self.state"]) if isinstance(it.fields["self.state"], sp.Symbol) else None
                if stag != p:
                    problem("T3:incoherent-position@ym=%s" % ymname(ym), "after this call the time is at point %d but the state is %s (from state ym=%d): (time, state) is no longer a solution point"
                            % (p, "point %d" % stag if stag is not None else "a value that belongs to no point", ym), None, st, labels)
                # formula reads: history must be the most recent consecutive points ending at the position before the advance
                reads = [(nm, arg, node) for (nm, what, arg, node) in log if what == "index"]
                if reads and kind != "yield" or (reads and ym == 0):
                    pass
                nlast = last
                if kind == "yield":
                    if tag != last + 1:
                        if tag <= last:
                            problem("T2:repeat@ym=%s" % ymname(ym), "point %d is yielded although point %d was already yielded (from state ym=%d)" % (tag, last, ym), None, st, labels)
                        else:
                            problem("T1:overtake@ym=%s%s" % (ymname(ym), osfx), "point %d is yielded while points %s were computed, buffered and never yielded (from state ym=%d, buffered %s)"
                                    % (tag, list(range(last + 1, tag)), ym, list(vals)), None, st, labels)
                    nlast = max(last, tag)
                elif kind == "done":
                    if last != p:
                        problem("T1:done-with-pending@ym=%s%s" % (ymname(ym), osfx), "Done is returned at position %d while the last yielded point is %d: the buffered start-up points %s are dropped (state ym=%d)"
                                % (p, last, [t for t in vals if t > last], ym), None, st, labels)
                elif kind in ("yield-incoherent", "yield-unknown", "unknown"):
                    problem("R1.5:" + kind, "step returns %s" % (tag,), None, st, labels)
                if rolled and nlast > p:
                    problem("T1:yield-before-commit", "a point beyond the roll-back position was already yielded", None, st, labels)
                # spacing epochs: a history that was filled with one dt must be cleared before a formula reads it under another dt
                lens = {"prev_values": len(vals), "prev_derivatives": len(ders)}
                stale_now = set(stale)
                for nm, what_, arg, node in log:
                    if what_ == "dt-write":
                        for dq_, ln in lens.items():
                            if ln > 0:
                                stale_now.add(dq_)
                    elif what_ == "push_back":
                        lens[nm] = lens.get(nm, 0) + 1
                    elif what_ == "pop_front":
                        lens[nm] = max(0, lens.get(nm, 0) - 1)
                    elif what_ == "clear":
                        lens[nm] = 0
                        stale_now.discard(nm)
                    elif (what_ == "formula-read" or (what_ == "index" and not kind_is_yield_read(ym, O, self.kind))) and nm in stale_now:
                        problem("R3.6:stale-spacing:" + nm, "the formula reads %s, whose entries were spaced with a step size that has since been rewritten (the history was not "
                                "cleared after the change of dt): the fixed-step coefficients are applied to unequally spaced points" % nm, node, st, labels)
                # formula reads need aligned history
                if reads:
                    pos_before = 0
                    dq = {"prev_values": vals, "prev_derivatives": ders}
                    for nm, idx, node in reads:
                        tags = dq.get(nm, ())
                        if kind_is_yield_read(ym, O, self.kind):
                            continue
                        want = pos_before - (len(tags) - 1 - idx)
                        if idx < len(tags) and tags[idx] != want:
                            problem("R3.6:misaligned-read:" + nm, "the formula reads %s[%d], which holds point %d, as if it were point %d (history %s, position %d)"
                                    % (nm, idx, tags[idx], want, list(tags), pos_before), node, st, labels)
                # lock-step at rest (adams)
                if self.kind == "adams" and nym == 0 and nvals != nders:
                    problem("R3.6:lock-step", "after this call value history holds points %s but derivative history holds %s (from state ym=%d)" % (list(nvals), list(nders), ym), None, st, labels)
                # normalise to position 0
                def rel(ts):
                    return tuple(t - p for t in ts)
                pending = (nym == O) if self.kind == "adams" else (nym == O + 1)
                nst = (nym, rel(nvals), rel(nders), (nsave - p) if (nsave is not None and pending) else None, nlast - p, it.ste, bool(it.dt_dirty and pending), norigin if nym != 0 else None, min(it.margin, O + 1) if it.ste is None else -1, tuple(sorted(stale_now)))
                transitions.append((st, kind, tag, nst, labels))
                if kind == "redo":
                    wrote_dt = any(w == "dt" for w, _, _ in it.events)
                    min_test = any(("dt_min" in str(c)) for c, d in labels)
                    redo.append((st, nst, wrote_dt, min_test, labels))
                if kind in ("done", "failure") or flagged[0]:
                    # a transition that already violates the protocol leads to corrupt states: not explored further
                    continue
                if nst not in seen:
                    if len(seen) >= limit:
                        problem("state-limit", "abstract state space exceeds %d states" % limit)
                        continue
                    # bound the backlog: a state whose unyielded backlog grows without bound is itself a finding
                    if -nst[4] > 3 * O:
                        problem("T1:unbounded-backlog", "unyielded points accumulate without bound", None, st, labels)
                        continue
                    seen.add(nst)
                    work.append(nst)
        return {"states": len(seen), "transitions": transitions, "problems": problems, "calls": n_calls, "redo": redo}


def kind_is_yield_read(ym, O, kind):
    """Reads of prev_values made only to *yield* a buffered point are not formula reads."""
    if kind == "adams":
        return 0 < ym < O
    return 0 < ym <= O
