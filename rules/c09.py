"""C09 — adaptive quadrature: structural clauses (the error bound itself, error <= C·tol, is numerical: not decided).

R9.1  guard table: reversed/empty intervals and negative tolerances are rejected with Err before the integrand is called
      (the four routines that take an interval; the seven that take a tolerance).
R9.2  affine map: integrate / integrate_gaussian evaluate f at (right−left)/2·x + (right+left)/2 and scale the core result
      by (right−left)/2.
R9.3  adaptive Simpson, by abstract execution with an uninterpreted integrand over every accept/subdivide pattern up to a
      depth: (a) every acceptance test is |S(left half) + S(right half) − S(panel)| < 10·tol·(panel width)/(b−a) on the panel's own
      five equally spaced abscissae; (b) the result is the sum of the fine Simpson estimates over the leaves, which tile
      [left, right]; (c) the level cap gives Err.
R9.4  Romberg: integrate_fixed with n rows returns the Romberg value R(n,n) (independent reference), which is exact on
      polynomials of degree <= 2n−1 (checked by substituting monomials).
R9.5  the five Gaussian drivers are siblings: success iff two consecutive differences are below tol; Err after the table.
R9.6  tanh–sinh driver: per table level (integer bookkeeping concrete, from the shipped row lengths) the estimate and its change are
      updated, the loop is left only when the new error estimate is below tol (or the change is exactly 0), the estimate is 0, δ or δ²,
      δ² only inside a two-sided window around 2 on ln δ/ln δ_prev, the test is first consulted at level >= 2, Ok iff estimate < tol.
"""
import itertools

import sympy as sp

from bsa import f64fold, guards, logic, paths, sym, vecint
from bsa.hir import Missing, callee, peel, place, pp, walk
from bsa.hir import pat_binds as hir_pat_binds
from rules import c07
from rules import polyint as PI

LEVEL = "other"

INTERVAL = {"integrate::integrate": True, "integrate::gaussian::integrate_gaussian": True, "integrate::integrate_simpson": True, "integrate::integrate_fixed": True}
TOL = ["integrate::integrate", "integrate::gaussian::integrate_gaussian", "integrate::integrate_simpson", "integrate::gaussian::integrate_laguerre",
       "integrate::gaussian::integrate_hermite", "integrate::gaussian::integrate_chebyshev", "integrate::gaussian::integrate_chebyshev_second"]
S = sym.S


def guard_prefix_end(b):
    """First top-level statement that is not an `if … { return Err(..) }` guard."""
    for st in b["body"]["stmts"]:
        e = st.get("e") if st.get("k") in ("ExprS", "Semi") else None
        if e is not None and e.get("k") == "If" and "e" not in e and any(x.get("k") == "Ret" for x in walk(e["t"])):
            continue
        return st
    return None


def check_guards(F, run):
    for path in sorted(set(INTERVAL) | set(TOL)):
        b = F.fn(path)
        run.analysed(b)
        reqs = []
        if path in INTERVAL:
            reqs.append(("left<right", lambda it: sp.Lt(S("left"), S("right"))))
        if path in TOL:
            reqs.append(("tol>=0", lambda it: sp.Ge(S("tol"), 0)))
        stop = guard_prefix_end(b)
        ps = guards.check_preconditions(F, run, "R9.1", b, path, reqs, stop_stmt=stop, floor=1)
        for p in ps:
            run.check(not p.interp.calls, "R9.1", path, "no-evaluation-before-guards", F.loc(b), "the integrand is evaluated before the input is validated")


class MapInterp(vecint.VInterp):
    """integrate / integrate_gaussian: the core integrator is a stub that records the closure it is given."""
    def ev_Call(self, n):
        d = callee(n) or ""
        if d in ("integrate::integrate_core", "integrate::gaussian::integrate_gaussian_core"):
            self.shared["core_args"] = [self.ev(a) for a in n["args"]]
            return sym.Variant("Ok", [sp.Symbol("CORE", real=True)])
        return vecint.VInterp.ev_Call(self, n)


def check_affine_map(F, run):
    for path in ("integrate::integrate", "integrate::gaussian::integrate_gaussian"):
        b = F.fn(path)
        left, right, tol = sp.Symbol("left", real=True), sp.Symbol("right", real=True), sp.Symbol("tol", positive=True)

        def hook(i, n, c):
            if c.has(left) and c.has(right) and isinstance(c, (sp.Ge, sp.Gt, sp.Le, sp.Lt)):
                return False        # the valid branch: left < right
            if "is_finite" in str(c):
                return True
            r = PI.generic_decide(c)
            return r
        try:
            it = MapInterp(F, b)
            it.if_hook = hook
            names = [p.get("name") for p in b["params"]]
            for p, a in zip(b["params"], [left, right, sym.Opaque("f"), tol]):
                it.bind(p, a if p.get("name") != "f" else sp.Symbol("f_param"), b)
            # the integrand parameter is a user function
            for p in b["params"]:
                if p.get("name") == "f":
                    it.env[p["id"]] = sp.Symbol("userfn")
            try:
                v = it.ev(b["body"])
            except sym.Return as r:
                v = r.value
        except (sym.Unsupported, vecint.IndexPanic) as e:
            run.broken("R9.2", path, "body", F.loc(b), str(e))
            continue
        core = it.shared.get("core_args")
        if not run.check(core is not None and isinstance(core[0], sym.ClosureVal), "R9.2", path, "calls-core-with-closure", F.loc(b), "the core integrator is not called with a mapping closure"):
            continue
        t = sp.Symbol("t", real=True)
        it.is_finite_true = True
        try:
            mapped = it.apply_closure(core[0], [t], b)
        except sym.Unsupported as u:
            run.broken("R9.2", path, "closure", F.loc(b), str(u))
            continue
        fa = list(mapped.atoms(sp.Function)) if hasattr(mapped, "atoms") else []
        fa = [a for a in fa if str(a.func) == "f"]
        good = len(fa) == 1 and sym.is_zero(fa[0].args[0] - ((right - left) / 2 * t + (right + left) / 2))
        run.check(good, "R9.2", path, "abscissa-map", F.loc(b), "the integrand is evaluated at %s, expected (right−left)/2·x + (right+left)/2" % (fa[0].args[0] if fa else mapped),
                  sample="%s: f((b−a)/2·x + (a+b)/2)" % path.split("::")[-1])
        good = isinstance(v, sym.Variant) and v.name == "Ok" and sym.is_zero(v.args[0] - sp.Symbol("CORE", real=True) * (right - left) / 2)
        run.check(good, "R9.2", path, "result-scale", F.loc(b), "the result is %s, expected core·(right−left)/2" % (v,), sample="result = core·(b−a)/2")
        # tolerance handed to the core: the error of the result is (core tolerance)·(b−a)/2, so their product must be c·tol with a constant 0 < c <= 1
        # (Gauss–Legendre), or the tolerance is handed down unscaled (tanh–sinh: product = tol·(b−a)/2, at most 2·tol on the property's intervals)
        tcore = core[1] if len(core) > 1 else None
        ratio = sp.simplify(tcore * (right - left) / 2 / tol) if hasattr(tcore, "free_symbols") else None
        okt = ratio is not None and ((ratio.is_number and 0 < ratio <= 1) or sym.is_zero(ratio - (right - left) / 2))
        run.check(okt, "R9.2", path, "tolerance-scale", F.loc(b),
                  "the core integrator is given the tolerance %s: (core tolerance)·(right−left)/2 = %s·tol, expected a constant in (0, 1] times tol (or the unscaled tolerance): "
                  "the accuracy of the result would depend on where the interval lies" % (tcore, ratio), sample="%s: core tolerance·scale = %s·tol" % (path.split("::")[-1], ratio))


class UserFn(vecint.VInterp):
    """Calls of the integrand parameter `f` become uninterpreted atoms f(x)."""
    def user_call(self, pl, args, n):
        return sp.Function("f")(*[a for a in args if not isinstance(a, (sym.Opaque, sym.ClosureVal))])


def check_simpson(F, run, tier):
    b = F.fn("integrate::integrate_simpson")
    run.analysed(b)
    dp = "integrate::integrate_simpson"
    where = F.loc(b)
    left, right, tol = sp.Symbol("left", real=True), sp.Symbol("right", real=True), sp.Symbol("tol", positive=True)
    f = sp.Function("f")
    depth = 6 if tier == "thorough" else 4
    n_runs = n_conds = 0
    seen_patterns = set()
    for pattern in itertools.product((False, True), repeat=depth):
        decisions = list(pattern)
        used = []
        conds = []

        def hook(i, n, c, decisions=decisions, used=used, conds=conds):
            s = str(c)
            if c.has(left) and c.has(right) and not c.has(sp.Function("f")) and not c.atoms(sp.Function):
                return False      # left >= right: valid input
            if c.atoms(sp.Function) and any(str(a.func) == "f" for a in c.atoms(sp.Function)):
                k = len(used)
                d = decisions[k] if k < len(decisions) else True      # beyond the pattern: accept
                used.append(d)
                conds.append(c)
                return d
            return PI.generic_decide(c)
        try:
            v, it = PI.call(F, b, [left, right, sp.Symbol("userfn"), tol, sp.Integer(depth + 3)], hook=hook, seconds=60, cls=UserFn)
        except vecint.IndexPanic as e:
            run.fail("R9.3", dp, "panic:" + "".join("A" if d else "S" for d in pattern), where, "abstract execution panics: %s" % e.why)
            continue
        except sym.Unsupported as u:
            run.broken("R9.3", dp, "pattern:" + "".join("A" if d else "S" for d in pattern), F.loc(b, u.node if isinstance(u.node, dict) else None), str(u))
            break
        key = tuple(used)
        if key in seen_patterns:
            continue
        seen_patterns.add(key)
        n_runs += 1
        pat = "".join("A" if d else "S" for d in used)
        if not (isinstance(v, sym.Variant) and v.name == "Ok"):
            run.fail("R9.3", dp, "result:" + pat, where, "returns %r on a pattern that stays below the level cap" % (v,))
            continue
        area = sp.expand(v.args[0])
        leaves = []
        okc = True
        for c, d in zip(conds, used):
            n_conds += 1
            pts = sorted({a.args[0] for a in c.atoms(sp.Function) if str(a.func) == "f"}, key=lambda e: sp.simplify(e.subs({left: 0, right: 1}, simultaneous=True)))
            if len(pts) != 5:
                run.fail("R9.3a", dp, "five-points:" + pat, where, "an acceptance test looks at %d abscissae instead of its panel's five: the saved coarse estimate belongs to another panel" % len(pts))
                okc = False
                continue
            h = sp.simplify(pts[1] - pts[0])
            equi = all(sym.is_zero(pts[k + 1] - pts[k] - h) for k in range(4))
            fine = h / 3 * (f(pts[0]) + 4 * f(pts[1]) + f(pts[2])) + h / 3 * (f(pts[2]) + 4 * f(pts[3]) + f(pts[4]))
            coarse = 2 * h / 3 * (f(pts[0]) + 4 * f(pts[2]) + f(pts[4]))
            want_tol = 10 * tol * (pts[4] - pts[0]) / (right - left)
            lhs, rhs = (c.lhs, c.rhs) if isinstance(c, (sp.Lt, sp.Le)) else (c.rhs, c.lhs)
            abss = list(lhs.atoms(sp.Abs))
            mag_ok = False
            if len(abss) == 1:
                coef = sp.simplify(lhs / abss[0])
                if coef.is_number and coef > 0:
                    inner = coef * abss[0].args[0]
                    mag_ok = sym.is_zero(inner - (fine - coarse)) or sym.is_zero(inner + (fine - coarse))
            good = equi and isinstance(c, (sp.Lt, sp.Le, sp.Gt, sp.Ge)) and mag_ok and sym.is_zero(rhs - want_tol)
            if not good:
                okc = False
                run.fail("R9.3a", dp, "acceptance-test:%s#%d" % (pat, len(leaves)), where,
                         "acceptance test `%s` is not |S(left half) + S(right half) − S(panel)| < 10·tol·width/(b−a) on the panel [%s, %s]: the saved coarse estimate or tolerance of the frame is wrong"
                         % (str(c)[:200], pts[0], pts[4]))
            if d:
                leaves.append((pts[0], pts[4], fine))
        if okc:
            run.ok("R9.3a", pat, "pattern %s: %d acceptance tests are Simpson-vs-refined on their own panels" % (pat, len(conds)))
        total = sum(l[2] for l in leaves)
        width = sum(l[1] - l[0] for l in leaves)
        run.check(sym.is_zero(area - sp.expand(total)), "R9.3b", dp, "area=sum-of-leaves:" + pat, where, "the returned area is not the sum of the accepted refined Simpson estimates",
                  sample="pattern %s: area = Σ over %d leaves" % (pat, len(leaves)))
        run.check(sym.is_zero(width - (right - left)), "R9.3b", dp, "leaves-tile:" + pat, where, "the accepted panels do not tile [left, right] (total width %s)" % sp.simplify(width))
    run.floor("R9.3", dp, "distinct accept/subdivide patterns", n_runs, 8, where)
    # level cap
    try:
        v, it = PI.call(F, b, [left, right, sp.Symbol("userfn"), tol, sp.Integer(2)],
                        hook=lambda i, n, c: (False if (c.atoms(sp.Function) or (c.has(left) and c.has(right))) else PI.generic_decide(c)), seconds=60, cls=UserFn)
        run.check(isinstance(v, sym.Variant) and v.name == "Err", "R9.3c", dp, "level-cap", where, "never-accepting panels with n_max = 2 return %r instead of Err" % (v,), sample="level cap ⇒ Err")
    except (sym.Unsupported, vecint.IndexPanic) as e:
        run.broken("R9.3c", dp, "level-cap", where, str(e))
    run.extra["simpson_patterns"] = n_runs
    run.extra["simpson_conditions"] = n_conds


def romberg_reference(f, a, b, n):
    R = [[None] * (n + 1) for _ in range(n + 1)]
    h = b - a
    R[1][1] = h / 2 * (f(a) + f(b))
    for i in range(2, n + 1):
        s = sum(f(a + (sp.Integer(k) - sp.Rational(1, 2)) * h) for k in range(1, 2 ** (i - 2) + 1))
        R[i][1] = (R[i - 1][1] + h * s) / 2
        for j in range(2, i + 1):
            R[i][j] = R[i][j - 1] + (R[i][j - 1] - R[i - 1][j - 1]) / (4 ** (j - 1) - 1)
        h = h / 2
    return R[n][n]


def check_romberg(F, run, tier):
    b = F.fn("integrate::integrate_fixed")
    run.analysed(b)
    dp = "integrate::integrate_fixed"
    left, right = sp.Symbol("left", real=True), sp.Symbol("right", real=True)
    f = sp.Function("f")
    hook = lambda i, n, c: (False if (c.has(left) and c.has(right) and not c.atoms(sp.Function)) else PI.generic_decide(c))
    for n in range(1, (5 if tier == "thorough" else 4) + 1):
        try:
            v, it = PI.call(F, b, [left, right, sp.Symbol("userfn"), sp.Integer(n)], hook=hook, seconds=60, cls=UserFn)
        except vecint.IndexPanic as e:
            run.fail("R9.4", dp, "panic:n=%d" % n, F.loc(b), "abstract execution panics: %s" % e.why)
            continue
        except sym.Unsupported as u:
            run.broken("R9.4", dp, "n=%d" % n, F.loc(b, u.node if isinstance(u.node, dict) else None), str(u))
            continue
        if not (isinstance(v, sym.Variant) and v.name == "Ok"):
            run.fail("R9.4", dp, "result:n=%d" % n, F.loc(b), "returns %r" % (v,))
            continue
        val = v.args[0]
        ref = romberg_reference(f, left, right, n)
        run.check(sym.is_zero(sp.expand(val) - sp.expand(ref)), "R9.4", dp, "romberg-value:n=%d" % n, F.loc(b), "integrate_fixed(n=%d) is not the Romberg value R(n,n)" % n,
                  sample="n=%d: R(n,n)" % n)
        t = sp.Symbol("t", real=True)
        for k in range(0, 2 * n):
            got = val.replace(lambda e: isinstance(e, sp.Function) and str(e.func) == "f", lambda e: e.args[0] ** k)
            exact = (right ** (k + 1) - left ** (k + 1)) / (k + 1)
            run.check(sym.is_zero(sp.expand(got) - sp.expand(exact)), "R9.4", dp, "exact:n=%d,degree=%d" % (n, k), F.loc(b),
                      "Romberg with %d rows is not exact on x^%d" % (n, k), sample="n=%d exact on x^%d" % (n, k))


class GaussLoop(guards.GInterp):
    """One iteration of a Gaussian driver with the quadrature sum abstracted to the symbol AREA."""
    def ev_MCall(self, n):
        if n["name"] in ("fold", "sum"):
            return sp.Symbol("AREA", real=True)
        return guards.GInterp.ev_MCall(self, n)


def check_stop_rule(F, run):
    drivers = ["integrate::gaussian::integrate_gaussian_core", "integrate::gaussian::integrate_laguerre", "integrate::gaussian::integrate_hermite",
               "integrate::gaussian::integrate_chebyshev", "integrate::gaussian::integrate_chebyshev_second"]
    A, PA, PE, T = sp.Symbol("AREA", real=True), S("prev_area"), S("prev_err"), S("tol")
    for path in drivers:
        b = F.fn(path)
        run.analysed(b)
        st, loop = guards.first_loop(b)
        if loop is None or loop.get("k") != "For":
            run.broken("R9.5", path, "loop", F.loc(b), "no table loop")
            continue
        try:
            lps = paths.explore(F, b, setup=c07.preset_all(b, {}), node=loop["body"], interp_cls=GaussLoop)
        except sym.Unsupported as u:
            run.broken("R9.5", path, "iteration", F.loc(b, loop), str(u))
            continue
        okp = False
        contp = False
        for p in lps:
            if guards.is_ok(p.result):
                cond = p.cond()
                want = sp.And(sp.Abs(A - PA) < T, PE < T)
                from bsa import logic
                good = p.result.args[0] == A and logic.entails(cond, sp.Lt(sp.Abs(A - PA), T)) and logic.entails(cond, sp.Lt(PE, T))
                run.check(good, "R9.5", path, "success=two-consecutive-agreements", F.loc(b, loop),
                          "Ok is returned under [%s] with value %s; expected the current area when |area − prev| < tol and prev_err < tol" % (cond, p.result.args[0]),
                          sample="%s: Ok(area) iff err < tol && prev_err < tol" % path.split("::")[-1])
                okp = True
            elif p.fell_through:
                cur = {nm: p.interp.env.get(i) for i, nm in p.interp.names.items() if nm in ("prev_area", "prev_err")}
                good = cur.get("prev_area") == A and sym.is_zero(cur.get("prev_err") - sp.Abs(A - PA))
                run.check(good, "R9.5", path, "carries-state", F.loc(b, loop), "after a non-converged rule prev_area/prev_err are %s, expected (area, |area − prev_area|)" % cur)
                contp = True
        run.check(okp and contp, "R9.5", path, "both-outcomes", F.loc(b, loop), "the loop body has no success path or no continue path")
        # the first rule has nothing to agree with: the initial prev_err must not already count as an agreement (for every positive tolerance)
        try:
            pre = paths.explore(F, b, setup=c07.preset_all(b, {"tol": sp.Symbol("tol", positive=True)}), stop_at=st, interp_cls=GaussLoop)
            e0s = []
            for p0 in pre:
                if p0.fell_through:
                    e0s.append({nm: p0.interp.env.get(i) for i, nm in p0.interp.names.items()}.get("prev_err"))
            Tp = sp.Symbol("tol", positive=True)
            good0 = bool(e0s) and all(e0 is not None and logic.entails(sp.true, sp.Ge(sp.simplify(e0 - Tp), 0)) for e0 in e0s)
            run.check(good0, "R9.5", path, "first-rule-cannot-succeed", F.loc(b),
                      "prev_err starts as %s: not >= tol for every positive tolerance, so the two-consecutive-agreements test can pass on the first rule alone "
                      "(one evaluation; e.g. Ok(0) for an integrand that vanishes at the midpoint)" % (e0s,), sample="%s: initial prev_err >= tol" % path.split("::")[-1])
        except sym.Unsupported as u:
            run.broken("R9.5", path, "initial-state", F.loc(b), str(u))
        tail = peel(b["body"].get("expr") or {})
        run.check(tail.get("k") == "Call" and (callee(tail) or "").endswith("Err"), "R9.5", path, "exhausted-gives-err", F.loc(b), "exhausting the table does not return Err")


def bind_nodes(p):
    """All Bind nodes of a pattern (generic traversal: tuple/ref/struct sub-patterns)."""
    if isinstance(p, dict):
        if p.get("k") == "Bind":
            yield p
        for v in p.values():
            if isinstance(v, (dict, list)):
                yield from bind_nodes(v)
    elif isinstance(p, list):
        for x in p:
            yield from bind_nodes(x)


INT_TYPES = ("usize", "u8", "u16", "u32", "u64", "i8", "i16", "i32", "i64", "isize")


def check_de_stop(F, run):
    """R9.6 — the stopping rule of the tanh–sinh driver, level by level.

    The loop body is explored path-sensitively once per table level with the *integer* locals (evaluation counter, enumerate index) concrete
    — they are computed from the actual row lengths of WEIGHTS_DE — and everything else symbolic (the level's sum is the symbol AREA)."""
    path = "integrate::integrate_core"
    b = F.fn(path)
    run.analysed(b)
    where = F.loc(b)
    st, loop = guards.first_loop(b)
    if loop is None or loop.get("k") != "For":
        run.broken("R9.6", path, "loop", where, "no loop over the level table")
        return
    rows = f64fold.table_rows(F.fn("integrate::tables::WEIGHTS_DE"))
    consts = c07.constant_locals(F, b)
    # integer locals and their values at loop entry
    int_names = set()
    for n in walk(b["body"]):
        if n.get("k") == "LetS":
            for q in bind_nodes(n["pat"]):
                if q.get("ty") in INT_TYPES:
                    int_names.add(q["name"])
    for q in bind_nodes(loop["pat"]):
        if q.get("ty") in INT_TYPES:
            int_names.add(q["name"])
    try:
        pre = paths.explore(F, b, stop_at=st, interp_cls=GaussLoop)
    except sym.Unsupported as u:
        run.broken("R9.6", path, "prefix", F.loc(b, u.node if isinstance(u.node, dict) else None), str(u))
        return
    if len(pre) != 1:
        run.broken("R9.6", path, "prefix", where, "the statements before the level loop branch")
        return
    ints = {}
    init = {}
    for i, nm in pre[0].interp.names.items():
        v = pre[0].interp.env.get(i)
        if nm in int_names and getattr(v, "is_Integer", False):
            ints[nm] = v
        if nm in ("error_estimate", "current_delta", "integral"):
            init[nm] = v
    # which loop-pattern names are the enumerate index / the row
    pat_names = [nm for _, nm in hir_pat_binds(loop["pat"])]
    idx_names = [nm for nm in pat_names if nm in int_names]
    row_names = [nm for nm in pat_names if nm not in int_names]
    if len(row_names) != 1 or len(idx_names) > 1:
        run.broken("R9.6", path, "loop-pattern", F.loc(b, loop), "loop pattern binds %s" % pat_names)
        return
    A, I, D, E, T = sp.Symbol("AREA", real=True), S("integral"), S("current_delta"), S("error_estimate"), S("tol")
    first_consult = None
    n_levels = 0
    for level, row in enumerate(rows):
        vals = dict(consts)
        vals.update(ints)
        vals[row_names[0]] = [(sp.Symbol("w%d" % j, real=True), sp.Symbol("x%d" % j, real=True)) for j in range(len(row))]
        for nm in idx_names:
            vals[nm] = sp.Integer(level)
        try:
            lps = paths.explore(F, b, setup=c07.preset_all(b, vals), node=loop["body"], interp_cls=GaussLoop)
        except sym.Unsupported as u:
            run.broken("R9.6", path, "level=%d" % level, F.loc(b, u.node if isinstance(u.node, dict) else loop), str(u))
            return
        n_levels += 1
        nxt = None
        consulted = False
        for p in lps:
            env = {nm: p.interp.env.get(i) for i, nm in p.interp.names.items()}
            cur_ints = {nm: env.get(nm) for nm in ints}
            if nxt is None:
                nxt = cur_ints
            elif nxt != cur_ints:
                run.broken("R9.6", path, "level=%d" % level, F.loc(b, loop), "integer locals differ between the paths of one level: %s vs %s" % (nxt, cur_ints))
                return
            # the running integral and the level difference are updated on every path
            okI = sym.is_zero(env.get("integral") - (I / 2 + A))
            okD = sym.is_zero(env.get("current_delta") - sp.Abs(A - I / 2))
            run.check(okI and okD, "R9.6", path, "level-update:level=%d" % level, F.loc(b, loop),
                      "after level %d: integral = %s, current_delta = %s; expected integral/2 + (level sum) and |level sum − integral/2| (the change of the estimate)"
                      % (level, env.get("integral"), env.get("current_delta")))
            if p.pc or isinstance(p.result, sym.Break) or env.get("error_estimate") != E:
                consulted = True
                cond = p.cond()
                ee = env.get("error_estimate")
                if isinstance(p.result, sym.Break):
                    # a break must be justified: the new error estimate is below the tolerance (or the change is exactly zero)
                    good = (ee == 0 and logic.entails(cond, sp.Eq(sp.Abs(A - I / 2), 0))) or logic.entails(cond, sp.Lt(ee, T))
                    run.check(good, "R9.6", path, "break-justified:level=%d" % level, F.loc(b, loop),
                              "the level loop is left under [%s] with error_estimate = %s: not implied by `error_estimate < tol` or a zero change" % (cond, ee))
                dlt = sp.Abs(A - I / 2)
                forms = [sp.Integer(0), dlt, dlt ** 2]
                run.check(any(sym.is_zero(ee - f) for f in forms), "R9.6", path, "estimate-form:level=%d" % level, F.loc(b, loop),
                          "error_estimate becomes %s; expected 0, the last change δ or δ² of the estimate" % ee)
                if sym.is_zero(ee - dlt ** 2) and dlt != 0:
                    # squaring is allowed only inside the convergence-trend window on r = ln δ / ln δ_prev
                    rs = sp.Symbol("r_", real=True)
                    flat = []
                    for l in p.pc:
                        flat += list(l.args) if isinstance(l, sp.And) else [l]
                    lo = [l for l in flat if isinstance(l, sp.core.relational.Relational) and any(str(f.func) in ("ln", "log") for f in l.atoms(sp.Function))]
                    win_ok = False
                    if len(lo) >= 2:
                        X = lo[0].lhs if lo[0].lhs.free_symbols else lo[0].rhs
                        num, den = X.as_numer_denom()
                        shape = (str(num.func) in ("ln", "log") and str(den.func) in ("ln", "log") and num.func == den.func
                                 and sym.is_zero(num.args[0] - dlt) and den.args[0] == D)
                        win_ok = shape and logic.entails(sp.And(*[l.subs(X, rs) for l in lo]), sp.And(rs > 1, rs < 3))
                    run.check(win_ok, "R9.6", path, "square-only-in-trend-window:level=%d" % level, F.loc(b, loop),
                              "error_estimate = δ² is taken under [%s]: not a two-sided window around 2 on ln δ / ln δ_prev" % cond)
        if consulted and first_consult is None:
            first_consult = level
        ints = nxt or ints
    run.check(first_consult is not None and first_consult >= 2, "R9.6", path, "first-stop-test-at-level>=2", F.loc(b, loop),
              "with the shipped table (row lengths %s) the stopping test is first consulted at level %s: the trend ratio ln δ_l / ln δ_(l−1) needs two changes between "
              "consecutive table levels (δ_0 compares the level-0 sum with the bare centre term), so no earlier than level 2"
              % ([len(r) for r in rows], first_consult), sample="first level at which the stop test runs: %s" % first_consult)
    run.check(first_consult is not None and first_consult < len(rows), "R9.6", path, "stop-test-reachable", F.loc(b, loop),
              "the stopping test is never consulted for any of the %d levels" % len(rows))
    # after the loop: Ok(integral) iff error_estimate < tol; initial estimate is not below the tolerance
    tail = peel(b["body"].get("expr") or {})
    try:
        fin = paths.explore(F, b, setup=c07.preset_all(b, dict(consts)), node=tail, interp_cls=GaussLoop)
        for p in fin:
            if guards.is_ok(p.result):
                run.check(p.result.args[0] == I and logic.entails(p.cond(), sp.Lt(E, T)), "R9.6", path, "ok-iff-estimate-below-tol", F.loc(b, tail),
                          "Ok(%s) under [%s]" % (p.result.args[0], p.cond()), sample="Ok(integral) iff error_estimate < tol")
            else:
                run.check(guards.is_err(p.result), "R9.6", path, "exhausted-gives-err", F.loc(b, tail), "the fall-through result is %r" % (p.result,))
    except sym.Unsupported as u:
        run.broken("R9.6", path, "tail", F.loc(b, tail), str(u))
    e0 = init.get("error_estimate")
    run.check(e0 is not None and logic.entails(sp.Gt(T, 0), sp.Ge(e0, T)) , "R9.6", path, "initial-estimate-not-converged", where,
              "error_estimate starts as %s, which is not >= tol for every positive tol: levels that skip the test could end in Ok" % e0)
    run.floor("R9.6", path, "levels explored", n_levels, 7, where)


def run(F, run, tier):
    check_guards(F, run)
    check_affine_map(F, run)
    check_simpson(F, run, tier)
    check_romberg(F, run, tier)
    check_stop_rule(F, run)
    check_de_stop(F, run)
    run.assumptions += ["the integrand is uninterpreted; exact arithmetic", "error <= C·tol and evaluation counts are numerical: not decided",
                        "adaptive Simpson is explored over all accept/subdivide patterns of bounded depth"]
    expl = ("Guards are established path-sensitively for all eight routines; the affine map and result scaling are extracted from the wrapper closures; adaptive Simpson is "
            "executed abstractly with an uninterpreted integrand over every accept/subdivide pattern up to a depth, checking each acceptance test against Simpson-vs-refined on "
            "the frame's own panel and the result against the sum over the leaves; Romberg is compared with an independent R(n,n) and shown exact on monomials up to degree 2n−1; "
            "the five Gaussian drivers' two-consecutive-agreement rule is checked on one symbolic iteration.")
    return "other", expl, None
