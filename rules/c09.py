"""C09 — adaptive quadrature: structural clauses (the error bound itself, error <= C·tol, is numerical: not decided).

R9.1  guard table: reversed/empty intervals and negative tolerances are rejected with Err before the integrand is called
      (the four routines that take an interval; the seven that take a tolerance).
R9.2  affine map: integrate / integrate_gaussian evaluate f at (right−left)/2·x + (right+left)/2 and scale the core result
      by (right−left)/2.
R9.3  adaptive Simpson, by abstract execution with an uninterpreted integrand over every accept/subdivide pattern up to a
      depth: (a) every acceptance test is |S(left half) + S(right half) − S(panel)| < 10·tol·(panel width)/(b−a) on the panel's own
      five equally spaced abscissae; (b) the result is the sum of the fine Simpson estimates over the leaves, which tile
      [left, right]; (c) the level cap gives Err.
R9.4  Romberg: integrate_fixed with n rows returns the Romberg value R(n,n) (independent reference), which is exact on
      polynomials of degree <= 2n−1 (checked by substituting monomials).
R9.5  the five Gaussian drivers are siblings: success iff two consecutive differences are below tol; Err after the table.
R9.6  tanh–sinh driver: per table level (integer bookkeeping concrete, from the shipped row lengths) the estimate and its change are
      updated, the loop is left only when the new error estimate is below tol (or the change is exactly 0), the estimate is 0, δ or δ²,
      δ² only inside a two-sided window around 2 on ln δ/ln δ_prev, the test is first consulted at level >= 2, Ok iff estimate < tol.
"""
import itertools

import sympy as sp

from bsa import f64fold, guards, logic, paths, sym, vecint
from bsa.hir import Missing, callee, peel, place, pp, walk
from bsa.hir import pat_binds as hir_pat_binds
from rules import quadmodel as QM
from rules import c07
from rules import polyint as PI

LEVEL = "other"

INTERVAL = {"integrate::integrate": True, "integrate::gaussian::integrate_gaussian": True, "integrate::integrate_simpson": True, "integrate::integrate_fixed": True}
TOL = ["integrate::integrate", "integrate::gaussian::integrate_gaussian", "integrate::integrate_simpson", "integrate::gaussian::integrate_laguerre",
       "integrate::gaussian::integrate_hermite", "integrate::gaussian::integrate_chebyshev", "integrate::gaussian::integrate_chebyshev_second"]
S = sym.S


def guard_prefix_end(F, b):
    """Where the main computation starts: the first top-level statement (or the tail expression) that — outside closure bodies — calls the
    integrand or hands it (or a closure) to a crate function.  Everything before it is the guard prefix, whatever its shape (`if … return Err`,
    a `match` on the conditions, a validation helper called with `?`)."""
    def starts_computation(st):
        if st.get("k") == "LetS" and peel(st.get("init") or {}).get("k") == "Closure":
            return False                      # a closure *definition*: nothing is evaluated yet
        e = st.get("e") if st.get("k") in ("ExprS", "Semi") else (st.get("init") if st.get("k") == "LetS" else st)
        if isinstance(e, dict) and peel(e).get("k") in ("For", "While", "Loop"):
            return True                       # guards do not loop
        for x in walk(st):
            if x.get("k") == "Call" and "ovl" in x:
                return True
            if x.get("k") == "Call" and (callee(x) or "") in getattr(F, "by_path", {}):
                for a in x.get("args", []):
                    ap = peel(a)
                    ty = (ap.get("ty") or "").lstrip("&mut ")
                    if ap.get("k") == "Closure" or "closure@" in ty or ty.startswith(("fn(", "impl Fn")) or (ap.get("k") == "Local" and ty in ("F", "G", "Fun")):
                        return True
        return False
    for st in b["body"]["stmts"]:
        if starts_computation(st):
            return st
    return b["body"].get("expr")


def check_guards(F, run):
    for path in sorted(set(INTERVAL) | set(TOL)):
        b = F.fn(path)
        run.analysed(b)
        reqs = []
        if path in INTERVAL:
            reqs.append(("left<right", lambda it: sp.Lt(S("left"), S("right"))))
        if path in TOL:
            reqs.append(("tol>=0", lambda it: sp.Ge(S("tol"), 0)))
        stop = guard_prefix_end(F, b)
        ps = guards.check_preconditions(F, run, "R9.1", b, path, reqs, stop_stmt=stop, floor=1, interp_cls=guards.SoftGInterp)
        for p in ps:
            run.check(not p.interp.calls, "R9.1", path, "no-evaluation-before-guards", F.loc(b), "the integrand is evaluated before the input is validated")


class MapInterp(vecint.VInterp):
    """integrate / integrate_gaussian: the core integrator is a stub that records the closure it is given."""
    def ev_Call(self, n):
        d = callee(n) or ""
        if d in ("integrate::integrate_core", "integrate::gaussian::integrate_gaussian_core"):
            self.shared["core_args"] = [self.ev(a) for a in n["args"]]
            return sym.Variant("Ok", [sp.Symbol("CORE", real=True)])
        return vecint.VInterp.ev_Call(self, n)


def check_affine_map(F, run):
    for path in ("integrate::integrate", "integrate::gaussian::integrate_gaussian"):
        b = F.fn(path)
        left, right, tol = sp.Symbol("left", real=True), sp.Symbol("right", real=True), sp.Symbol("tol", positive=True)

        def hook(i, n, c):
            if c.has(left) and c.has(right) and isinstance(c, (sp.Ge, sp.Gt, sp.Le, sp.Lt)):
                return False        # the valid branch: left < right
            if "is_finite" in str(c):
                return True
            r = PI.generic_decide(c)
            return r
        try:
            it = MapInterp(F, b)
            it.if_hook = hook
            names = [p.get("name") for p in b["params"]]
            for p, a in zip(b["params"], [left, right, sym.Opaque("f"), tol]):
                it.bind(p, a if p.get("name") != "f" else sp.Symbol("f_param"), b)
            # the integrand parameter is a user function
            for p in b["params"]:
                if p.get("name") == "f":
                    it.env[p["id"]] = sp.Symbol("userfn")
            try:
                v = it.ev(b["body"])
            except sym.Return as r:
                v = r.value
        except (sym.Unsupported, vecint.IndexPanic) as e:
            run.broken("R9.2", path, "body", F.loc(b), str(e))
            continue
        core = it.shared.get("core_args")
        if not run.check(core is not None and isinstance(core[0], sym.ClosureVal), "R9.2", path, "calls-core-with-closure", F.loc(b), "the core integrator is not called with a mapping closure"):
            continue
        t = sp.Symbol("t", real=True)
        it.is_finite_true = True
        try:
            mapped = it.apply_closure(core[0], [t], b)
        except sym.Unsupported as u:
            run.broken("R9.2", path, "closure", F.loc(b), str(u))
            continue
        fa = list(mapped.atoms(sp.Function)) if hasattr(mapped, "atoms") else []
        fa = [a for a in fa if str(a.func) == "f"]
        good = len(fa) == 1 and sym.is_zero(fa[0].args[0] - ((right - left) / 2 * t + (right + left) / 2))
        run.check(good, "R9.2", path, "abscissa-map", F.loc(b), "the integrand is evaluated at %s, expected (right−left)/2·x + (right+left)/2" % (fa[0].args[0] if fa else mapped),
                  sample="%s: f((b−a)/2·x + (a+b)/2)" % path.split("::")[-1])
        good = isinstance(v, sym.Variant) and v.name == "Ok" and sym.is_zero(v.args[0] - sp.Symbol("CORE", real=True) * (right - left) / 2)
        run.check(good, "R9.2", path, "result-scale", F.loc(b), "the result is %s, expected core·(right−left)/2" % (v,), sample="result = core·(b−a)/2")
        # tolerance handed to the core: the error of the result is (core tolerance)·(b−a)/2, so their product must be c·tol with a constant 0 < c <= 1
        # (Gauss–Legendre), or the tolerance is handed down unscaled (tanh–sinh: product = tol·(b−a)/2, at most 2·tol on the property's intervals)
        tcore = core[1] if len(core) > 1 else None
        ratio = sp.simplify(tcore * (right - left) / 2 / tol) if hasattr(tcore, "free_symbols") else None
        okt = ratio is not None and ((ratio.is_number and 0 < ratio <= 1) or sym.is_zero(ratio - (right - left) / 2))
        run.check(okt, "R9.2", path, "tolerance-scale", F.loc(b),
                  "the core integrator is given the tolerance %s: (core tolerance)·(right−left)/2 = %s·tol, expected a constant in (0, 1] times tol (or the unscaled tolerance): "
                  "the accuracy of the result would depend on where the interval lies" % (tcore, ratio), sample="%s: core tolerance·scale = %s·tol" % (path.split("::")[-1], ratio))


class UserFn(vecint.VInterp):
    """Calls of the integrand parameter `f` become uninterpreted atoms f(x)."""
    def user_call(self, pl, args, n):
        return sp.Function("f")(*[a for a in args if not isinstance(a, (sym.Opaque, sym.ClosureVal))])

    def ev_MCall(self, n):
        # the integrand is generic over ComplexField ("real and complex integrands"): `.real()` of a quantity built from its values drops a part
        # (of a magnitude it is the identity: re(|z|) = |z|); for the real quantities of the drivers it stays the by-value conversion
        if n["name"] in ("real", "to_real") and not n["args"]:
            rv = self.deref(self.ev(n["recv"]))
            if isinstance(rv, sp.Basic) and rv.atoms(sp.core.function.AppliedUndef):
                return sp.re(rv)
            return rv
        return vecint.VInterp.ev_MCall(self, n)


def check_simpson(F, run, tier):
    b = F.fn("integrate::integrate_simpson")
    run.analysed(b)
    dp = "integrate::integrate_simpson"
    where = F.loc(b)
    left, right, tol = sp.Symbol("left", real=True), sp.Symbol("right", real=True), sp.Symbol("tol", positive=True)
    f = sp.Function("f")
    depth = 6 if tier == "thorough" else 4
    n_runs = n_conds = 0
    seen_patterns = set()
    for pattern in itertools.product((False, True), repeat=depth):
        decisions = list(pattern)
        used = []
        conds = []

        def hook(i, n, c, decisions=decisions, used=used, conds=conds):
            s = str(c)
            if c.has(left) and c.has(right) and not c.has(sp.Function("f")) and not c.atoms(sp.Function):
                return False      # left >= right: valid input
            if c.atoms(sp.Function) and any(str(a.func) == "f" for a in c.atoms(sp.Function)):
                k = len(used)
                d = decisions[k] if k < len(decisions) else True      # beyond the pattern: accept
                used.append(d)
                conds.append(c)
                return d
            return PI.generic_decide(c)
        try:
            v, it = PI.call(F, b, [left, right, sp.Symbol("userfn"), tol, sp.Integer(depth + 3)], hook=hook, seconds=60, cls=UserFn)
        except vecint.IndexPanic as e:
            run.fail("R9.3", dp, "panic:" + "".join("A" if d else "S" for d in pattern), where, "abstract execution panics: %s" % e.why)
            continue
        except sym.Unsupported as u:
            run.broken("R9.3", dp, "pattern:" + "".join("A" if d else "S" for d in pattern), F.loc(b, u.node if isinstance(u.node, dict) else None), str(u))
            break
        key = tuple(used)
        if key in seen_patterns:
            continue
        seen_patterns.add(key)
        n_runs += 1
        pat = "".join("A" if d else "S" for d in used)
        if not (isinstance(v, sym.Variant) and v.name == "Ok"):
            run.fail("R9.3", dp, "result:" + pat, where, "returns %r on a pattern that stays below the level cap" % (v,))
            continue
        area = sp.expand(v.args[0])
        leaves = []
        okc = True
        for c, d in zip(conds, used):
            n_conds += 1
            pts = sorted({a.args[0] for a in c.atoms(sp.Function) if str(a.func) == "f"}, key=lambda e: sp.simplify(e.subs({left: 0, right: 1}, simultaneous=True)))
            if len(pts) != 5:
                run.fail("R9.3a", dp, "five-points:" + pat, where, "an acceptance test looks at %d abscissae instead of its panel's five: the saved coarse estimate belongs to another panel" % len(pts))
                okc = False
                continue
            h = sp.simplify(pts[1] - pts[0])
            equi = all(sym.is_zero(pts[k + 1] - pts[k] - h) for k in range(4))
            fine = h / 3 * (f(pts[0]) + 4 * f(pts[1]) + f(pts[2])) + h / 3 * (f(pts[2]) + 4 * f(pts[3]) + f(pts[4]))
            coarse = 2 * h / 3 * (f(pts[0]) + 4 * f(pts[2]) + f(pts[4]))
            want_tol = 10 * tol * (pts[4] - pts[0]) / (right - left)
            lhs, rhs = (c.lhs, c.rhs) if isinstance(c, (sp.Lt, sp.Le)) else (c.rhs, c.lhs)
            abss = list(lhs.atoms(sp.Abs))
            mag_ok = False
            if len(abss) == 1:
                coef = sp.simplify(lhs / abss[0])
                if coef.is_number and coef > 0:
                    inner = coef * abss[0].args[0]
                    mag_ok = sym.is_zero(inner - (fine - coarse)) or sym.is_zero(inner + (fine - coarse))
            good = equi and isinstance(c, (sp.Lt, sp.Le, sp.Gt, sp.Ge)) and mag_ok and sym.is_zero(rhs - want_tol)
            if not good:
                okc = False
                run.fail("R9.3a", dp, "acceptance-test:%s#%d" % (pat, len(leaves)), where,
                         "acceptance test `%s` is not |S(left half) + S(right half) − S(panel)| < 10·tol·width/(b−a) on the panel [%s, %s]: the saved coarse estimate or tolerance of the frame is wrong"
                         % (str(c)[:200], pts[0], pts[4]))
            if d:
                leaves.append((pts[0], pts[4], fine))
        if okc:
            run.ok("R9.3a", pat, "pattern %s: %d acceptance tests are Simpson-vs-refined on their own panels" % (pat, len(conds)))
        total = sum(l[2] for l in leaves)
        width = sum(l[1] - l[0] for l in leaves)
        run.check(sym.is_zero(area - sp.expand(total)), "R9.3b", dp, "area=sum-of-leaves:" + pat, where, "the returned area is not the sum of the accepted refined Simpson estimates",
                  sample="pattern %s: area = Σ over %d leaves" % (pat, len(leaves)))
        run.check(sym.is_zero(width - (right - left)), "R9.3b", dp, "leaves-tile:" + pat, where, "the accepted panels do not tile [left, right] (total width %s)" % sp.simplify(width))
    run.floor("R9.3", dp, "distinct accept/subdivide patterns", n_runs, 8, where)
    # level cap
    try:
        v, it = PI.call(F, b, [left, right, sp.Symbol("userfn"), tol, sp.Integer(2)],
                        hook=lambda i, n, c: (False if (c.atoms(sp.Function) or (c.has(left) and c.has(right))) else PI.generic_decide(c)), seconds=60, cls=UserFn)
        run.check(isinstance(v, sym.Variant) and v.name == "Err", "R9.3c", dp, "level-cap", where, "never-accepting panels with n_max = 2 return %r instead of Err" % (v,), sample="level cap ⇒ Err")
    except (sym.Unsupported, vecint.IndexPanic) as e:
        run.broken("R9.3c", dp, "level-cap", where, str(e))
    run.extra["simpson_patterns"] = n_runs
    run.extra["simpson_conditions"] = n_conds


def romberg_reference(f, a, b, n):
    R = [[None] * (n + 1) for _ in range(n + 1)]
    h = b - a
    R[1][1] = h / 2 * (f(a) + f(b))
    for i in range(2, n + 1):
        s = sum(f(a + (sp.Integer(k) - sp.Rational(1, 2)) * h) for k in range(1, 2 ** (i - 2) + 1))
        R[i][1] = (R[i - 1][1] + h * s) / 2
        for j in range(2, i + 1):
            R[i][j] = R[i][j - 1] + (R[i][j - 1] - R[i - 1][j - 1]) / (4 ** (j - 1) - 1)
        h = h / 2
    return R[n][n]


def check_romberg(F, run, tier):
    b = F.fn("integrate::integrate_fixed")
    run.analysed(b)
    dp = "integrate::integrate_fixed"
    left, right = sp.Symbol("left", real=True), sp.Symbol("right", real=True)
    f = sp.Function("f")
    hook = lambda i, n, c: (False if (c.has(left) and c.has(right) and not c.atoms(sp.Function)) else PI.generic_decide(c))
    for n in range(1, (5 if tier == "thorough" else 4) + 1):
        try:
            v, it = PI.call(F, b, [left, right, sp.Symbol("userfn"), sp.Integer(n)], hook=hook, seconds=60, cls=UserFn)
        except vecint.IndexPanic as e:
            run.fail("R9.4", dp, "panic:n=%d" % n, F.loc(b), "abstract execution panics: %s" % e.why)
            continue
        except sym.Unsupported as u:
            run.broken("R9.4", dp, "n=%d" % n, F.loc(b, u.node if isinstance(u.node, dict) else None), str(u))
            continue
        if not (isinstance(v, sym.Variant) and v.name == "Ok"):
            run.fail("R9.4", dp, "result:n=%d" % n, F.loc(b), "returns %r" % (v,))
            continue
        val = v.args[0]
        ref = romberg_reference(f, left, right, n)
        run.check(sym.is_zero(sp.expand(val) - sp.expand(ref)), "R9.4", dp, "romberg-value:n=%d" % n, F.loc(b), "integrate_fixed(n=%d) is not the Romberg value R(n,n)" % n,
                  sample="n=%d: R(n,n)" % n)
        t = sp.Symbol("t", real=True)
        for k in range(0, 2 * n):
            got = val.replace(lambda e: isinstance(e, sp.Function) and str(e.func) == "f", lambda e: e.args[0] ** k)
            exact = (right ** (k + 1) - left ** (k + 1)) / (k + 1)
            run.check(sym.is_zero(sp.expand(got) - sp.expand(exact)), "R9.4", dp, "exact:n=%d,degree=%d" % (n, k), F.loc(b),
                      "Romberg with %d rows is not exact on x^%d" % (n, k), sample="n=%d exact on x^%d" % (n, k))


def check_stop_rule(F, run):
    """R9.5 — the two-consecutive-agreements rule of the five Gaussian drivers, on the paths of the *whole* driver over a synthetic table of four
    one-pair rules (quadmodel): with A_k the value of rule k (A_0 = 0) and D_k = |A_k − A_(k−1)|, every path either returns Ok(A_k) for the
    first k with D_k < tol and D_(k−1) < tol — never for k = 1, whatever the tolerance — or Err after the last rule."""
    drivers = [("integrate::gaussian::integrate_gaussian_core", "integrate::tables::WEIGHTS_LEGENDRE"), ("integrate::gaussian::integrate_laguerre", "integrate::tables::WEIGHTS_LAGUERRE"),
               ("integrate::gaussian::integrate_hermite", "integrate::tables::WEIGHTS_HERMITE"), ("integrate::gaussian::integrate_chebyshev", "integrate::tables::WEIGHTS_CHEBYSHEV"),
               ("integrate::gaussian::integrate_chebyshev_second", "integrate::tables::WEIGHTS_CHEBYSHEV_SECOND")]
    K = 4
    T = QM.TOLS
    for path, table in drivers:
        b = F.fn(path)
        run.analysed(b)
        where = F.loc(b)
        short = path.split("::")[-1]
        pairs = [QM.pair("r%d_" % k) for k in range(1, K + 1)]
        allsyms = [x for pr in pairs for x in pr]
        # generic rules: a test on a pair alone (the centre-node test) takes its `false` side — the centre node is C10's business
        force = lambda c: (False if QM.is_pair_cond(c, allsyms) else None)
        try:
            ps = QM.explore(F, b, [sp.Symbol("userfn"), T], {table: [[pr] for pr in pairs]}, force=force)
            one = QM.explore(F, b, [sp.Symbol("userfn"), T], {table: [[pairs[0]], [pairs[0]]]}, force=force)
        except vecint.IndexPanic as e:
            run.fail("R9.5", path, "panic", where, "abstract execution panics: %s" % e.why)
            continue
        except (sym.Unsupported, vecint.Budget) as u:
            run.broken("R9.5", path, "execution", F.loc(b, u.node if isinstance(getattr(u, "node", None), dict) else None), str(u))
            continue
        # the value of one rule as a function of its pair: from the run over twice the same rule
        vals = [p.result.args[0] for p in one if guards.is_ok(p.result)]
        if not vals:
            run.fail("R9.5", path, "success=two-consecutive-agreements", where, "two identical consecutive rules do not make the driver return Ok")
            continue
        v1 = vals[0]
        A = [sp.Integer(0)] + [v1.subs({pairs[0][0]: pr[0], pairs[0][1]: pr[1]}, simultaneous=True) for pr in pairs]
        D = [None] + [sp.Abs(A[k] - A[k - 1]) for k in range(1, K + 1)]

        def agrees(p, k):
            """polarity of the literal D_k < tol on the path (None: never asked)."""
            for l in p.pc:
                atom, pol = QM.split(l)
                if isinstance(atom, sp.Lt) and QM.same(atom.rhs, T) and QM.same(atom.lhs, D[k]):
                    return pol
            return None
        n_ok = n_err = 0
        for p in ps:
            tag = "[%s]" % ",".join("%s%s" % ("" if QM.split(l)[1] else "!", "D%s<tol" % next((k for k in range(1, K + 1) if agrees_lit(l, D, k, T)), "?")) for l in p.pc)
            unknown = [l for l in p.pc if not any(agrees_lit(l, D, k, T) for k in range(1, K + 1))]
            if unknown:
                run.broken("R9.5", path, "literal", where, "a path of %s branches on %s, which is not a comparison of a difference of consecutive rule values with tol" % (short, str(unknown[0])[:160]))
                continue
            if guards.is_ok(p.result):
                n_ok += 1
                ks = [k for k in range(1, K + 1) if QM.same(p.result.args[0], A[k])]
                k = ks[-1] if ks else None
                good = k is not None and k >= 2 and agrees(p, k) is True and agrees(p, k - 1) is True
                if k == 1:
                    run.fail("R9.5", path, "first-rule-cannot-succeed", where,
                             "the driver returns Ok after the first rule alone under %s (one evaluation of the rule sequence; e.g. Ok(0) for an integrand that vanishes at the nodes): "
                             "the initial error does not block the two-consecutive-agreements test for every positive tolerance" % tag)
                    continue
                run.check(good, "R9.5", path, "success=two-consecutive-agreements", where,
                          "Ok(%s) is returned under %s; expected the value of rule k only when |A_k − A_(k−1)| < tol and |A_(k−1) − A_(k−2)| < tol" % (str(p.result.args[0])[:80], tag),
                          sample="%s: Ok(A_k) iff D_k < tol && D_(k-1) < tol" % short)
                # ... and the first such k: no earlier double agreement was passed over
                early = [j for j in range(2, (k or 2)) if agrees(p, j) is True and agrees(p, j - 1) is True]
                run.check(not early, "R9.5", path, "carries-state", where, "under %s rules %s and %s already agreed twice but the driver went on to rule %s" % (tag, early[:1], early[:1], k))
            elif guards.is_err(p.result):
                n_err += 1
                # exhausted: no k had two agreements, and every difference was examined (the error and the previous area are carried from rule to rule)
                twice = [k for k in range(2, K + 1) if agrees(p, k) is True and agrees(p, k - 1) is True]
                run.check(not twice, "R9.5", path, "carries-state", where, "Err is returned under %s although rules %s agree twice in a row" % (tag, twice[:1]))
                # consistency of the carried error: D_k is consulted as `prev_err` at k+1 only if it was computed from consecutive rules — a stale prev_area shows as an unknown literal
            else:
                run.fail("R9.5", path, "exhausted-gives-err", where, "a path of the driver ends with %r" % (p.result,))
        run.check(n_ok >= 1 and n_err >= 1, "R9.5", path, "both-outcomes", where, "the driver has no success path or no exhaustion path over %d rules (%d Ok, %d Err)" % (K, n_ok, n_err))
        # completeness: every pattern of agreements is decided as the reference decides it
        want_ok = want_err = 0
        import itertools
        for pat in itertools.product([True, False], repeat=K):
            first = next((k for k in range(2, K + 1) if pat[k - 1] and pat[k - 2]), None)
            # the path that this pattern follows: literals asked are a subset; find a path consistent with the pattern
            cons = [p for p in ps if all(agrees(p, k) in (None, pat[k - 1]) for k in range(1, K + 1))]
            if len(cons) != 1:
                run.fail("R9.5", path, "deterministic", where, "%d paths are consistent with the agreement pattern %s" % (len(cons), pat))
                continue
            p = cons[0]
            if first is None:
                want_err += 1
                run.check(guards.is_err(p.result), "R9.5", path, "exhausted-gives-err", where, "no two consecutive agreements in %s, but the driver returns %s" % (pat, str(p.result)[:80]))
            else:
                want_ok += 1
                run.check(guards.is_ok(p.result) and QM.same(p.result.args[0], A[first]), "R9.5", path, "success=two-consecutive-agreements", where,
                          "agreement pattern %s: expected Ok(value of rule %d), the driver returns %s" % (pat, first, str(p.result)[:80]))
        run.ok("R9.5", "patterns", "%s: %d agreement patterns over %d rules decided as the reference (%d Ok, %d Err), %d paths" % (short, 2 ** K, K, want_ok, want_err, len(ps)))


def agrees_lit(l, D, k, T):
    atom, pol = QM.split(l)
    return isinstance(atom, sp.Lt) and QM.same(atom.rhs, T) and QM.same(atom.lhs, D[k])


def check_de_stop(F, run, tier="quick"):
    """R9.6 — the stopping rule of the tanh–sinh driver on the paths of the whole driver over a synthetic table with the shipped table's first row
    lengths (quadmodel).  With I_l, δ_l the reference recursion: Ok(v) only with v = I_l for a level l >= 2 whose change δ_l is exactly zero or whose
    estimate (δ_l, or δ_l² inside a two-sided window around 2 on ln δ_l / ln δ_(l−1)) is below tol on that path; Err only when no level met that."""
    path = "integrate::integrate_core"
    table = "integrate::tables::WEIGHTS_DE"
    b = F.fn(path)
    run.analysed(b)
    where = F.loc(b)
    rows = f64fold.table_rows(F.fn(table))
    L = 5 if tier == "thorough" else 4
    if len(rows) < L:
        run.broken("R9.6", path, "table", where, "WEIGHTS_DE has %d levels" % len(rows))
        return
    lengths = [len(r) for r in rows[:L]]
    tab = QM.de_table(lengths)
    I, D = QM.de_reference(tab)
    T = QM.TOLS
    try:
        ps = QM.explore(F, b, [sp.Symbol("userfn"), T], {table: tab}, limit=3000, seconds=120)
    except vecint.IndexPanic as e:
        run.fail("R9.6", path, "panic", where, "abstract execution panics: %s" % e.why)
        return
    except (sym.Unsupported, vecint.Budget) as u:
        run.broken("R9.6", path, "execution", F.loc(b, u.node if isinstance(getattr(u, "node", None), dict) else None), str(u))
        return
    first_consult = None
    n_ok = n_err = 0
    for p in ps:
        facts = QM.classify_de(p, D, T)
        bad = [f for f in facts if f.kind == "unrecognised"]
        if bad:
            run.broken("R9.6", path, "literal", where, "a path of the driver branches on %s: not a test on the level changes δ_l, their ratio ln δ_l / ln δ_(l−1) or an estimate against tol" % str(bad[0].lit)[:200])
            continue
        tag = "[%s]" % ", ".join(repr(f) for f in facts)
        stops = [f for f in facts if f.kind in ("zero-change", "below-tol") and f.level is not None]
        for f in stops:
            if first_consult is None or f.level < first_consult:
                first_consult = f.level

        def window_ok(l):
            lo = [f for f in facts if f.kind == "ratio-above" and f.level == l and f.pol]
            hi = [f for f in facts if f.kind == "ratio-below" and f.level == l and f.pol]
            return bool(lo) and bool(hi) and max(f.const for f in lo) >= 1 and min(f.const for f in hi) <= 3
        for f in facts:
            if f.kind == "below-tol" and f.form == "delta^2" and f.level is not None:
                run.check(window_ok(f.level), "R9.6", path, "square-only-in-trend-window:level=%d" % f.level, where,
                          "the estimate δ² is compared with tol under %s: not inside a two-sided window around 2 on ln δ_l / ln δ_(l−1)" % tag)
        if guards.is_ok(p.result):
            n_ok += 1
            ls = [l for l in range(L) if QM.same(p.result.args[0], I[l])]
            if not ls:
                run.fail("R9.6", path, "level-update", where, "Ok(%s) is returned under %s: not the running estimate I_l = I_(l−1)/2 + (level sum) of any level" % (str(p.result.args[0])[:120], tag))
                continue
            l = ls[0]
            just = [f for f in stops if f.level == l and f.pol]
            run.check(bool(just), "R9.6", path, "break-justified:level=%d" % l, where,
                      "the driver returns Ok(I_%d) under %s: neither `δ_%d == 0` nor an estimate of level %d below tol holds on that path" % (l, tag, l, l),
                      sample="Ok(I_l) only under δ_l == 0 or estimate_l < tol")
            run.check(l >= 2, "R9.6", path, "first-stop-test-at-level>=2", where,
                      "the driver can stop at level %d: the trend ratio ln δ_l / ln δ_(l−1) needs two changes between consecutive table levels, so no earlier than level 2" % l)
        elif guards.is_err(p.result):
            n_err += 1
            held = [f for f in stops if f.pol]
            run.check(not held, "R9.6", path, "ok-iff-estimate-below-tol", where, "Err is returned under %s although %r held" % (tag, held[:1]))
            last = [f for f in facts if f.kind in ("below-tol",) and f.level == L - 1]
            run.check(bool(last), "R9.6", path, "exhausted-gives-err", where, "Err is returned under %s without the last level's estimate having been compared with tol" % tag)
        else:
            run.fail("R9.6", path, "result", where, "a path ends with %r" % (p.result,))
        # level-update: the changes δ_l the driver tests are those of the reference recursion — implied by every literal being recognised
    run.check(first_consult is not None and first_consult >= 2, "R9.6", path, "first-stop-test-at-level>=2", where,
              "with the shipped table (row lengths %s) the stopping test is first consulted at level %s: the trend ratio needs two changes between consecutive table levels, "
              "so no earlier than level 2" % (lengths, first_consult), sample="first level at which the stop test runs: %s" % first_consult)
    run.check(first_consult is not None and first_consult < L, "R9.6", path, "stop-test-reachable", where, "the stopping test is never consulted within the first %d levels" % L)
    run.check(n_ok >= 1 and n_err >= 1, "R9.6", path, "both-outcomes", where, "%d Ok and %d Err paths" % (n_ok, n_err))
    run.floor("R9.6", path, "paths explored", len(ps), 3, where)


def run(F, run, tier):
    check_guards(F, run)
    check_affine_map(F, run)
    check_simpson(F, run, tier)
    check_romberg(F, run, tier)
    check_stop_rule(F, run)
    check_de_stop(F, run, tier)
    # "integrands the rule sequence can integrate exactly return Ok within tolerance" presupposes that every rule of the sequence *is* its Gauss rule as the driver
    # consumes it: the table obligations of C10 (count, distinct in-domain nodes, positive weights, exact moments, reference rule; tanh-sinh pairs) run here too —
    # a wrong digit in the last rule of a table makes the two-consecutive-agreement test fail for polynomials it should integrate exactly
    from rules import c10 as _c10
    _c10.mp.dps = 60 if tier == "thorough" else 40
    for table_path in _c10.TABLES:
        try:
            _c10.check_gauss_table(F, run, tier, table_path)
        except Missing as m:
            run.broken("R10.1", table_path, "table", "-", str(m))
    try:
        _c10.check_de(F, run, tier)
    except Missing as m:
        run.broken("R10.1", _c10.DE_TABLE[0], "table", "-", str(m))
    run.assumptions += ["the integrand is uninterpreted; exact arithmetic", "error <= C·tol and evaluation counts are numerical: not decided",
                        "adaptive Simpson is explored over all accept/subdivide patterns of bounded depth"]
    expl = ("Guards are established path-sensitively for all eight routines; the affine map and result scaling are extracted from the wrapper closures; adaptive Simpson is "
            "executed abstractly with an uninterpreted integrand over every accept/subdivide pattern up to a depth, checking each acceptance test against Simpson-vs-refined on "
            "the frame's own panel and the result against the sum over the leaves; Romberg is compared with an independent R(n,n) and shown exact on monomials up to degree 2n−1; "
            "the five Gaussian drivers' two-consecutive-agreement rule is checked on one symbolic iteration.")
    return "other", expl, None
