"""C08 — Newton-type iterations: structural clauses (convergence itself is numerical and not decided).

R8.1  the finite-difference Jacobian of `secant` is a consistent central difference stored in the right column
      (shared rule with C03-R3.5 and C17-R17.3).
R8.2  the stopping test looks at the step or the residual: every disjunct that lets an iteration return Ok contains
      a magnitude |e| / ‖e‖ whose argument is (a constant multiple of) the difference between the returned iterate
      and the previous one, or of a function value.  `‖x‖ − ‖x'‖` is a difference of two scalars of single iterates
      and is not a step: it can vanish while the iterate still moves; a test on ‖x‖ alone accepts the origin.
R8.3  iteration caps: each loop is a counter loop bounded by n_max with an increment on every completed iteration,
      and exhausting the cap gives Err.
R8.4  failed linear algebra is an Err: the Option results of lu.solve / try_inverse are never unwrapped and their
      None case returns Err.
R8.5  update formulas: Newton x' = x + a with J(x)·a = −f(x); polynomial Newton x' = x − p/p'; Steffensen's Δ² formula; secant: one iteration
      evaluated at dimension 2 with symbolic matrices — the inverse-Jacobian update satisfies the secant equation H'·y = s and is rank one
      in the row space sᵀH (Broyden's good update in Sherman–Morrison form), the step is −H'·f and the iterate advances by it.
R8.6  guarded Aitken quotient: the Δ² quotient is 0/0 exactly at the fixed point and must be guarded.
R8.8  Steffensen's update is numerically stable near convergence: first-order rounding sensitivities of the returned iterate stay bounded as d → 0.
R8.9  Muller's method (rules/muller.py): carried quantities are the divided differences at the three points (entry and after the shift),
      the step is a root of the interpolating parabola, the larger denominator is chosen.
R8.7  copy-paste deviant: the three start points of Muller's method are built from their own components.
"""
import sympy as sp

from bsa import cfg, guards, paths, sym
from bsa.hir import Missing, callee, peel, place, pp, walk, walk_with_parents
from rules import caps
from rules import c07, fdjac

LEVEL = "other"

# function -> (old-iterate local, description)
FNS = {
    "roots::newton": "guess",
    "roots::secant": "guess",
    "roots::steffensen": "initial",
    "roots::polynomial::newton_polynomial": "guess",
    "roots::polynomial::muller_polynomial": "poly_2",
}

NORM = sp.Function("norm")
DOT = sp.Function("dot")
SOLVE = sp.Function("solve")


class RInterp(guards.GInterp):
    def ev_MCall(self, n):
        name = n["name"]
        if name == "dot":
            return DOT(self.num(self.ev(n["recv"]), n), self.num(self.ev(n["args"][0]), n))
        if name == "dotc" and len(n["args"]) == 1:
            a_, b_ = self.num(self.ev(n["recv"]), n), self.num(self.ev(n["args"][0]), n)
            return NORM(a_) ** 2 if a_ == b_ else sp.Function("dotc")(a_, b_)        # the conjugating product of a vector with itself is its squared norm
        if name in ("norm_squared", "magnitude_squared"):
            return NORM(self.num(self.ev(n["recv"]), n)) ** 2
        if name in ("lu", "full_piv_lu", "qr"):
            return sp.Function("factor")(self.num(self.ev(n["recv"]), n))
        if name == "solve" and (n.get("def") or "").startswith("nalgebra"):
            fac = self.ev(n["recv"])
            rhs = self.ev(n["args"][0])
            J = fac.args[0] if hasattr(fac, "args") and fac.args else fac
            return paths.OptVal(sp.Symbol("solvable"), SOLVE(J, rhs))
        if name == "try_inverse":
            fac = self.ev(n["recv"])
            J = fac.args[0] if hasattr(fac, "args") and fac.args else fac
            return paths.OptVal(sp.Symbol("invertible"), sp.Function("inv")(J))
        if name in ("evaluate_derivative",):
            x = self.ev(n["args"][0])
            return (sp.Function("P")(x), sp.Function("dP")(x))
        if name == "evaluate":
            return sp.Function("P")(self.ev(n["args"][0]))
        if name == "make_complex":
            return self.ev(n["recv"])
        if name in ("norm",):
            return NORM(self.num(self.ev(n["recv"]), n))
        if name == "transpose":
            return sp.Function("T")(self.num(self.ev(n["recv"]), n))
        if name in ("as_slice",):
            return self.ev(n["recv"])
        return guards.GInterp.ev_MCall(self, n)

    def ev_Call(self, n):
        d = callee(n) or ""
        if d == "roots::jac_finite_diff":
            return sp.Function("jac_fd")(self.num(self.ev(n["args"][1]), n))
        if d.endswith("Complex::<T>::new") or d.endswith("Complex::new"):
            a, b = self.ev(n["args"][0]), self.ev(n["args"][1])
            return a + sp.I * b if b != 0 else a
        return guards.GInterp.ev_Call(self, n)

    def ev_Index(self, n):
        try:
            return guards.GInterp.ev_Index(self, n)
        except sym.Unsupported:
            base = self.ev(n["e"])
            if hasattr(base, "free_symbols"):
                return sp.Function("at")(base)
            raise


class RoundInterp(RInterp):
    """Every arithmetic result carries a relative rounding error (1 + e_k): first-order floating-point error model."""
    def __init__(self, *a, **k):
        RInterp.__init__(self, *a, **k)
        self.errs = []
        self.n_f = 0

    def _round(self, v, what):
        if not hasattr(v, "free_symbols") or not v.free_symbols or isinstance(v, sp.core.relational.Relational) or v.is_Boolean:
            return v
        e = sp.Symbol("e%d" % len(self.errs), real=True)
        self.errs.append((e, what))
        return v * (1 + e)

    def binop(self, op, a, b, n):
        v = RInterp.binop(self, op, a, b, n)
        if op in ("Add", "Sub", "Mul", "Div"):
            # multiplication / division by an exact power of two is exact
            if op in ("Mul", "Div") and any(getattr(x, "is_number", False) and x != 0 and sp.log(sp.Abs(x), 2).is_integer for x in (a, b)):
                return v
            return self._round(v, "%s: %s" % (op, pp(n)[:50] if isinstance(n, dict) else op))
        return v

    def ev_MCall(self, n):
        v = RInterp.ev_MCall(self, n)
        if n["name"] in ("powi", "powf", "sqrt", "recip"):
            return self._round(v, "%s: %s" % (n["name"], pp(n)[:50]))
        return v

    def user_call(self, pl, args, n):
        self.n_f += 1
        v = sp.Symbol("G%d" % self.n_f, real=True)
        self.calls.append((pl, args, n, v))
        return v


def check_steffensen_stability(F, run):
    """R8.8 — the statement asks Steffensen to reach tolerances close to machine precision.  First-order rounding analysis of the returned iterate:
    every arithmetic result r is replaced by r·(1+e_k); near convergence (x_0 = p + d, f(x_0) = p + λd, f(f(x_0)) = p + λ²d, d → 0, p ≠ 0) the
    sensitivities ∂result/∂e_k must stay bounded.  The correction form x_0 − (Δx)²/Δ²x passes; the algebraically equal quotient
    (x_0·x_2 − x_1²)/Δ²x has sensitivities ~ p²/d (the iterate cannot get much closer to p than sqrt(ε)·|p|) and fails."""
    path = "roots::steffensen"
    b = F.fn(path)
    run.analysed(b)
    st, loop = loop_of(b)
    X0 = sym.S("initial")
    try:
        lps = paths.explore(F, b, setup=c07.preset_all(b, dict(c07.constant_locals(F, b))), node=loop["body"], interp_cls=RoundInterp, limit=64)
    except sym.Unsupported as u:
        run.broken("R8.8", path, "iteration", F.loc(b, u.node if isinstance(u.node, dict) else loop), str(u))
        return
    P, D = sp.Symbol("p_fix", positive=True), sp.Symbol("d_conv", positive=True)
    lam = sp.Rational(1, 3)
    near = {X0: P + D, sp.Symbol("G1", real=True): P + lam * D, sp.Symbol("G2", real=True): P + lam ** 2 * D}
    n = 0
    for pth in lps:
        it = pth.interp
        outs = []
        if guards.is_ok(pth.result):
            outs.append(("returned", pth.result.args[0]))
        elif pth.fell_through:
            cur = {nm: it.env.get(i) for i, nm in it.names.items()}
            outs.append(("next iterate", cur.get("initial")))
        for role, R in outs:
            if not hasattr(R, "free_symbols"):
                continue
            es = [e for e, _ in it.errs if e in R.free_symbols]
            if not es:
                continue
            n += 1
            zero = {e: 0 for e, _ in it.errs}
            worst = None
            for e, what in it.errs:
                if e not in R.free_symbols:
                    continue
                S = sp.diff(R, e).subs(zero).subs(near)
                try:
                    lim = sp.limit(sp.simplify(S), D, 0, "+")
                except Exception:
                    lim = sp.zoo
                if not lim.is_finite:
                    worst = (what, sp.simplify(S))
                    break
            key = "%s:%s" % (role, ",".join(sorted({str(x) for x in R.subs(zero).free_symbols})))
            run.check(worst is None, "R8.8", path, "stable-near-convergence:" + key[:60], F.loc(b, loop),
                      "the %s value %s amplifies rounding errors without bound as the iteration converges: the result of `%s` enters with sensitivity %s "
                      "(x_0 = p + d, f(x_0) = p + d/3, f(f(x_0)) = p + d/9, d → 0) — a quotient of two vanishing differences of O(p²) products; tolerances near machine "
                      "precision cannot be met" % (role, str(R.subs(zero))[:70], worst[0] if worst else "", str(worst[1])[:80] if worst else ""),
                      sample="steffensen %s: rounding sensitivities bounded near the fixed point" % role)
    run.floor("R8.8", path, "iterate expressions analysed", n, 2, F.loc(b))


def dkey(dj):
    """Stable, line-free identification of a disjunct: the names it mentions."""
    names = sorted({str(x) for x in dj.free_symbols} | {str(f.func) for f in dj.atoms(sp.Function)})
    return ",".join(names)[:80]


def magnitude_args(e):
    """Arguments of the magnitude atoms |·|, ‖·‖ occurring in e."""
    out = []
    for a in e.atoms(sp.Abs):
        out.append(a.args[0])
    for a in e.atoms(NORM):
        out.append(a.args[0])
    # `a.dot(&a)` is NOT a magnitude: nalgebra's `dot` does not conjugate, so over a complex field (these solvers are generic over ComplexField) it is
    # Σ a_k², which can vanish or be negative for a long vector; `dotc` / `norm_squared` are (modelled as norm² above)
    return out


def proportional(a, b):
    """a == c·b for a non-zero constant c."""
    if b == 0:
        return False
    try:
        r = sp.simplify(a / b)
    except Exception:
        return False
    return bool(r.is_number and r != 0)


def classify_disjunct(dj, step, fvals):
    for arg in magnitude_args(dj):
        # strip outer magnitudes nested: Abs(norm(x)) -> x handled since both atoms are listed
        if step is not None and proportional(arg, step):
            return "step"
        for fv in fvals:
            if proportional(arg, fv):
                return "residual"
    return None


def loop_of(b):
    st, loop = guards.first_loop(b)
    if loop is None:
        raise Missing("%s: no main loop" % b["path"])
    return st, loop


def iteration_paths(F, b, loop, extra=None):
    consts = c07.constant_locals(F, b)
    vals = dict(consts)
    if extra:
        vals.update(extra)
    return paths.explore(F, b, setup=c07.preset_all(b, vals), node=loop["body"], interp_cls=RInterp, limit=256)


def fvals_of(it):
    out = []
    for name, fn in it.fn_atoms.items():
        pass
    for pl, args, node, v in it.calls:
        out.append(v)
    return out


def check_stopping(F, run, path, old_name):
    b = F.fn(path)
    run.analysed(b)
    st, loop = loop_of(b)
    Xo = sym.S(old_name)
    n_ok = 0
    # early Ok before the loop
    try:
        pre = paths.explore(F, b, stop_at=st, interp_cls=RInterp)
    except sym.Unsupported as u:
        run.broken("R8.2", path, "prefix", F.loc(b, u.node if isinstance(u.node, dict) else None), "cannot interpret the statements before the loop: %s" % u)
        pre = []
    for p in pre:
        if guards.is_ok(p.result):
            n_ok += 1
            D = p.pc[-1] if p.pc else sp.true
            d = sp.to_dnf(D, simplify=False)
            # a success in front of the loop may test the first step: returned point − the caller's start (whichever parameter that is)
            R0 = p.result.args[0] if getattr(p.result, "args", None) else None
            starts = [sym.S(nm) for prm in b["params"] for _, nm in c07.pat_binds(prm)] if hasattr(R0, "free_symbols") else []
            for dj in (d.args if isinstance(d, sp.Or) else (d,)):
                cls = classify_disjunct(dj, None, fvals_of(p.interp))
                if cls is None:
                    for x0 in starts:
                        st0 = sp.expand(R0 - x0)
                        if st0 != 0 and classify_disjunct(dj, st0, []) == "step":
                            cls = "step"
                            break
                run.check(cls is not None, "R8.2", path, "early-success:" + dkey(dj), F.loc(b),
                          "Ok is returned before any iteration because `%s`: this looks neither at a step nor at a residual (a start near the origin is returned untouched)" % dj)
    try:
        lps = iteration_paths(F, b, loop)
    except sym.Unsupported as u:
        run.broken("R8.2", path, "iteration", F.loc(b, u.node if isinstance(u.node, dict) else loop), "cannot interpret the loop body: %s" % u)
        return None
    for p in lps:
        if not guards.is_ok(p.result):
            continue
        n_ok += 1
        R = p.result.args[0]
        step = sp.expand(R - Xo) if hasattr(R, "free_symbols") else None
        D = p.pc[-1] if p.pc else sp.true
        d = sp.to_dnf(D, simplify=False)
        for dj in (d.args if isinstance(d, sp.Or) else (d,)):
            cls = classify_disjunct(dj, step, fvals_of(p.interp))
            if cls == "residual":
                # the statement bounds the *distance from the root* by the tolerance: a small residual says nothing about it when the equations are
                # scaled (|f| < tol far from the root for a flat f; never reached for a steep one) — the step is what has to be tested
                run.fail("R8.2", path, "success-on-residual:" + dkey(dj), F.loc(b, loop),
                         "Ok is returned because `%s`: a test on a function value, not on the step (returned iterate − previous iterate = %s); for ill-scaled "
                         "equations the residual is below the tolerance far from the root, or never gets there" % (dj, str(step)[:80]))
                continue
            run.check(cls is not None, "R8.2", path, "success:" + dkey(dj), F.loc(b, loop),
                      "Ok is returned because `%s`; no magnitude in it is taken of the step (returned iterate − previous iterate = %s) or of a function value: "
                      "convergence is declared from scalars of single iterates, which can agree while the iterate still moves" % (dj, str(step)[:80]),
                      sample="%s: success on %s [%s]" % (path.split("::")[-1], str(dj)[:60], cls))
    run.floor("R8.2", path, "Ok returns", n_ok, 1, F.loc(b))
    return lps


def check_cap(F, run, path):
    """R8.3 — the iteration is bounded by the caller's cap (rules/caps.py: for-range, up-counter, down-counter) and exhausting it gives Err."""
    b = F.fn(path)
    st, loop = loop_of(b)
    ok, form, why = caps.bounded_by_cap(b, loop)
    run.check(ok, "R8.3", path, "counter-loop", F.loc(b, loop), "the iteration is not bounded by the iteration cap: %s" % why,
              sample="%s: %s bounded by the cap" % (path.split("::")[-1], form))
    tail = peel(b["body"].get("expr") or {})
    run.check(tail.get("k") == "Call" and (callee(tail) or "").endswith("Err"), "R8.3", path, "cap-gives-err", F.loc(b),
              "exhausting the iteration cap does not return Err")


def check_linear_algebra(F, run):
    n_sites = 0
    for path in ("roots::newton", "roots::secant"):
        b = F.fn(path)
        for n, parents in walk_with_parents(b["body"]):
            if n.get("k") == "MCall" and n["name"] in ("solve", "try_inverse") and "Option<" in (n.get("ty") or ""):
                n_sites += 1
                par = parents[-1] if parents else {}
                bad = par.get("k") == "MCall" and par["name"] in ("unwrap", "expect", "unwrap_unchecked", "unwrap_or_default")
                run.check(not bad, "R8.4", path, "no-unwrap:" + n["name"], F.loc(b, n), "the Option result of %s is unwrapped: a singular system panics" % n["name"])
    # the None case returns Err: established by the path exploration (a path with the `solvable`/`invertible` symbol false must return Err)
    for path in ("roots::newton", "roots::secant"):
        b = F.fn(path)
        st, loop = loop_of(b)
        try:
            ps = paths.explore(F, b, stop_at=st, interp_cls=RInterp) + iteration_paths(F, b, loop)
        except sym.Unsupported as u:
            run.broken("R8.4", path, "paths", F.loc(b), str(u))
            continue
        hit = 0
        for p in ps:
            for c in p.pc:
                if isinstance(c, sp.Not) and isinstance(c.args[0], sp.Symbol) and c.args[0].name in ("solvable", "invertible"):
                    hit += 1
                    run.check(guards.is_err(p.result), "R8.4", path, "singular-gives-err", F.loc(b),
                              "when the linear algebra fails the function returns %s instead of Err" % (p.result,), sample="%s: singular ⇒ Err" % path)
        run.check(hit >= 1, "R8.4", path, "singular-case-handled", F.loc(b), "no path handles the failure of the linear solve")
    run.floor("R8.4", "roots", "linear-algebra Option sites", n_sites, 2)


def check_formulas(F, run, lps_by_fn):
    # Newton
    lps = lps_by_fn.get("roots::newton")
    b = F.fn("roots::newton")
    if lps:
        Xo = sym.S("guess")
        for p in lps:
            if guards.is_ok(p.result):
                it = p.interp
                f, jac = it.fn_atom("f"), it.fn_atom("jac")
                step = sp.expand(p.result.args[0] - Xo)
                good = step == SOLVE(jac(Xo), -f(Xo)) or sp.expand(step + SOLVE(jac(Xo), f(Xo))) == 0
                run.check(good, "R8.5", "roots::newton", "update", F.loc(b), "Newton update is x' − x = %s, expected the solution a of J(x)·a = −f(x)" % step,
                          sample="x' = x + solve(J(x), −f(x))")
    lps = lps_by_fn.get("roots::polynomial::newton_polynomial")
    b = F.fn("roots::polynomial::newton_polynomial")
    if lps:
        Xo = sym.S("guess")
        for p in lps:
            if guards.is_ok(p.result):
                want = Xo - sp.Function("P")(Xo) / sp.Function("dP")(Xo)
                run.check(sym.is_zero(p.result.args[0] - want), "R8.5", "roots::polynomial::newton_polynomial", "update", F.loc(b),
                          "polynomial Newton update is %s, expected x − p(x)/p'(x)" % p.result.args[0], sample="x' = x − p/p'")
    lps = lps_by_fn.get("roots::steffensen")
    b = F.fn("roots::steffensen")
    if lps:
        Xo = sym.S("initial")
        n_aitken = 0
        for p in lps:
            if guards.is_ok(p.result):
                f = p.interp.fn_atom("f")
                g, g2 = f(Xo), f(f(Xo))
                want = Xo - (g - Xo) ** 2 / (g2 - 2 * g + Xo)
                R = p.result.args[0]
                if sym.is_zero(R - want):
                    n_aitken += 1
                    run.ok("R8.5", "steffensen-update", "x' = x − (Δx)²/Δ²x")
                else:
                    # the only other admissible success: the sequence is stationary, return f(x) under |f(x) − x| <= tol
                    D = p.pc[-1] if p.pc else sp.true
                    good = R == g and any(proportional(a, g - Xo) for a in magnitude_args(D))
                    run.check(good, "R8.5", "roots::steffensen", "update:other-success", F.loc(b),
                              "Steffensen returns %s, which is neither Aitken's x − (g−x)²/(g₂ − 2g + x) nor the stationary value f(x) under |f(x) − x| <= tol" % R)
        run.check(n_aitken >= 1, "R8.5", "roots::steffensen", "update", F.loc(b), "no success path returns Aitken's Δ² update")


def check_aitken_guard(F, run):
    b = F.fn("roots::steffensen")
    st, loop = loop_of(b)
    n = 0
    for d in walk(loop["body"]):
        if d.get("k") == "Bin" and d["op"] == "Div":
            it = RInterp(F, b, lambda c: False)
            c07.preset_all(b, {})(it)
            # bind loop locals in order up to the division
            try:
                for s_ in loop["body"]["stmts"]:
                    if any(x is d for x in walk(s_)):
                        break
                    it.run_stmt(s_)
                den = it.ev(d["r"])
                num = it.ev(d["l"])
            except sym.Unsupported:
                continue
            f = it.fn_atom("f")
            X = sym.S("initial")
            # at a fixed point f(x) = x: substitute innermost-first
            den0 = den.subs(f(f(X)), X).subs(f(X), X)
            num0 = num.subs(f(f(X)), X).subs(f(X), X)
            if sp.simplify(den0) == 0 and sp.simplify(num0) == 0:
                n += 1
                g = cfg.guards_of(b["body"], d)
                dtxt = pp(peel(d["r"]))
                # the guard must entail denominator != 0 (comparisons-only entailment, locals as symbols)
                from bsa import logic
                git = RInterp(F, b, lambda c: False)
                c07.preset_all(b, {})(git)
                dsym = sym.S(peel(d["r"])["name"]) if peel(d["r"]).get("k") == "Local" else None
                for s_ in walk(loop["body"]):
                    if s_.get("k") == "LetS" and s_["pat"].get("k") == "Bind" and "init" in s_ and pp(peel(s_["init"])) == dtxt:
                        dsym = sym.S(s_["pat"]["name"])
                lits = []
                for l in cfg.conj_lits(g):
                    try:
                        cv = git.ev(l[1])
                        lits.append(cv if l[2] else sp.Not(cv))
                    except Exception:
                        pass
                ok = False
                if dsym is not None and lits:
                    ok = logic.unsat(sp.And(sp.And(*lits), sp.Eq(dsym, 0)))
                run.check(ok, "R8.6", "roots::steffensen", "aitken-quotient-guarded", F.loc(b, d),
                          "the Δ² quotient `%s` is 0/0 exactly when the iteration has converged (f(x) = x) and is not guarded by a test of its denominator: "
                          "at machine-precision convergence the result is NaN and the method reports failure" % pp(d)[:90])
    run.floor("R8.6", "roots::steffensen", "quotients that are 0/0 at the fixed point", n, 1, F.loc(b))


def check_muller_starts(F, run):
    """R8.7 — the three start points of Muller's method are the three components of `initial`, each built from its *own* real and imaginary
    part (decided on the values the prefix computes, so a helper or closure doing the conversion is fine)."""
    from rules import muller
    b = F.fn("roots::polynomial::muller_polynomial")
    st, loop = loop_of(b)
    try:
        pre = paths.explore(F, b, stop_at=st, interp_cls=muller.MInterp)
    except sym.Unsupported as u:
        run.broken("R8.7", b["path"], "prefix", F.loc(b, u.node if isinstance(u.node, dict) else None), str(u))
        return
    n = 0
    for p in pre:
        if not p.fell_through:
            continue
        cur = {nm: p.interp.env.get(i) for i, nm in p.interp.names.items()}
        starts = [cur.get("poly_0"), cur.get("poly_1"), cur.get("poly_2")]
        for k, v in enumerate(starts):
            want = sym.S("initial.%d" % k)
            n += 1
            run.check(v is not None and v == want, "R8.7", b["path"], "start:initial.%d" % k, F.loc(b),
                      "start point %d is %s, expected component %d of `initial` with its own real and imaginary part (copy-paste deviant)" % (k, v, k),
                      sample="start point %d = initial.%d" % (k, k))
        break
    run.floor("R8.7", b["path"], "start points", n, 3, F.loc(b))


def run(F, run, tier):
    symbolic_ok = fdjac.analyse(F, run, "C08", "R8.1", "roots", soft=True)
    from rules import lm
    try:
        lm.check_coverage(F, run, "R8.1", "roots::jac_finite_diff", "roots-fd", moments=(symbolic_ok is False))
    except Missing as e:
        run.broken("R8.1", "roots::jac_finite_diff", "anchor", "src/roots", str(e))
    lps_by_fn = {}
    for path, old in FNS.items():
        try:
            lps_by_fn[path] = check_stopping(F, run, path, old)
            check_cap(F, run, path)
        except Missing as e:
            run.broken("R8.2", path, "anchor", "src/roots", str(e))
    check_linear_algebra(F, run)
    check_formulas(F, run, lps_by_fn)
    from rules import broyden, muller
    try:
        broyden.check(F, run, F.fn("roots::secant"), "R8.5", "roots::secant", 3 if tier == "thorough" else 2)
    except Missing as e:
        run.broken("R8.5", "roots::secant", "anchor", "src/roots", str(e))
    try:
        muller.check(F, run)
    except Missing as e:
        run.broken("R8.9", muller.PATH, "anchor", "src/roots/polynomial.rs", str(e))
    check_aitken_guard(F, run)
    try:
        check_steffensen_stability(F, run)
    except Missing as e:
        run.broken("R8.8", "roots::steffensen", "anchor", "src/roots", str(e))
    check_muller_starts(F, run)
    run.assumptions += ["convergence from a start inside the convergence region is numerical: not decided",
                        "user functions, Jacobians and polynomial evaluation are uninterpreted"]
    expl = ("One symbolic iteration of each of the five iterations is explored path-sensitively with the user function, the Jacobian, the LU solve "
            "and polynomial evaluation uninterpreted: each disjunct allowing Ok is classified by whether a magnitude is taken of the step (returned − "
            "previous iterate) or of a function value; caps, Option handling, the update formulas, the Aitken quotient guard and Muller's start points "
            "are checked on the same abstract execution; the finite-difference Jacobian is checked by its stencil moments.")
    return "other", expl, None
