"""C06 — IVP builders validate input; user errors end iteration exactly once.  Guard structure, error
discipline and exhaustiveness only: fully static.

R6.1  setter contract, per path of each setter (path-sensitive dataflow over the loop-free body in the
      comparisons-only domain): a path reachable with a bad argument returns Err(<dedicated variant>); a path
      reachable with a good argument returns Ok(self) with exactly the specified field update.
R6.2  min <= max invariant: every Ok path of with_minimum_dt / with_maximum_dt leaves min' <= max' (entailed by
      the path condition, comparisons only) whenever both are set.
R6.3  solve(): every Option-typed field of the builder struct is consumed through ok_or(MissingParameters)?;
      every other `?` in solve is a FromPrimitiveFailure conversion; no other error exit.
R6.4  new()/new_dyn(): D::dim()? / D::dim_dyn(size)?; the two Dimension impls; From<DimensionError>.
R6.5  no user error is dropped: every call of the user derivative flows into `?` (optionally through
      map_err(IVPError::UserError)); the residual closures' callers propagate too; conversion chain.
R6.6  iterator protocol of IVPIterator::next (exhaustive arms, fused after a failure), collect_vec.
R6.7  no panic in the builder surface.
"""
import sympy as sp

from bsa import vecint, cfg, logic, paths, sym
from bsa.hir import Missing, callee, pat_binds, peel, place, pp, walk, walk_with_parents

LEVEL = "other"

BUILDERS = {
    "Euler": ("ivp::Euler", "ivp::EulerSolver"),
    "RungeKutta": ("ivp::rk::RungeKutta", "ivp::rk::RungeKuttaSolver"),
    "Adams": ("ivp::adams::Adams", "ivp::adams::AdamsSolver"),
    "BDF": ("ivp::bdf::BDF", "ivp::bdf::BDFSolver"),
}
SETTERS = ["with_tolerance", "with_maximum_dt", "with_minimum_dt", "with_initial_time", "with_ending_time"]

# Euler is a solver of a different kind (one fixed step, no tolerance): documented in its source as
# "Unused for Euler, call is a no-op"; min/max setters average into the single step size.
EULER_EXCEPTIONS = {
    "with_tolerance": "Euler has no tolerance: documented no-op accepting any value",
}


def builder_fn(F, bname, method):
    struct = BUILDERS[bname][0]
    c = [b for b in F.bodies if b["name"] == method and (b.get("impl_self") or "").startswith(struct + "<")
         and "IVPSolver" in (b.get("impl_trait") or "")]
    if len(c) != 1:
        raise Missing("%s::%s (impl IVPSolver): %d candidates" % (struct, method, len(c)))
    return c[0]


def variant_name(v):
    """Err(IVPError::X) -> 'X'; Ok(..) -> 'Ok'."""
    if isinstance(v, sym.Variant):
        if v.name == "Err" and v.args and isinstance(v.args[0], sym.Variant):
            return "Err:" + v.args[0].name
        return v.name
    return repr(v)


def unchanged(pl, v):
    return isinstance(v, paths.OptVal) and v.some == sp.Symbol("some(%s)" % pl) and v.payload == sp.Symbol(pl, real=True)


def arg_symbol(body):
    ps = body["params"]
    if len(ps) != 2 or ps[1].get("k") != "Bind":
        raise Missing("%s: expected (self, arg)" % body["path"])
    return sym.S(ps[1]["name"])


def check_setter(F, run, bname, method):
    b = builder_fn(F, bname, method)
    run.analysed(b)
    where = F.loc(b)
    dp = "%s::%s" % (bname, method)
    try:
        ps = paths.explore(F, b)
    except sym.Unsupported as u:
        run.broken("R6.1", dp, "paths", where, "setter body outside the path domain: %s" % u)
        return
    a = arg_symbol(b)
    euler = bname == "Euler"

    def opt(pl):
        return sp.Symbol("some(%s)" % pl), sp.Symbol(pl, real=True)
    if method == "with_tolerance":
        bad, variant, target = sp.Le(a, 0), "ToleranceOOB", "self.init_tolerance"
    elif method in ("with_maximum_dt", "with_minimum_dt"):
        bad, variant = sp.Le(a, 0), "TimeDeltaOOB"
        target = "self.init_dt" if euler else ("self.init_dt_max" if method == "with_maximum_dt" else "self.init_dt_min")
    elif method == "with_initial_time":
        s, e = opt("self.init_end")
        bad, variant, target = sp.And(s, sp.Le(e, a)), "TimeStartOOB", "self.init_time"
    else:
        s, t0 = opt("self.init_time")
        bad, variant, target = sp.And(s, sp.Ge(t0, a)), "TimeEndOOB", "self.init_end"
    if euler and method in EULER_EXCEPTIONS:
        ok = len(ps) == 1 and variant_name(ps[0].result) == "Ok" and not ps[0].fields
        run.check(ok, "R6.1", dp, "documented-noop", where,
                  "Euler::with_tolerance is documented as a no-op but does something else", sample=EULER_EXCEPTIONS[method])
        return
    for i, p in enumerate(ps):
        pc = p.cond()
        res = variant_name(p.result)
        inst = "path[%s]" % ",".join(str(x) for x in p.pc)
        if logic.satisfiable_with(pc, bad):
            run.check(res == "Err:" + variant, "R6.1", dp, "reject:" + inst, where,
                      "a path reachable with an invalid argument (%s) returns %s instead of Err(IVPError::%s)" % (bad, res, variant),
                      sample="%s: [%s] -> %s" % (dp, pc, res))
        if logic.satisfiable_with(pc, sp.Not(bad)):
            okres = res == "Ok" and p.result.args and p.result.args[0] == sym.S("self")
            run.check(okres, "R6.1", dp, "accept:" + inst, where,
                      "a path reachable with a valid argument (not %s) returns %s instead of Ok(self)" % (bad, res),
                      sample="%s: [%s] -> %s" % (dp, pc, res))
            if not okres:
                continue
            v = p.fields.get(target)
            if euler and method in ("with_maximum_dt", "with_minimum_dt"):
                # single step size: the stored value is a convex combination of the old value and the argument
                olds, oldv = opt("self.init_dt")
                good = isinstance(v, paths.OptVal) and v.some is sp.true
                if good:
                    e = sp.expand(v.payload)
                    ca, co = e.coeff(a), e.coeff(oldv)
                    good = sym.is_zero(e - ca * a - co * oldv) and ca > 0 and co >= 0 and ca + co == 1
                run.check(good, "R6.1", dp, "stores:" + inst, where,
                          "Euler step size after the call is %r, not a convex combination of the previous value and the argument" % (v,))
            else:
                good = isinstance(v, paths.OptVal) and v.some is sp.true and sym.is_zero(v.payload - a)
                run.check(good, "R6.1", dp, "stores:" + inst, where,
                          "%s after the call is %r, expected Some(%s)" % (target, v, a))
            # no other field may change, except the cross-update of the other step bound
            allowed = {target}
            if method == "with_maximum_dt" and not euler:
                allowed.add("self.init_dt_min")
            if method == "with_minimum_dt" and not euler:
                allowed.add("self.init_dt_max")
            for pl, fv in p.fields.items():
                if pl in allowed:
                    continue
                run.check(unchanged(pl, fv), "R6.1", dp, "frame:%s:%s" % (pl, inst), where,
                          "setter also changes %s to %r" % (pl, fv))
            # R6.2 min <= max
            if method in ("with_maximum_dt", "with_minimum_dt") and not euler:
                mn = p.fields.get("self.init_dt_min") or paths.OptVal(*opt("self.init_dt_min"))
                mx = p.fields.get("self.init_dt_max") or paths.OptVal(*opt("self.init_dt_max"))
                both = sp.And(pc, sp.Not(bad), mn.some, mx.some)
                if logic.unsat(both):
                    run.ok("R6.2", inst, "%s: [%s] leaves at most one bound set" % (dp, pc))
                else:
                    run.check(logic.entails(both, sp.Le(mn.payload, mx.payload)), "R6.2", dp, "min<=max:" + inst, where,
                              "on the path [%s] the builder is left with minimum %s and maximum %s and nothing orders them"
                              % (pc, mn.payload, mx.payload), sample="%s: [%s] ⟹ %s <= %s" % (dp, pc, mn.payload, mx.payload))
    run.floor("R6.1", dp, "paths", len(ps), 2 if not (euler and method in EULER_EXCEPTIONS) else 1, where)


def is_path(n, suffix):
    n = peel(n)
    return n.get("k") == "Path" and ((n.get("ctor_of") or n.get("def") or "").endswith(suffix))


class _SoftPaths(paths.PathInterp):
    """Path exploration of a constructor-like body: calls outside the domain (allocation of the solver's buffers, nalgebra constructors) evaluate
    their operands — so that a `?` inside them still forks — and yield an opaque value."""
    def _soft(self, n, sup):
        try:
            return sup(self, n)
        except sym.Unsupported as u:
            if u.node is not n and getattr(u, "node", None) is not None and u.node is not n:
                # the failure is inside an operand: that is outside the domain for real
                inner = u.node
                if any(x is inner for a in ([n.get("recv")] if n.get("recv") else []) + list(n.get("args", [])) for x in walk(a)):
                    raise
            for a in ([n["recv"]] if n.get("recv") else []) + list(n.get("args", [])):
                if a.get("k") != "Closure":
                    self.ev(a)
            return sym.Opaque("call:" + (n.get("def") or callee(n) or n.get("name") or "?"), n)

    def ev_Call(self, n):
        return self._soft(n, paths.PathInterp.ev_Call)

    def ev_MCall(self, n):
        return self._soft(n, paths.PathInterp.ev_MCall)


def check_solve(F, run, bname):
    """R6.3 on the paths of solve() (any control-flow shape: `ok_or(..)?`, let-else, match): the iterator is only handed out on a path that tested
    every Option field of the builder as Some; a path on which a field is None returns Err(MissingParameters); there is no other error exit."""
    b = builder_fn(F, bname, "solve")
    run.analysed(b)
    dp = bname + "::solve"
    struct = BUILDERS[bname][0]
    adt = F.adts.get(struct)
    if adt is None:
        raise Missing("struct %s" % struct)
    optf = [f["name"] for f in adt["variants"][0]["fields"] if f["ty"].startswith("std::option::Option<")]
    run.floor("R6.3", dp, "Option fields of the builder", len(optf), 5 if bname == "Euler" else 7, F.loc(b))
    try:
        ps = paths.explore(F, b, interp_cls=_SoftPaths, limit=256)
    except sym.Unsupported as u:
        run.broken("R6.3", dp, "paths", F.loc(b, u.node if isinstance(getattr(u, "node", None), dict) else None), "solve() outside the path domain: %s" % u)
        return
    somes = {f: sp.Symbol("some(self.%s)" % f) for f in optf}
    n_ok = 0
    for p in ps:
        pos = {l for l in p.pc if isinstance(l, sp.Symbol)}
        neg = {l.args[0] for l in p.pc if isinstance(l, sp.Not) and isinstance(l.args[0], sp.Symbol)}
        res = variant_name(p.result)
        inst = "path[%s]" % ",".join(str(x) for x in p.pc)
        missing = sorted(f for f in optf if somes[f] in neg)
        if res == "Ok":
            n_ok += 1
            untested = sorted(f for f in optf if somes[f] not in pos)
            for f in untested:
                run.fail("R6.3", dp, "field:" + f, F.loc(b),
                         "solve() can return Ok on a path that never established that the builder field `%s` is set: [%s]" % (f, p.cond()))
            if not untested:
                run.ok("R6.3", inst, "%s: Ok only after all of %s are Some" % (dp, optf))
            it = p.result.args[0] if p.result.args else None
            fin = it.get("finished") if isinstance(it, dict) and (it.get("__struct__") or "").endswith("IVPIterator") else None
            run.check(fin is sp.false or fin is False, "R6.6", dp, "starts-unfinished", F.loc(b),
                      "solve() does not end in Ok(IVPIterator { finished: false, .. }) (finished = %s)" % (fin,))
        elif res == "Err:MissingParameters":
            run.check(bool(missing), "R6.3", dp, "spurious-missing:" + inst, F.loc(b),
                      "solve() returns Err(MissingParameters) on a path where no builder field was found unset: [%s]" % p.cond(),
                      sample="%s: [%s] -> %s" % (dp, p.cond(), res))
        elif res == "Err:FromPrimitiveFailure":
            run.check(not missing, "R6.3", dp, "missing-as:" + inst, F.loc(b),
                      "an unset builder field (%s) is reported as FromPrimitiveFailure" % ", ".join(missing))
        else:
            run.fail("R6.3", dp, "exit:" + inst, F.loc(b),
                     "solve() has an exit that is neither Ok(iterator), MissingParameters on an unset field nor FromPrimitiveFailure: %s on [%s]" % (res, p.cond()))
    for f in optf:
        hit = [p for p in ps if any(isinstance(l, sp.Not) and l.args[0] == somes[f] for l in p.pc)]
        run.check(bool(hit) and all(variant_name(p.result) == "Err:MissingParameters" for p in hit), "R6.3", dp, "field:" + f, F.loc(b),
                  "Option field `%s` of the builder unset does not lead to Err(IVPError::MissingParameters) in solve() (%s)"
                  % (f, sorted({variant_name(p.result) for p in hit}) or "never tested"), sample="%s.%s unset -> Err(MissingParameters)" % (bname, f))
    run.check(n_ok >= 1, "R6.3", dp, "ok-path", F.loc(b), "solve() has no path returning Ok")


def check_new(F, run, bname):
    """R6.4 on the paths of new()/new_dyn() (helpers are evaluated in place): the builder's dimension is the value of Dimension::dim() resp.
    Dimension::dim_dyn(size), its error is propagated, and every init_* field starts as None."""
    for method, dimfn, nargs in (("new", "dim", 0), ("new_dyn", "dim_dyn", 1)):
        b = builder_fn(F, bname, method)
        run.analysed(b)
        dp = "%s::%s" % (bname, method)
        seen = []

        def setup(it):
            def hook(last):
                def h(interp, n, args):
                    if not (callee(n) or "").startswith("Dimension::"):
                        raise sym.Unsupported(n, "call of %s" % callee(n))
                    seen.append((last, tuple(args)))
                    return paths.ResVal(sp.Symbol("ok(%s)" % last), sp.Function("D_" + last)(*[a for a in args if isinstance(a, sp.Basic)]), sp.Symbol("err(%s)" % last))
                return h
            it.call_hooks["dim"] = hook("dim")
            it.call_hooks["dim_dyn"] = hook("dim_dyn")
        try:
            ps = paths.explore(F, b, setup=setup)
        except sym.Unsupported as u:
            run.broken("R6.4", dp, "paths", F.loc(b, u.node if isinstance(getattr(u, "node", None), dict) else None), "%s() outside the path domain: %s" % (method, u))
            continue
        size = [sp.Symbol(nm, real=True) for prm in b["params"] for (_, nm) in pat_binds(prm)]
        want_dim = sp.Function("D_" + dimfn)(*size[:nargs])
        okc = sp.Symbol("ok(%s)" % dimfn)
        good = len(ps) == 2
        n_ok = 0
        for p in ps:
            res = variant_name(p.result)
            if okc in p.pc:
                st = p.result.args[0] if res == "Ok" and p.result.args else None
                g = isinstance(st, dict) and st.get("dim") == want_dim
                good = good and g
                n_ok += 1
                if isinstance(st, dict):
                    for f, v in st.items():
                        if f.startswith("init_"):
                            none = isinstance(v, paths.OptVal) and v.some is sp.false or isinstance(v, sym.Variant) and v.name == "None"
                            run.check(none, "R6.4", dp, "starts-empty:" + f, F.loc(b), "%s() pre-sets %s" % (method, f))
            elif sp.Not(okc) in p.pc:
                good = good and res.startswith("Err") and p.result.args and p.result.args[0] == sp.Symbol("err(%s)" % dimfn)
            else:
                good = False
        run.check(good and n_ok == 1, "R6.4", dp, "dimension-call", F.loc(b),
                  "%s() must obtain its dimension from Dimension::%s(%s)? and propagate the error (paths: %s)"
                  % (method, dimfn, "size" if nargs else "", [(str(p.cond()), str(p.result)[:80]) for p in ps]),
                  sample="%s uses Dimension::%s?" % (dp, dimfn))


def check_dimension(F, run):
    want = {
        ("nalgebra::Const<C>", "dim"): "Ok",
        ("nalgebra::Const<C>", "dim_dyn"): "Err:DynamicOnStatic",
        ("nalgebra::Dyn", "dim"): "Err:StaticOnDynamic",
        ("nalgebra::Dyn", "dim_dyn"): "Ok",
    }
    for (selfty, name), w in want.items():
        c = [b for b in F.bodies if b["name"] == name and b.get("impl_self") == selfty and "Dimension" in (b.get("impl_trait") or "")]
        if len(c) != 1:
            run.broken("R6.4", "Dimension", "%s::%s" % (selfty, name), "src/lib.rs", "impl not found")
            continue
        b = c[0]
        run.analysed(b)
        it = sym.Interp(F, b)
        it.call_hooks["name"] = lambda i, n, a: sp.Symbol("Self::name()")
        it.call_hooks["from_usize"] = lambda i, n, a: sp.Symbol("Self::from_usize(%s)" % a[0])
        try:
            v = it.ev(b["body"])
        except sym.Unsupported as u:
            run.broken("R6.4", b["path"], "body", F.loc(b), str(u))
            continue
        got = variant_name(v)
        good = got == w
        if good and (selfty, name) == ("nalgebra::Dyn", "dim_dyn"):
            good = "from_usize(size)" in str(v.args[0])
        run.check(good, "R6.4", b["path"], "result", F.loc(b), "returns %s, expected %s" % (v, w), sample="%s -> %s" % (b["path"], v))
    # From<DimensionError> for IVPError: exhaustive same-name mapping
    c = [b for b in F.bodies if b["name"] == "from" and "From<DimensionError>" in (b.get("impl_trait") or "")]
    if len(c) != 1:
        run.broken("R6.4", "From<DimensionError>", "impl", "src/ivp.rs", "impl not found")
    else:
        b = c[0]
        run.analysed(b)
        m = peel(b["body"])
        if m.get("k") == "Block" and m.get("expr") is not None:
            m = peel(m["expr"])
        good = m.get("k") == "Match"
        seen = set()
        if good:
            for a in m["arms"]:
                pv = (a["pat"].get("def") or "").split("::")[-1]
                bv = peel(a["body"])
                bd = (bv.get("ctor_of") or bv.get("def") or "")
                if bv.get("k") == "Path" and bd.startswith("ivp::IVPError::") and bd.split("::")[-1] == pv:
                    seen.add(pv)
                else:
                    good = False
        dims = F.adts.get("DimensionError")
        allv = {v["name"] for v in dims["variants"]} if dims else set()
        run.check(good and seen == allv and allv, "R6.4", b["path"], "same-name-map", F.loc(b),
                  "From<DimensionError> does not map every variant to the IVPError variant of the same name (mapped: %s of %s)" % (sorted(seen), sorted(allv)))


def is_user_error_wrapper(a):
    """`IVPError::UserError`, or a closure `|e| IVPError::UserError(e)` / `|e| IVPStatus::Failure(IVPError::UserError(e))`: the user's error is kept."""
    if is_path(a, "IVPError::UserError"):
        return True
    if a.get("k") != "Closure" or len(a.get("params", [])) != 1 or a["params"][0].get("k") != "Bind":
        return False
    x = a["params"][0]["id"]
    e = peel(a["body"])
    for _ in range(2):
        if e.get("k") == "Call" and len(e.get("args", [])) == 1 and (callee(e) or "").endswith(("IVPStatus::Failure", "IVPError::UserError")):
            last = (callee(e) or "").endswith("IVPError::UserError")
            e = peel(e["args"][0])
            if last:
                return e.get("k") == "Local" and e.get("id") == x
    return False


def check_user_errors(F, run):
    n_calls = 0
    n_g = 0
    for b in F.bodies:
        if not b["file"].startswith("src/ivp"):
            continue
        for n, parents in walk_with_parents(b["body"]):
            if n.get("k") != "Call" or "ovl" not in n:
                continue
            pl = place(n["f"]) or ""
            is_user = pl.endswith(".derivative")
            is_resid = pl == "g" and b["name"] in ("secant", "jac_finite_diff")
            if not (is_user or is_resid):
                continue
            run.analysed(b)
            if is_user:
                n_calls += 1
            else:
                n_g += 1
            # climb through map_err(IVPError::UserError) only
            i = len(parents) - 1
            cur = n
            ok = False
            while i >= 0:
                p = parents[i]
                if p.get("k") == "Try" and p["e"] is cur:
                    ok = True
                    break
                if p.get("k") in ("Block",) and p.get("expr") is cur:
                    cur = p                      # the value of a block (closure body)
                    i -= 1
                    continue
                if p.get("k") == "Closure" and p.get("body") is cur and i >= 1 and parents[i - 1].get("k") == "LetS" and parents[i - 1]["pat"].get("k") == "Bind":
                    # the Result is the value of a local closure (`let slope = |t, y| (self.derivative)(t, y, …);`): every call of that closure must
                    # propagate it
                    cid = parents[i - 1]["pat"]["id"]
                    sites = [(x, ps) for x, ps in walk_with_parents(b["body"]) if x.get("k") == "Call" and "ovl" in x and peel(x["f"]).get("k") == "Local" and peel(x["f"]).get("id") == cid]
                    def propagated(x, ps):
                        j, c_ = len(ps) - 1, x
                        while j >= 0:
                            q = ps[j]
                            if q.get("k") == "Try" and q["e"] is c_:
                                return True
                            if q.get("k") == "MCall" and q["name"] == "map_err" and q["recv"] is c_ and q["args"] and is_user_error_wrapper(q["args"][0]):
                                c_, j = q, j - 1
                                continue
                            if q.get("k") == "MCall" and q["name"] in ("map", "and_then", "inspect") and q["recv"] is c_ and "result::Result" in (q.get("def") or ""):
                                c_, j = q, j - 1
                                continue
                            return False
                        return False
                    ok = bool(sites) and all(propagated(x, ps) for x, ps in sites)
                    break
                if p.get("k") == "MCall" and p["name"] == "map_err" and p["recv"] is cur and p["args"] and is_user_error_wrapper(p["args"][0]):
                    cur = p
                    i -= 1
                    continue
                if p.get("k") == "MCall" and p["name"] in ("map", "and_then", "inspect") and p["recv"] is cur and "result::Result" in (p.get("def") or ""):
                    cur = p                      # Result::map / and_then / inspect hand an Err on unchanged (`derivative(..).map(|slope| slope * dt)`)
                    i -= 1
                    continue
                if p.get("k") == "Un" and p.get("op") == "Neg":
                    break
                break
            # `-(f)(..)? * dt`: the Try is the direct parent in the HIR (unary minus applies to the Try)
            run.check(ok, "R6.5", b["path"], "call:%s#%d" % (pl, n_calls + n_g), F.loc(b, n),
                      "the Result of the %s call is not propagated with `?` (found under %s): a user error could be dropped"
                      % ("user derivative" if is_user else "residual closure", parents[-1].get("k") + (":" + parents[-1].get("name", "") if parents else "")),
                      sample="%s: %s" % (F.loc(b, n), pp(parents[-1])[:90] if parents else ""))
    # helpers that (transitively) evaluate the user derivative return its error inside their own Result: every call of
    # such a helper must hand the error on unchanged (`?` directly; no map_err that replaces it, no ok()/unwrap_or)
    carriers = set()
    changed = True
    ivp_bodies = [b for b in F.bodies if b["file"].startswith("src/ivp") and b["name"] not in ("step", "next", "solve")]
    while changed:
        changed = False
        for b in ivp_bodies:
            if b["name"] in carriers:
                continue
            hit = False
            for n in walk(b["body"]):
                if n.get("k") == "Call" and "ovl" in n and ((place(n["f"]) or "").endswith(".derivative") or (place(n["f"]) or "") == "g"):
                    hit = True
                if n.get("k") == "MCall" and n["name"] in carriers and place(n["recv"]) == "self":
                    hit = True
            if hit and "Result<" in (b.get("output") or ""):
                carriers.add(b["name"])
                changed = True
    n_helper = 0
    for b in F.bodies:
        if not b["file"].startswith("src/ivp"):
            continue
        for n, parents in walk_with_parents(b["body"]):
            if n.get("k") == "MCall" and n["name"] in carriers and place(n["recv"]) == "self":
                n_helper += 1
                par = parents[-1] if parents else {}
                ok = par.get("k") == "Try" and par["e"] is n
                if not ok:
                    # handing the helper's Result back unchanged — as the tail expression of the function or as the operand of `return` — propagates it too
                    x, ps = n, list(parents)
                    while ps and ps[-1].get("k") == "Block" and ps[-1].get("expr") is x and ps[-1] is not b["body"]:
                        x = ps.pop()
                    ok = (bool(ps) and ps[-1] is b["body"] and b["body"].get("expr") is x) or (bool(ps) and ps[-1].get("k") == "Ret" and ps[-1].get("e") is x)
                run.check(ok, "R6.5", b["path"], "helper-error-propagated:%s" % n["name"], F.loc(b, n),
                          "the Result of `%s` (which carries errors of the user's derivative) is not propagated with `?` unchanged (found under %s%s): "
                          "a user error can be dropped or replaced by another error" % (n["name"], par.get("k"), ":" + par.get("name", "") if par.get("name") else ""),
                          sample="%s: self.%s(..)?" % (b["name"], n["name"]))
    run.floor("R6.5", "ivp", "calls of helpers that carry user errors", n_helper, 4)
    run.floor("R6.5", "ivp", "calls of the user derivative", n_calls, 8)
    run.floor("R6.5", "ivp::bdf", "calls of the residual closure", n_g, 2)
    run.call_sites += n_calls + n_g
    # conversion chain
    chain = [
        ("From<std::boxed::Box<(dyn std::error::Error + 'static)>>", "ivp::IVPStatus<ivp::IVPError>", ["ivp::IVPStatus::Failure", "ivp::IVPError::UserError"]),
        ("From<std::boxed::Box<(dyn std::error::Error + 'static)>>", "ivp::IVPError", ["ivp::IVPError::UserError"]),
        ("From<T>", "ivp::IVPStatus<T>", ["ivp::IVPStatus::Failure"]),
    ]
    for tr, selfty, ctors in chain:
        c = [b for b in F.bodies if b["name"] == "from" and b.get("impl_self") == selfty and tr in (b.get("impl_trait") or "")]
        if len(c) != 1:
            run.broken("R6.5", "From", "%s for %s" % (tr, selfty), "src/ivp.rs", "conversion impl not found (%d)" % len(c))
            continue
        b = c[0]
        run.analysed(b)
        v = peel(b["body"])
        if v.get("k") == "Block" and v.get("expr") is not None:
            v = peel(v["expr"])
        names = []
        while True:
            if v.get("k") == "Call" and callee(v):
                names.append(callee(v))
                v = peel(v["args"][0])
            elif v.get("k") == "Struct":
                names.append(v["def"])
                v = peel(v["fields"][0]["e"])
            else:
                break
        good = names == ctors and v.get("k") == "Local"
        run.check(good, "R6.5", b["path"], "wraps", F.loc(b), "conversion is %s(%s), expected %s(param)" % (names, pp(v)[:30], ctors),
                  sample="%s = %s" % (b["path"], "∘".join(c_.split("::")[-1] for c_ in names)))


def pat_shape(p):
    k = p.get("k")
    if k in ("PTupleStruct", "PStruct"):
        subs = p.get("ps") or [f["pat"] for f in p.get("fields", [])]
        return (p.get("def", "?").split("::")[-1],) + tuple(pat_shape(s) for s in subs)
    if k == "PPath":
        return (p.get("def", "?").split("::")[-1],)
    if k == "Bind":
        return ("$" + p["name"],)
    if k == "Wild":
        return ("_",)
    return (k,)


def expr_shape(e):
    e = peel(e)
    k = e.get("k")
    if k == "Call" and callee(e):
        return (callee(e).split("::")[-1],) + tuple(expr_shape(a) for a in e["args"])
    if k == "Path":
        return ((e.get("ctor_of") or e.get("def")).split("::")[-1],)
    if k == "Local":
        return ("$" + e["name"],)
    return (k,)


class _IterV(vecint.VInterp):
    """`next` of the solution iterator with `self.solver.step()` scripted: each call returns the next element of `script`."""
    def __init__(self, *a, **k):
        vecint.VInterp.__init__(self, *a, **k)
        self.unroll_limit = 16


def _run_next(F, b, finished, script):
    """-> (returned value, finished afterwards, number of step() calls) for one scripted scenario (None result = did not return)."""
    it = vecint.VInterp(F, b)
    it.WHILE_LIMIT = 12
    calls = [0]

    def step_hook(interp, n):
        if not (n.get("def") or "").endswith("IVPStepper::step"):
            return NotImplemented
        k = calls[0]
        calls[0] += 1
        if k >= len(script):
            raise vecint.Budget(n, "step() called more often than the scenario provides")
        return script[k]
    it.method_hooks = {"step": step_hook}
    it.if_hook = lambda i, n, c: None
    me = {"__struct__": "ivp::IVPIterator", "finished": sp.true if finished else sp.false, "solver": {"__struct__": "solver"}}
    it.bind(b["params"][0], me, b)
    try:
        v = it.ev(b["body"])
    except sym.Return as r:
        v = r.value
    return v, me.get("finished"), calls[0]


def check_iterator(F, run):
    """R6.6 — the solution iterator, decided on scripted scenarios of `self.solver.step()` (abstract execution of `next`, any control-flow shape):
    a point is passed on as Some(Ok(point)); Done ends the iteration with None; Redo calls step() again and nothing else; a Failure is yielded
    once as Some(Err(e)) and fuses the iterator (finished = true, afterwards None without calling step()); collect_vec collects into a Result."""
    b = [x for x in F.bodies if x["name"] == "next" and (x.get("impl_self") or "").startswith("ivp::IVPIterator<")]
    if len(b) != 1:
        raise Missing("IVPIterator::next")
    b = b[0]
    run.analysed(b)
    dp = "IVPIterator::next"
    V = sym.Variant
    pt, er = sp.Symbol("POINT"), sp.Symbol("ERR")
    ok, done, redo, fail = V("Ok", [pt]), V("Err", [V("Done", [])]), V("Err", [V("Redo", [])]), V("Err", [V("Failure", [er])])
    some_ok, some_err, none = V("Some", [V("Ok", [pt])]), V("Some", [V("Err", [er])]), V("None", [])

    def same(a, b_):
        if isinstance(a, sym.Variant) and isinstance(b_, sym.Variant):
            return a.name == b_.name and len(a.args) == len(b_.args) and all(same(x, y) for x, y in zip(a.args, b_.args))
        return a == b_
    scen = [("fused", True, [], none, True, 0, "once finished, next() returns None without stepping"),
            ("point", False, [ok], some_ok, False, 1, "a point returned by step() is yielded as Some(Ok(point))"),
            ("done", False, [done], none, None, 1, "Done ends the iteration with None"),
            ("failure", False, [fail], some_err, True, 1, "a Failure is yielded as Some(Err(e)) and sets finished"),
            ("redo-then-point", False, [redo, redo, ok], some_ok, False, 3, "Redo makes next() call step() again until it gets a point"),
            ("redo-then-failure", False, [redo, fail], some_err, True, 2, "Redo followed by a Failure yields the error and fuses"),
            ("redo-then-done", False, [redo, done], none, None, 2, "Redo followed by Done ends the iteration")]
    for name, fin, script, want, want_fin, want_calls, what in scen:
        try:
            v, fin2, ncalls = _run_next(F, b, fin, script)
        except vecint.Budget as e:
            run.fail("R6.6", dp, "scenario:" + name, F.loc(b), "%s: %s" % (what, e))
            continue
        except (sym.Unsupported, vecint.IndexPanic) as e:
            run.broken("R6.6", dp, "scenario:" + name, F.loc(b, e.node if isinstance(getattr(e, "node", None), dict) else None), str(e))
            continue
        good = same(v, want) and ncalls == want_calls and (want_fin is None or (fin2 is sp.true) == want_fin)
        run.check(good, "R6.6", dp, "scenario:" + name, F.loc(b),
                  "%s — with step() returning %s, next() returns %r after %d step() call(s) and leaves finished = %s"
                  % (what, [str(x) for x in script], v, ncalls, fin2), sample="%s: %s" % (name, what))
    # `finished` is written only by the iterator itself
    writes = []
    for body in F.bodies:
        for n in walk(body["body"]):
            if n.get("k") in ("Assign", "AssignOp") and (place(n["l"]) or "").endswith(".finished"):
                writes.append((body, n))
    run.check(all(w[0] is b for w in writes) and len(writes) >= 1, "R6.6", dp, "finished-single-writer", F.loc(b),
              "`finished` is assigned outside IVPIterator::next (%d assignment(s) in all)" % len(writes))
    # collect_vec: the whole path or the first error
    cv = [x for x in F.bodies if x["name"] == "collect_vec" and (x.get("impl_self") or "").startswith("ivp::IVPIterator<")]
    if len(cv) == 1:
        run.analysed(cv[0])
        good = False
        why = ""
        try:
            for items, want in (([V("Ok", [sp.Symbol("P1")]), V("Ok", [sp.Symbol("P2")])], ("Ok", 2)), ([V("Ok", [sp.Symbol("P1")]), V("Err", [er]), V("Ok", [sp.Symbol("P2")])], ("Err", None))):
                it = vecint.VInterp(F, cv[0])
                it.bind(cv[0]["params"][0], vecint.LazyIter(list(items)), cv[0])
                try:
                    v = it.ev(cv[0]["body"])
                except sym.Return as r:
                    v = r.value
                if want[0] == "Ok":
                    good = isinstance(v, sym.Variant) and v.name == "Ok" and isinstance(v.args[0], list) and len(v.args[0]) == 2
                else:
                    good = good and isinstance(v, sym.Variant) and v.name == "Err" and v.args and v.args[0] == er
                why = repr(v)
                if not good:
                    break
        except (sym.Unsupported, vecint.IndexPanic) as e:
            good, why = False, str(e)
        run.check(good, "R6.6", "IVPIterator::collect_vec", "collect-result", F.loc(cv[0]),
                  "collect_vec does not return Ok(all points) / the first error (%s)" % why[:120])
    else:
        run.broken("R6.6", "IVPIterator::collect_vec", "anchor", "src/ivp.rs", "collect_vec not found")


def is_local_self(n):
    n = peel(n)
    return n.get("k") == "Local" and n["name"] == "self"


def check_no_panic(F, run):
    n = 0
    for bname in BUILDERS:
        for method in ["new", "new_dyn", "dim", "with_initial_conditions", "with_derivative", "solve"] + SETTERS:
            try:
                b = builder_fn(F, bname, method)
            except Missing:
                continue
            n += 1
            bad = []
            for x in walk(b["body"]):
                if x.get("k") == "MCall" and x["name"] in ("unwrap", "expect", "unwrap_unchecked"):
                    bad.append(("unwrap", x))
                if x.get("mac") in ("panic", "unreachable", "unimplemented", "todo", "assert", "assert_eq"):
                    bad.append((x.get("mac"), x))
                if x.get("k") == "Index":
                    bad.append(("index", x))
            run.check(not bad, "R6.7", "%s::%s" % (bname, method), "no-panic", F.loc(b, bad[0][1]) if bad else F.loc(b),
                      "builder method can panic: %s" % ", ".join("%s `%s`" % (w, pp(x)[:50]) for w, x in bad[:3]))
    run.floor("R6.7", "ivp", "builder methods scanned", n, 28)
    # default trait method with_initial_conditions_slice
    c = [b for b in F.bodies if b["name"] == "with_initial_conditions_slice"]
    for b in c:
        run.analysed(b)


def run(F, run, tier):
    for bname in BUILDERS:
        for m in SETTERS:
            try:
                check_setter(F, run, bname, m)
            except Missing as e:
                run.broken("R6.1", "%s::%s" % (bname, m), "anchor", "src/ivp", str(e))
        try:
            check_solve(F, run, bname)
            check_new(F, run, bname)
        except Missing as e:
            run.broken("R6.3", bname, "anchor", "src/ivp", str(e))
    check_dimension(F, run)
    check_user_errors(F, run)
    check_iterator(F, run)
    check_no_panic(F, run)
    run.assumptions += ["comparisons are over an ordered field (NaN arguments are outside the property's quantifier)",
                        "Euler::with_tolerance is a documented no-op (named exception)"]
    expl = ("Every path of the 20 setters is enumerated (loop-free bodies, comparisons-only domain) and checked against the builder "
            "contract (dedicated error on every path reachable with an invalid argument, exact field update and min<=max on every "
            "path reachable with a valid one); solve()/new()/new_dyn(), the Dimension impls, the From conversions, all call sites of "
            "the user derivative and the iterator protocol are checked structurally on the resolved HIR. The sequence semantics of the "
            "property follow by induction from the per-call contract.")
    return "other", expl, None
