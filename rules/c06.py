"""C06 — IVP builders validate input; user errors end iteration exactly once.  Guard structure, error
discipline and exhaustiveness only: fully static.

R6.1  setter contract, per path of each setter (path-sensitive dataflow over the loop-free body in the
      comparisons-only domain): a path reachable with a bad argument returns Err(<dedicated variant>); a path
      reachable with a good argument returns Ok(self) with exactly the specified field update.
R6.2  min <= max invariant: every Ok path of with_minimum_dt / with_maximum_dt leaves min' <= max' (entailed by
      the path condition, comparisons only) whenever both are set.
R6.3  solve(): every Option-typed field of the builder struct is consumed through ok_or(MissingParameters)?;
      every other `?` in solve is a FromPrimitiveFailure conversion; no other error exit.
R6.4  new()/new_dyn(): D::dim()? / D::dim_dyn(size)?; the two Dimension impls; From<DimensionError>.
R6.5  no user error is dropped: every call of the user derivative flows into `?` (optionally through
      map_err(IVPError::UserError)); the residual closures' callers propagate too; conversion chain.
R6.6  iterator protocol of IVPIterator::next (exhaustive arms, fused after a failure), collect_vec.
R6.7  no panic in the builder surface.
"""
import sympy as sp

from bsa import cfg, logic, paths, sym
from bsa.hir import Missing, callee, peel, place, pp, walk, walk_with_parents

LEVEL = "other"

BUILDERS = {
    "Euler": ("ivp::Euler", "ivp::EulerSolver"),
    "RungeKutta": ("ivp::rk::RungeKutta", "ivp::rk::RungeKuttaSolver"),
    "Adams": ("ivp::adams::Adams", "ivp::adams::AdamsSolver"),
    "BDF": ("ivp::bdf::BDF", "ivp::bdf::BDFSolver"),
}
SETTERS = ["with_tolerance", "with_maximum_dt", "with_minimum_dt", "with_initial_time", "with_ending_time"]

# Euler is a solver of a different kind (one fixed step, no tolerance): documented in its source as
# "Unused for Euler, call is a no-op"; min/max setters average into the single step size.
EULER_EXCEPTIONS = {
    "with_tolerance": "Euler has no tolerance: documented no-op accepting any value",
}


def builder_fn(F, bname, method):
    struct = BUILDERS[bname][0]
    c = [b for b in F.bodies if b["name"] == method and (b.get("impl_self") or "").startswith(struct + "<")
         and "IVPSolver" in (b.get("impl_trait") or "")]
    if len(c) != 1:
        raise Missing("%s::%s (impl IVPSolver): %d candidates" % (struct, method, len(c)))
    return c[0]


def variant_name(v):
    """Err(IVPError::X) -> 'X'; Ok(..) -> 'Ok'."""
    if isinstance(v, sym.Variant):
        if v.name == "Err" and v.args and isinstance(v.args[0], sym.Variant):
            return "Err:" + v.args[0].name
        return v.name
    return repr(v)


def unchanged(pl, v):
    return isinstance(v, paths.OptVal) and v.some == sp.Symbol("some(%s)" % pl) and v.payload == sp.Symbol(pl, real=True)


def arg_symbol(body):
    ps = body["params"]
    if len(ps) != 2 or ps[1].get("k") != "Bind":
        raise Missing("%s: expected (self, arg)" % body["path"])
    return sym.S(ps[1]["name"])


def check_setter(F, run, bname, method):
    b = builder_fn(F, bname, method)
    run.analysed(b)
    where = F.loc(b)
    dp = "%s::%s" % (bname, method)
    try:
        ps = paths.explore(F, b)
    except sym.Unsupported as u:
        run.broken("R6.1", dp, "paths", where, "setter body outside the path domain: %s" % u)
        return
    a = arg_symbol(b)
    euler = bname == "Euler"

    def opt(pl):
        return sp.Symbol("some(%s)" % pl), sp.Symbol(pl, real=True)
    if method == "with_tolerance":
        bad, variant, target = sp.Le(a, 0), "ToleranceOOB", "self.init_tolerance"
    elif method in ("with_maximum_dt", "with_minimum_dt"):
        bad, variant = sp.Le(a, 0), "TimeDeltaOOB"
        target = "self.init_dt" if euler else ("self.init_dt_max" if method == "with_maximum_dt" else "self.init_dt_min")
    elif method == "with_initial_time":
        s, e = opt("self.init_end")
        bad, variant, target = sp.And(s, sp.Le(e, a)), "TimeStartOOB", "self.init_time"
    else:
        s, t0 = opt("self.init_time")
        bad, variant, target = sp.And(s, sp.Ge(t0, a)), "TimeEndOOB", "self.init_end"
    if euler and method in EULER_EXCEPTIONS:
        ok = len(ps) == 1 and variant_name(ps[0].result) == "Ok" and not ps[0].fields
        run.check(ok, "R6.1", dp, "documented-noop", where,
                  "Euler::with_tolerance is documented as a no-op but does something else", sample=EULER_EXCEPTIONS[method])
        return
    for i, p in enumerate(ps):
        pc = p.cond()
        res = variant_name(p.result)
        inst = "path[%s]" % ",".join(str(x) for x in p.pc)
        if logic.satisfiable_with(pc, bad):
            run.check(res == "Err:" + variant, "R6.1", dp, "reject:" + inst, where,
                      "a path reachable with an invalid argument (%s) returns %s instead of Err(IVPError::%s)" % (bad, res, variant),
                      sample="%s: [%s] -> %s" % (dp, pc, res))
        if logic.satisfiable_with(pc, sp.Not(bad)):
            okres = res == "Ok" and p.result.args and p.result.args[0] == sym.S("self")
            run.check(okres, "R6.1", dp, "accept:" + inst, where,
                      "a path reachable with a valid argument (not %s) returns %s instead of Ok(self)" % (bad, res),
                      sample="%s: [%s] -> %s" % (dp, pc, res))
            if not okres:
                continue
            v = p.fields.get(target)
            if euler and method in ("with_maximum_dt", "with_minimum_dt"):
                # single step size: the stored value is a convex combination of the old value and the argument
                olds, oldv = opt("self.init_dt")
                good = isinstance(v, paths.OptVal) and v.some is sp.true
                if good:
                    e = sp.expand(v.payload)
                    ca, co = e.coeff(a), e.coeff(oldv)
                    good = sym.is_zero(e - ca * a - co * oldv) and ca > 0 and co >= 0 and ca + co == 1
                run.check(good, "R6.1", dp, "stores:" + inst, where,
                          "Euler step size after the call is %r, not a convex combination of the previous value and the argument" % (v,))
            else:
                good = isinstance(v, paths.OptVal) and v.some is sp.true and sym.is_zero(v.payload - a)
                run.check(good, "R6.1", dp, "stores:" + inst, where,
                          "%s after the call is %r, expected Some(%s)" % (target, v, a))
            # no other field may change, except the cross-update of the other step bound
            allowed = {target}
            if method == "with_maximum_dt" and not euler:
                allowed.add("self.init_dt_min")
            if method == "with_minimum_dt" and not euler:
                allowed.add("self.init_dt_max")
            for pl, fv in p.fields.items():
                if pl in allowed:
                    continue
                run.check(unchanged(pl, fv), "R6.1", dp, "frame:%s:%s" % (pl, inst), where,
                          "setter also changes %s to %r" % (pl, fv))
            # R6.2 min <= max
            if method in ("with_maximum_dt", "with_minimum_dt") and not euler:
                mn = p.fields.get("self.init_dt_min") or paths.OptVal(*opt("self.init_dt_min"))
                mx = p.fields.get("self.init_dt_max") or paths.OptVal(*opt("self.init_dt_max"))
                both = sp.And(pc, sp.Not(bad), mn.some, mx.some)
                if logic.unsat(both):
                    run.ok("R6.2", inst, "%s: [%s] leaves at most one bound set" % (dp, pc))
                else:
                    run.check(logic.entails(both, sp.Le(mn.payload, mx.payload)), "R6.2", dp, "min<=max:" + inst, where,
                              "on the path [%s] the builder is left with minimum %s and maximum %s and nothing orders them"
                              % (pc, mn.payload, mx.payload), sample="%s: [%s] ⟹ %s <= %s" % (dp, pc, mn.payload, mx.payload))
    run.floor("R6.1", dp, "paths", len(ps), 2 if not (euler and method in EULER_EXCEPTIONS) else 1, where)


def is_path(n, suffix):
    n = peel(n)
    return n.get("k") == "Path" and ((n.get("ctor_of") or n.get("def") or "").endswith(suffix))


def check_solve(F, run, bname):
    b = builder_fn(F, bname, "solve")
    run.analysed(b)
    struct = BUILDERS[bname][0]
    adt = F.adts.get(struct)
    if adt is None:
        raise Missing("struct %s" % struct)
    optf = [f["name"] for f in adt["variants"][0]["fields"] if f["ty"].startswith("std::option::Option<")]
    run.floor("R6.3", bname + "::solve", "Option fields of the builder", len(optf), 5 if bname == "Euler" else 7, F.loc(b))
    consumed = set()
    n_try = 0
    for n, parents in walk_with_parents(b["body"]):
        if n.get("k") != "Try":
            continue
        n_try += 1
        e = peel(n["e"])
        ok = False
        if e.get("k") == "MCall" and e["name"] == "ok_or" and e["args"]:
            if is_path(e["args"][0], "IVPError::MissingParameters"):
                r = peel(e["recv"])
                if r.get("k") == "MCall" and r["name"] == "take":
                    r = peel(r["recv"])
                pl = place(r)
                if pl and pl.startswith("self."):
                    consumed.add(pl[5:])
                    ok = True
            elif is_path(e["args"][0], "IVPError::FromPrimitiveFailure"):
                ok = True
        run.check(ok, "R6.3", bname + "::solve", "try:" + pp(n)[:60], F.loc(b, n),
                  "solve() has an error exit that is neither MissingParameters on a builder field nor FromPrimitiveFailure: %s" % pp(n)[:120])
    for f in optf:
        run.check(f in consumed, "R6.3", bname + "::solve", "field:" + f, F.loc(b),
                  "Option field `%s` of the builder is not checked with ok_or(IVPError::MissingParameters)? in solve()" % f,
                  sample="%s.%s -> ok_or(MissingParameters)?" % (bname, f))
    for n in walk(b["body"]):
        if n.get("k") == "Ret":
            run.fail("R6.3", bname + "::solve", "early-return", F.loc(b, n), "solve() has an explicit return: %s" % pp(n)[:100])
    # tail is Ok(IVPIterator{.. finished: false ..})
    tail = peel(b["body"].get("expr") or {})
    good = tail.get("k") == "Call" and (callee(tail) or "").endswith("Ok") and peel(tail["args"][0]).get("k") == "Struct" \
        and peel(tail["args"][0])["def"].endswith("IVPIterator")
    if good:
        st = peel(tail["args"][0])
        fin = [f for f in st["fields"] if f["name"] == "finished"]
        good = len(fin) == 1 and peel(fin[0]["e"]).get("v") == "false"
    run.check(good, "R6.6", bname + "::solve", "starts-unfinished", F.loc(b),
              "solve() does not end in Ok(IVPIterator { finished: false, .. })")


def check_new(F, run, bname):
    for method, dimfn, nargs in (("new", "Dimension::dim", 0), ("new_dyn", "Dimension::dim_dyn", 1)):
        b = builder_fn(F, bname, method)
        run.analysed(b)
        calls = []
        for n, parents in walk_with_parents(b["body"]):
            if n.get("k") == "Call" and (callee(n) or "").startswith("Dimension::"):
                calls.append((n, parents))
        good = len(calls) == 1 and callee(calls[0][0]) == dimfn and calls[0][1] and calls[0][1][-1].get("k") == "Try"
        if good and nargs == 1:
            arg = peel(calls[0][0]["args"][0])
            good = arg.get("k") == "Local" and arg["name"] == b["params"][0].get("name")
        run.check(good, "R6.4", "%s::%s" % (bname, method), "dimension-call", F.loc(b),
                  "%s() must obtain its dimension from %s(%s)? and propagate the error" % (method, dimfn, "size" if nargs else ""),
                  sample="%s::%s uses %s?" % (bname, method, dimfn))
        # all Option fields start as None
        st = [n for n in walk(b["body"]) if n.get("k") == "Struct"]
        if len(st) == 1:
            for f in st[0]["fields"]:
                if f["name"].startswith("init_"):
                    run.check(is_path(f["e"], "None"), "R6.4", "%s::%s" % (bname, method), "starts-empty:" + f["name"], F.loc(b),
                              "%s() pre-sets %s" % (method, f["name"]))
        else:
            run.broken("R6.4", "%s::%s" % (bname, method), "struct-literal", F.loc(b), "no single struct literal")


def check_dimension(F, run):
    want = {
        ("nalgebra::Const<C>", "dim"): "Ok",
        ("nalgebra::Const<C>", "dim_dyn"): "Err:DynamicOnStatic",
        ("nalgebra::Dyn", "dim"): "Err:StaticOnDynamic",
        ("nalgebra::Dyn", "dim_dyn"): "Ok",
    }
    for (selfty, name), w in want.items():
        c = [b for b in F.bodies if b["name"] == name and b.get("impl_self") == selfty and "Dimension" in (b.get("impl_trait") or "")]
        if len(c) != 1:
            run.broken("R6.4", "Dimension", "%s::%s" % (selfty, name), "src/lib.rs", "impl not found")
            continue
        b = c[0]
        run.analysed(b)
        it = sym.Interp(F, b)
        it.call_hooks["name"] = lambda i, n, a: sp.Symbol("Self::name()")
        it.call_hooks["from_usize"] = lambda i, n, a: sp.Symbol("Self::from_usize(%s)" % a[0])
        try:
            v = it.ev(b["body"])
        except sym.Unsupported as u:
            run.broken("R6.4", b["path"], "body", F.loc(b), str(u))
            continue
        got = variant_name(v)
        good = got == w
        if good and (selfty, name) == ("nalgebra::Dyn", "dim_dyn"):
            good = "from_usize(size)" in str(v.args[0])
        run.check(good, "R6.4", b["path"], "result", F.loc(b), "returns %s, expected %s" % (v, w), sample="%s -> %s" % (b["path"], v))
    # From<DimensionError> for IVPError: exhaustive same-name mapping
    c = [b for b in F.bodies if b["name"] == "from" and "From<DimensionError>" in (b.get("impl_trait") or "")]
    if len(c) != 1:
        run.broken("R6.4", "From<DimensionError>", "impl", "src/ivp.rs", "impl not found")
    else:
        b = c[0]
        run.analysed(b)
        m = peel(b["body"])
        if m.get("k") == "Block" and m.get("expr") is not None:
            m = peel(m["expr"])
        good = m.get("k") == "Match"
        seen = set()
        if good:
            for a in m["arms"]:
                pv = (a["pat"].get("def") or "").split("::")[-1]
                bv = peel(a["body"])
                bd = (bv.get("ctor_of") or bv.get("def") or "")
                if bv.get("k") == "Path" and bd.startswith("ivp::IVPError::") and bd.split("::")[-1] == pv:
                    seen.add(pv)
                else:
                    good = False
        dims = F.adts.get("DimensionError")
        allv = {v["name"] for v in dims["variants"]} if dims else set()
        run.check(good and seen == allv and allv, "R6.4", b["path"], "same-name-map", F.loc(b),
                  "From<DimensionError> does not map every variant to the IVPError variant of the same name (mapped: %s of %s)" % (sorted(seen), sorted(allv)))


def check_user_errors(F, run):
    n_calls = 0
    n_g = 0
    for b in F.bodies:
        if not b["file"].startswith("src/ivp"):
            continue
        for n, parents in walk_with_parents(b["body"]):
            if n.get("k") != "Call" or "ovl" not in n:
                continue
            pl = place(n["f"]) or ""
            is_user = pl.endswith(".derivative")
            is_resid = pl == "g" and b["name"] in ("secant", "jac_finite_diff")
            if not (is_user or is_resid):
                continue
            run.analysed(b)
            if is_user:
                n_calls += 1
            else:
                n_g += 1
            # climb through map_err(IVPError::UserError) only
            i = len(parents) - 1
            cur = n
            ok = False
            while i >= 0:
                p = parents[i]
                if p.get("k") == "Try" and p["e"] is cur:
                    ok = True
                    break
                if p.get("k") == "MCall" and p["name"] == "map_err" and p["recv"] is cur and p["args"] and is_path(p["args"][0], "IVPError::UserError"):
                    cur = p
                    i -= 1
                    continue
                if p.get("k") == "Un" and p.get("op") == "Neg":
                    break
                break
            # `-(f)(..)? * dt`: the Try is the direct parent in the HIR (unary minus applies to the Try)
            run.check(ok, "R6.5", b["path"], "call:%s#%d" % (pl, n_calls + n_g), F.loc(b, n),
                      "the Result of the %s call is not propagated with `?` (found under %s): a user error could be dropped"
                      % ("user derivative" if is_user else "residual closure", parents[-1].get("k") + (":" + parents[-1].get("name", "") if parents else "")),
                      sample="%s: %s" % (F.loc(b, n), pp(parents[-1])[:90] if parents else ""))
    # helpers that (transitively) evaluate the user derivative return its error inside their own Result: every call of
    # such a helper must hand the error on unchanged (`?` directly; no map_err that replaces it, no ok()/unwrap_or)
    carriers = set()
    changed = True
    ivp_bodies = [b for b in F.bodies if b["file"].startswith("src/ivp") and b["name"] not in ("step", "next", "solve")]
    while changed:
        changed = False
        for b in ivp_bodies:
            if b["name"] in carriers:
                continue
            hit = False
            for n in walk(b["body"]):
                if n.get("k") == "Call" and "ovl" in n and ((place(n["f"]) or "").endswith(".derivative") or (place(n["f"]) or "") == "g"):
                    hit = True
                if n.get("k") == "MCall" and n["name"] in carriers and place(n["recv"]) == "self":
                    hit = True
            if hit and "Result<" in (b.get("output") or ""):
                carriers.add(b["name"])
                changed = True
    n_helper = 0
    for b in F.bodies:
        if not b["file"].startswith("src/ivp"):
            continue
        for n, parents in walk_with_parents(b["body"]):
            if n.get("k") == "MCall" and n["name"] in carriers and place(n["recv"]) == "self":
                n_helper += 1
                par = parents[-1] if parents else {}
                ok = par.get("k") == "Try" and par["e"] is n
                if not ok:
                    # handing the helper's Result back unchanged — as the tail expression of the function or as the operand of `return` — propagates it too
                    x, ps = n, list(parents)
                    while ps and ps[-1].get("k") == "Block" and ps[-1].get("expr") is x and ps[-1] is not b["body"]:
                        x = ps.pop()
                    ok = (bool(ps) and ps[-1] is b["body"] and b["body"].get("expr") is x) or (bool(ps) and ps[-1].get("k") == "Ret" and ps[-1].get("e") is x)
                run.check(ok, "R6.5", b["path"], "helper-error-propagated:%s" % n["name"], F.loc(b, n),
                          "the Result of `%s` (which carries errors of the user's derivative) is not propagated with `?` unchanged (found under %s%s): "
                          "a user error can be dropped or replaced by another error" % (n["name"], par.get("k"), ":" + par.get("name", "") if par.get("name") else ""),
                          sample="%s: self.%s(..)?" % (b["name"], n["name"]))
    run.floor("R6.5", "ivp", "calls of helpers that carry user errors", n_helper, 4)
    run.floor("R6.5", "ivp", "calls of the user derivative", n_calls, 8)
    run.floor("R6.5", "ivp::bdf", "calls of the residual closure", n_g, 2)
    run.call_sites += n_calls + n_g
    # conversion chain
    chain = [
        ("From<std::boxed::Box<(dyn std::error::Error + 'static)>>", "ivp::IVPStatus<ivp::IVPError>", ["ivp::IVPStatus::Failure", "ivp::IVPError::UserError"]),
        ("From<std::boxed::Box<(dyn std::error::Error + 'static)>>", "ivp::IVPError", ["ivp::IVPError::UserError"]),
        ("From<T>", "ivp::IVPStatus<T>", ["ivp::IVPStatus::Failure"]),
    ]
    for tr, selfty, ctors in chain:
        c = [b for b in F.bodies if b["name"] == "from" and b.get("impl_self") == selfty and tr in (b.get("impl_trait") or "")]
        if len(c) != 1:
            run.broken("R6.5", "From", "%s for %s" % (tr, selfty), "src/ivp.rs", "conversion impl not found (%d)" % len(c))
            continue
        b = c[0]
        run.analysed(b)
        v = peel(b["body"])
        if v.get("k") == "Block" and v.get("expr") is not None:
            v = peel(v["expr"])
        names = []
        while True:
            if v.get("k") == "Call" and callee(v):
                names.append(callee(v))
                v = peel(v["args"][0])
            elif v.get("k") == "Struct":
                names.append(v["def"])
                v = peel(v["fields"][0]["e"])
            else:
                break
        good = names == ctors and v.get("k") == "Local"
        run.check(good, "R6.5", b["path"], "wraps", F.loc(b), "conversion is %s(%s), expected %s(param)" % (names, pp(v)[:30], ctors),
                  sample="%s = %s" % (b["path"], "∘".join(c_.split("::")[-1] for c_ in names)))


def pat_shape(p):
    k = p.get("k")
    if k in ("PTupleStruct", "PStruct"):
        subs = p.get("ps") or [f["pat"] for f in p.get("fields", [])]
        return (p.get("def", "?").split("::")[-1],) + tuple(pat_shape(s) for s in subs)
    if k == "PPath":
        return (p.get("def", "?").split("::")[-1],)
    if k == "Bind":
        return ("$" + p["name"],)
    if k == "Wild":
        return ("_",)
    return (k,)


def expr_shape(e):
    e = peel(e)
    k = e.get("k")
    if k == "Call" and callee(e):
        return (callee(e).split("::")[-1],) + tuple(expr_shape(a) for a in e["args"])
    if k == "Path":
        return ((e.get("ctor_of") or e.get("def")).split("::")[-1],)
    if k == "Local":
        return ("$" + e["name"],)
    return (k,)


def check_iterator(F, run):
    b = [x for x in F.bodies if x["name"] == "next" and (x.get("impl_self") or "").startswith("ivp::IVPIterator<")]
    if len(b) != 1:
        raise Missing("IVPIterator::next")
    b = b[0]
    run.analysed(b)
    dp = "IVPIterator::next"
    steps = [n for n in walk(b["body"]) if n.get("k") == "MCall" and n["name"] == "step" and (n.get("def") or "").endswith("IVPStepper::step")]
    if not run.check(len(steps) == 1, "R6.6", dp, "one-step-call", F.loc(b), "expected exactly one call of IVPStepper::step, found %d" % len(steps)):
        return
    step = steps[0]
    run.check(place(step["recv"]) == "self.solver", "R6.6", dp, "steps-own-solver", F.loc(b, step), "step() is not called on self.solver")
    g = cfg.guards_of(b["body"], step)
    fused = any(l[0] == "lit" and place(l[1]) == "self.finished" and l[2] is False for l in cfg.lits_of(g)) and g[0] in ("lit", "and")
    run.check(fused, "R6.6", dp, "finished-guard", F.loc(b, step),
              "the step() call is not dominated by `if self.finished { return None }`: the iterator is not fused after a failure",
              sample="step() guarded by !self.finished")
    # the early exit returns None
    for n in walk(b["body"]):
        if n.get("k") == "If" and place(n["c"]) == "self.finished":
            rets = [x for x in walk(n["t"]) if x.get("k") == "Ret"]
            run.check(len(rets) == 1 and "e" in rets[0] and expr_shape(rets[0]["e"]) == ("None",), "R6.6", dp, "finished-returns-none", F.loc(b, n),
                      "`if self.finished` does not return None")
    pm = cfg.parent_map(b["body"])
    m = pm.get(id(step))
    loops = [a for a in cfg.ancestors(pm, step) if a.get("k") == "Loop"]
    if not (m is not None and m.get("k") == "Match" and m["e"] is step and len(loops) == 1):
        run.broken("R6.6", dp, "match", F.loc(b, step), "step() result is not matched directly inside one loop")
        return
    loop = loops[0]
    # the loop's value is the function's value
    tail = b["body"].get("expr")
    run.check(tail is loop, "R6.6", dp, "loop-is-result", F.loc(b), "the loop's break value is not what next() returns")
    want = {
        ("Ok", ("$v",)): ("Break", ("Some", ("Ok", ("$v",)))),
        ("Err", ("Done",)): ("Break", ("None",)),
        ("Err", ("Redo",)): ("Continue",),
        ("Err", ("Failure", ("$v",))): ("Break", ("Some", ("Err", ("$v",)))),
    }
    seen = {}
    for a in m["arms"]:
        sh = pat_shape(a["pat"])
        # rename binder to $v
        var = None

        def ren(t):
            nonlocal var
            if isinstance(t, tuple):
                return tuple(ren(x) for x in t)
            if isinstance(t, str) and t.startswith("$"):
                var = t
                return "$v"
            return t
        shn = ren(sh)
        body = peel(a["body"])
        stmts = []
        if body.get("k") == "Block":
            stmts = body["stmts"]
            body = peel(body["expr"]) if body.get("expr") is not None else (peel(stmts[-1]["e"]) if stmts else body)
            if stmts and body is peel(stmts[-1].get("e", {})):
                stmts = stmts[:-1]
        if body.get("k") == "Break":
            act = ("Break", tuple(x if x != var else "$v" for x in [None]) and None)
            val = expr_shape(body["e"]) if "e" in body else None

            def ren2(t):
                if isinstance(t, tuple):
                    return tuple(ren2(x) for x in t)
                return "$v" if t == var else t
            act = ("Break", ren2(val)) if val is not None else ("Break",)
            tgt_ok = body.get("target") == loop["id"]
        elif body.get("k") == "Continue":
            act = ("Continue",)
            tgt_ok = body.get("target") == loop["id"]
        else:
            act = (body.get("k"),)
            tgt_ok = False
        if "e" in a.get("guard", {}) or "guard" in a:
            act = ("guarded",) + act
        seen[shn] = (act, stmts, tgt_ok, a)
    for pat, act in want.items():
        got = seen.get(pat)
        run.check(got is not None and got[0] == act and got[2], "R6.6", dp, "arm:" + str(pat), F.loc(b, m),
                  "arm %s must be `%s`, found %s" % (pat, act, got[0] if got else "no such arm"),
                  sample="%s => %s" % (pat, act))
    run.check(set(seen) == set(want), "R6.6", dp, "exhaustive-arms", F.loc(b, m),
              "match on step() has arms %s, expected exactly %s" % (sorted(map(str, seen)), sorted(map(str, want))))
    # Failure arm sets finished = true before yielding the error; no other arm has side effects
    for pat, (act, stmts, _t, a) in seen.items():
        if pat == ("Err", ("Failure", ("$v",))):
            good = len(stmts) == 1 and peel(stmts[0].get("e", {})).get("k") == "Assign" and place(peel(stmts[0]["e"])["l"]) == "self.finished" \
                and peel(peel(stmts[0]["e"])["r"]).get("v") == "true"
            run.check(good, "R6.6", dp, "failure-sets-finished", F.loc(b, a["body"]),
                      "the Failure arm does not set self.finished = true before yielding the error: a second Err or further points could follow")
        else:
            run.check(not stmts, "R6.6", dp, "arm-pure:" + str(pat), F.loc(b, a["body"]), "arm %s has extra statements" % (pat,))
    # `finished` is written nowhere else
    writes = []
    for body in F.bodies:
        for n in walk(body["body"]):
            if n.get("k") in ("Assign", "AssignOp") and (place(n["l"]) or "").endswith(".finished"):
                writes.append((body, n))
    run.check(len(writes) == 1 and writes[0][0] is b, "R6.6", dp, "finished-single-writer", F.loc(b),
              "`finished` is assigned at %d places (expected only the Failure arm)" % len(writes))
    # collect_vec
    cv = [x for x in F.bodies if x["name"] == "collect_vec" and (x.get("impl_self") or "").startswith("ivp::IVPIterator<")]
    if len(cv) == 1:
        run.analysed(cv[0])
        t = peel(cv[0]["body"])
        if t.get("k") == "Block" and t.get("expr") is not None:
            t = peel(t["expr"])
        good = t.get("k") == "MCall" and t["name"] == "collect" and is_local_self(t["recv"]) and "Result<" in (t.get("ty") or "")
        run.check(good, "R6.6", "IVPIterator::collect_vec", "collect-result", F.loc(cv[0]),
                  "collect_vec is not self.collect::<Result<Vec<_>, _>>() (type: %s)" % t.get("ty"))
    else:
        run.broken("R6.6", "IVPIterator::collect_vec", "anchor", "src/ivp.rs", "collect_vec not found")


def is_local_self(n):
    n = peel(n)
    return n.get("k") == "Local" and n["name"] == "self"


def check_no_panic(F, run):
    n = 0
    for bname in BUILDERS:
        for method in ["new", "new_dyn", "dim", "with_initial_conditions", "with_derivative", "solve"] + SETTERS:
            try:
                b = builder_fn(F, bname, method)
            except Missing:
                continue
            n += 1
            bad = []
            for x in walk(b["body"]):
                if x.get("k") == "MCall" and x["name"] in ("unwrap", "expect", "unwrap_unchecked"):
                    bad.append(("unwrap", x))
                if x.get("mac") in ("panic", "unreachable", "unimplemented", "todo", "assert", "assert_eq"):
                    bad.append((x.get("mac"), x))
                if x.get("k") == "Index":
                    bad.append(("index", x))
            run.check(not bad, "R6.7", "%s::%s" % (bname, method), "no-panic", F.loc(b, bad[0][1]) if bad else F.loc(b),
                      "builder method can panic: %s" % ", ".join("%s `%s`" % (w, pp(x)[:50]) for w, x in bad[:3]))
    run.floor("R6.7", "ivp", "builder methods scanned", n, 28)
    # default trait method with_initial_conditions_slice
    c = [b for b in F.bodies if b["name"] == "with_initial_conditions_slice"]
    for b in c:
        run.analysed(b)


def run(F, run, tier):
    for bname in BUILDERS:
        for m in SETTERS:
            try:
                check_setter(F, run, bname, m)
            except Missing as e:
                run.broken("R6.1", "%s::%s" % (bname, m), "anchor", "src/ivp", str(e))
        try:
            check_solve(F, run, bname)
            check_new(F, run, bname)
        except Missing as e:
            run.broken("R6.3", bname, "anchor", "src/ivp", str(e))
    check_dimension(F, run)
    check_user_errors(F, run)
    check_iterator(F, run)
    check_no_panic(F, run)
    run.assumptions += ["comparisons are over an ordered field (NaN arguments are outside the property's quantifier)",
                        "Euler::with_tolerance is a documented no-op (named exception)"]
    expl = ("Every path of the 20 setters is enumerated (loop-free bodies, comparisons-only domain) and checked against the builder "
            "contract (dedicated error on every path reachable with an invalid argument, exact field update and min<=max on every "
            "path reachable with a valid one); solve()/new()/new_dyn(), the Dimension impls, the From conversions, all call sites of "
            "the user derivative and the iterator protocol are checked structurally on the resolved HIR. The sequence semantics of the "
            "property follow by induction from the per-call contract.")
    return "other", expl, None
