"""Broyden's 'good' update of an inverse Jacobian in Sherman–Morrison form, checked on one loop iteration evaluated at a concrete small
dimension with symbolic matrices (shared by roots::secant — C08 R8.5 — and BDFSolver::secant — C03 R3.8).

With H the old inverse, s the last step and y the change of the function value, the new inverse H' is characterised by
  (i)  the secant equation  H'·y = s,   and
  (ii) H' − H = w·(sᵀH) for some column w (rank one, rows proportional to sᵀH);
then the new step is −H'·f(x) and the iterate advances by it; f is evaluated once, at the current iterate.
"""
import sympy as sp

from bsa import guards, paths, sym
from bsa.hir import Missing, peel, walk
from rules import c07
from rules.c08 import RInterp, NORM, loop_of


class BroydenInterp(RInterp):
    """One loop iteration of `secant` at a concrete dimension: vectors and matrices are sympy matrices of symbols, the user function
    returns a fresh symbolic vector per call."""
    DIM = 2

    def __init__(self, *a, **k):
        RInterp.__init__(self, *a, **k)
        self.fresh = []

    def num(self, v, n):
        if isinstance(v, sp.MatrixBase):
            return v
        return RInterp.num(self, v, n)

    def user_call(self, pl, args, n):
        k = len(self.fresh)
        v = sp.ImmutableMatrix(self.DIM, 1, [sp.Symbol("fnew%d_%d" % (k, i), real=True) for i in range(self.DIM)])
        self.fresh.append((pl, args, v))
        return v

    def binop(self, op, a, b, n):
        if isinstance(a, sp.MatrixBase) or isinstance(b, sp.MatrixBase):
            try:
                if op == "Add":
                    return sp.ImmutableMatrix(a + b)
                if op == "Sub":
                    return sp.ImmutableMatrix(a - b)
                if op == "Mul":
                    return sp.ImmutableMatrix(a * b)
                if op == "Div" and not isinstance(b, sp.MatrixBase):
                    return sp.ImmutableMatrix(a / b)
            except (sp.ShapeError, TypeError, ValueError) as e:
                raise sym.Unsupported(n, "matrix shapes: %s" % e)
            raise sym.Unsupported(n, "matrix op %s" % op)
        return RInterp.binop(self, op, a, b, n)

    def ev_MCall(self, n):
        name = n["name"]
        if name in ("transpose", "norm", "as_slice", "clone", "clone_owned", "into_owned", "norm_squared"):
            v = self.ev(n["recv"])
            if isinstance(v, sp.MatrixBase):
                if name == "transpose":
                    return sp.ImmutableMatrix(v.T)
                if name == "norm":
                    return NORM(sp.Symbol("vec[%s]" % ",".join(str(sp.simplify(x)) for x in v)[:60]))
                if name == "norm_squared":
                    return sum((x ** 2 for x in v), sp.Integer(0))
                return v
        return RInterp.ev_MCall(self, n)

    def ev_Index(self, n):
        base = self.ev(n["e"])
        if isinstance(base, sp.MatrixBase):
            idx = self.ev(n["i"])
            if isinstance(idx, tuple) and all(getattr(i, "is_Integer", False) for i in idx):
                return base[int(idx[0]), int(idx[1])]
            if getattr(idx, "is_Integer", False):
                return base[int(idx)]
            raise sym.Unsupported(n, "symbolic matrix index")
        return RInterp.ev_Index(self, n)


def _candidates(b, loop):
    """Mutable locals declared before the loop and written inside it, split into square-matrix typed and vector typed ones."""
    written = set()
    for n in walk(loop["body"]):
        if n.get("k") in ("Assign", "AssignOp") and peel(n["l"]).get("k") == "Local":
            written.add(peel(n["l"])["name"])
    mats, vecs = [], []
    for n in walk(b["body"]):
        if n.get("k") == "LetS" and n["pat"].get("k") == "Bind" and "Mut)" in n["pat"].get("mode", "") and n["pat"]["name"] in written:
            ty = n["pat"].get("ty") or ""
            if "Matrix<" not in ty:
                continue
            args = ty[ty.index("Matrix<") + 7:].split(",")
            is_vec = len(args) > 2 and ("Const<1>" in args[2] or "U1" in args[2])
            (vecs if is_vec else mats).append(n["pat"]["name"])
    return mats, vecs


class _Collect:
    """A stand-in for `run` that only records whether every obligation of one role assignment holds."""
    def __init__(self):
        self.ok_ = True

    def check(self, ok, *a, **k):
        self.ok_ = self.ok_ and bool(ok)
        return ok

    def broken(self, *a, **k):
        self.ok_ = False

    def fail(self, *a, **k):
        self.ok_ = False

    def floor(self, rule, dp, what, n, floor, *a, **k):
        self.ok_ = self.ok_ and n >= floor

    def analysed(self, *a, **k):
        pass

    def ok(self, *a, **k):
        pass


def check(F, run, b, rule, path, dim=2, names=("jac_inv", "shift", "func_eval", "guess")):
    """names = locals holding (inverse Jacobian, last step, last function value, iterate) at the loop head.  If those names are gone (renamed
    locals), the roles are re-discovered: every assignment of the loop-carried matrix / vector locals to the four roles is tried and one
    under which all obligations hold is accepted (the obligations are identities that no wrong assignment satisfies)."""
    import itertools
    run.analysed(b)
    st, loop = loop_of(b)
    have = {n["pat"]["name"] for n in walk(b["body"]) if n.get("k") == "LetS" and n["pat"].get("k") == "Bind"}
    if not set(names) <= have:
        mats, vecs = _candidates(b, loop)
        found = None
        if len(mats) >= 1 and 3 <= len(vecs) <= 5:
            for m_ in mats:
                for perm in itertools.permutations(vecs, 3):
                    probe = _Collect()
                    try:
                        _check_roles(F, probe, b, rule, path, dim, (m_,) + perm, st, loop)
                    except Exception:
                        probe.ok_ = False
                    if probe.ok_:
                        found = (m_,) + perm
                        break
                if found:
                    break
        if found:
            names = found
    return _check_roles(F, run, b, rule, path, dim, names, st, loop)


def check_zero_step(F, run, b, rule, path, dim, names, st, loop):
    """The Sherman–Morrison denominator sᵀ·H·y vanishes when the last step s is exactly zero (a start exactly on the root: f = 0, so the first step is
    −H·0 = 0, then y = 0 as well and the update is 0/0 — the inverse Jacobian becomes NaN and no later test can succeed).  Every division of the
    loop body whose denominator vanishes with the step must be unreachable with a zero step: each write to the step local, before the loop and inside
    it, is followed — before the division can run again — by a test of the step's magnitude that returns, or the division is guarded against a
    zero denominator."""
    from bsa import cfg, logic
    from rules.c08 import magnitude_args
    from bsa.hir import place, pp
    nH, ns, nf, nx = names
    BroydenInterp.DIM = d = dim
    H = sp.ImmutableMatrix(d, d, [sp.Symbol("H%d%d" % (i, j), real=True) for i in range(d) for j in range(d)])
    sv = sp.ImmutableMatrix(d, 1, [sp.Symbol("s%d" % i, real=True) for i in range(d)])
    fo = sp.ImmutableMatrix(d, 1, [sp.Symbol("fold%d" % i, real=True) for i in range(d)])
    x = sp.ImmutableMatrix(d, 1, [sp.Symbol("x%d" % i, real=True) for i in range(d)])
    vals = dict(c07.constant_locals(F, b))
    vals.update({nH: H, ns: sv, nf: fo, nx: x})
    divs = []

    class Log(BroydenInterp):
        def ev_Bin(self, n):
            v = BroydenInterp.ev_Bin(self, n)
            if n.get("op") == "Div":
                try:
                    den = self.ev(n["r"])
                    if isinstance(den, sp.Basic) and not isinstance(den, sp.MatrixBase):
                        divs.append((n, den))
                except Exception:
                    pass
            return v
    try:
        paths.explore(F, b, setup=c07.preset_all(b, vals), node=loop["body"], interp_cls=Log, limit=16)
    except sym.Unsupported as u:
        run.broken(rule, path, "zero-step", F.loc(b, loop), "cannot evaluate one iteration: %s" % u)
        return
    zero = {sym_: 0 for sym_ in sv}
    risky = []
    for n, den in divs:
        try:
            if sp.simplify(den.subs(zero)) == 0 and not any(n is r_ for r_ in risky):
                risky.append(n)
        except Exception:
            pass
    run.floor(rule, path, "divisions whose denominator vanishes with the step", len(risky), 1, F.loc(b, loop))
    if not risky:
        return

    def is_step_test(e):
        e = peel(e.get("e", e)) if e.get("k") in ("ExprS", "Semi") else peel(e)
        if e.get("k") != "If" or cfg.div(e["t"], ("Ret",)) != cfg.TRUE:
            return False
        it = RInterp(F, b, lambda c: False)
        c07.preset_all(b, {})(it)
        try:
            c = it.ev(e["c"])
        except Exception:
            return False
        if not isinstance(c, (sp.LessThan, sp.StrictLessThan, sp.GreaterThan, sp.StrictGreaterThan)):
            return False
        small = c.lhs if isinstance(c, (sp.LessThan, sp.StrictLessThan)) else c.rhs
        return any(a == sym.S(ns) for a in magnitude_args(small))

    def writes_step(stmt):
        for y in walk(stmt, into_closures=False):
            if y.get("k") in ("Assign", "AssignOp") and peel(y["l"]).get("k") == "Local" and peel(y["l"])["name"] == ns:
                return True
            if y.get("k") == "LetS" and y["pat"].get("k") == "Bind" and y["pat"].get("name") == ns and "init" in y:
                return True
        return False

    def tested_after_writes(seq, stop_at=None):
        """in the statement list `seq` (up to the statement containing `stop_at`, if given, else to the end): after the last write of the step, a test"""
        last_w, test_after = None, False
        for st_ in seq:
            if stop_at is not None and any(y is stop_at for y in walk(st_)):
                break
            if writes_step(st_):
                last_w, test_after = st_, False
            elif last_w is not None and is_step_test(st_):
                test_after = True
        return last_w, test_after
    top = list(b["body"]["stmts"])
    prefix = []
    for st_ in top:
        if any(y is loop for y in walk(st_)):
            break
        prefix.append(st_)
    body_seq = list(loop["body"]["stmts"]) + ([loop["body"]["expr"]] if loop["body"].get("expr") is not None else [])
    for dnode in risky:
        # (a) guarded against a zero denominator
        g = cfg.guards_of(b["body"], dnode)
        git = RInterp(F, b, lambda c: False)
        c07.preset_all(b, {})(git)
        lits = []
        for l in cfg.conj_lits(g):
            try:
                cv = git.ev(l[1])
                lits.append(cv if l[2] else sp.Not(cv))
            except Exception:
                pass
        guarded = False
        try:
            dsym = git.ev(dnode["r"])
            guarded = bool(lits) and isinstance(dsym, sp.Basic) and logic.unsat(sp.And(sp.And(*lits), sp.Eq(dsym, 0)))
        except Exception:
            pass
        # (b) a zero step cannot reach it: tested after the write in front of the loop (or at the head of the body, before the division), and after the write in the body
        w0, t0 = tested_after_writes(prefix)
        wh, th = tested_after_writes(body_seq, stop_at=dnode)          # a test at the head of the body, before the division, also covers the first pass
        head_test = any(is_step_test(st_) for st_ in body_seq[:next((i for i, st_ in enumerate(body_seq) if any(y is dnode for y in walk(st_))), 0)])
        w1, t1 = tested_after_writes(body_seq)
        first_ok = (w0 is not None and t0) or head_test
        later_ok = (w1 is None) or t1 or head_test
        run.check(guarded or (first_ok and later_ok), rule, path, "zero-step-division:" + pp(peel(dnode["r"]))[:30], F.loc(b, dnode),
                  "`%s` divides by a quantity that is exactly 0 when the last step is 0 (a start exactly on the root: f = 0, first step −H·0 = 0, then 0/0 poisons the inverse Jacobian "
                  "with NaN and the call ends in `maximum iterations exceeded`), and %s" % (pp(dnode)[:70],
                  "the first step, taken in front of the loop, is not tested against the tolerance before the update runs" if not first_ok else
                  "the step written in the loop body is not tested before the next update"),
                  sample="zero step cannot reach %s" % pp(dnode)[:50])


def _check_roles(F, run, b, rule, path, dim, names, st, loop):
    check_zero_step(F, run, b, rule, path, dim, names, st, loop) if not isinstance(run, _Collect) else None
    nH, ns, nf, nx = names
    BroydenInterp.DIM = d = dim
    H = sp.ImmutableMatrix(d, d, [sp.Symbol("H%d%d" % (i, j), real=True) for i in range(d) for j in range(d)])
    s = sp.ImmutableMatrix(d, 1, [sp.Symbol("s%d" % i, real=True) for i in range(d)])
    fo = sp.ImmutableMatrix(d, 1, [sp.Symbol("fold%d" % i, real=True) for i in range(d)])
    x = sp.ImmutableMatrix(d, 1, [sp.Symbol("x%d" % i, real=True) for i in range(d)])
    vals = dict(c07.constant_locals(F, b))
    vals.update({nH: H, ns: s, nf: fo, nx: x})
    try:
        lps = paths.explore(F, b, setup=c07.preset_all(b, vals), node=loop["body"], interp_cls=BroydenInterp, limit=16)
    except sym.Unsupported as u:
        run.broken(rule, path, "broyden", F.loc(b, u.node if isinstance(u.node, dict) else loop), "cannot evaluate one iteration at dimension %d: %s" % (d, u))
        return
    n = 0
    for p in lps:
        env = {nm: p.interp.env.get(i) for i, nm in p.interp.names.items()}
        H2, s2, fn, x2 = env.get(nH), env.get(ns), env.get(nf), env.get(nx)
        if not all(isinstance(v, sp.MatrixBase) for v in (H2, s2, fn, x2)) or not p.interp.fresh:
            run.broken(rule, path, "broyden", F.loc(b, loop), "state after one iteration is not a matrix state")
            return
        n += 1
        y = fn - fo
        # the function is evaluated once, at the current iterate
        fcalls = [fc for fc in p.interp.fresh if any(isinstance(a_, sp.MatrixBase) for a_ in fc[1])]
        if not fcalls:
            run.broken(rule, path, "broyden", F.loc(b, loop), "no function evaluation at a vector argument in the loop body (calls: %s)" % [fc[0] for fc in p.interp.fresh])
            return
        pl, args, v = fcalls[0]
        fn = v if len(fcalls) == 1 else fn
        at = next((a_ for a_ in args if isinstance(a_, sp.MatrixBase)), None)
        run.check(len(fcalls) == 1 and isinstance(at, sp.MatrixBase) and (at - x).is_zero_matrix, rule, path, "broyden:evaluated-at-iterate", F.loc(b, loop),
                  "the function is evaluated %d time(s), at %s; expected once at the current iterate" % (len(fcalls), at))
        sec = (H2 * y - s).applyfunc(lambda e: sp.cancel(sp.together(e)))
        run.check(sec.is_zero_matrix, rule, path, "broyden:secant-equation", F.loc(b, loop),
                  "the updated inverse Jacobian H' does not satisfy the secant equation H'·(f_new − f_old) = last step (%d×%d symbolic system, non-symmetric H): "
                  "defect component 0 = %s" % (d, d, str(sp.factor(sec[0]))[:160]), sample="H'·y = s")
        dH = (H2 - H).applyfunc(lambda e: sp.cancel(sp.together(e)))
        u = (s.T * H)
        minors = [sp.cancel(sp.together(dH[i, j] * u[0, k] - dH[i, k] * u[0, j])) for i in range(d) for j in range(d) for k in range(j + 1, d)]
        run.check(all(m == 0 for m in minors), rule, path, "broyden:rank-one-in-row-space-sTH", F.loc(b, loop),
                  "H' − H is not of the form w·(sᵀH): its rows are not proportional to sᵀH (Sherman–Morrison form of Broyden's update)", sample="H' − H = w·(sᵀH)")
        stp = (s2 + H2 * fn).applyfunc(lambda e: sp.cancel(sp.together(e)))
        run.check(stp.is_zero_matrix, rule, path, "broyden:step", F.loc(b, loop), "the new step is not −H'·f(x)", sample="step = −H'·f")
        run.check((x2 - x - s2).applyfunc(lambda e: sp.cancel(sp.together(e))).is_zero_matrix, rule, path, "broyden:iterate-update", F.loc(b, loop),
                  "the iterate is not advanced by the new step")
    run.floor(rule, path, "iteration paths", n, 1, F.loc(b))


