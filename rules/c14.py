"""C14 — polynomial root finding: closed forms, counting and deflation wiring (whether Laguerre iteration + deflation +
polishing find every root accurately is a numerical/global question and is not decided).

R14.1  closed forms: degree 1 returns −c0/c1; degree 2 returns the two values of the quadratic formula (each annihilates the
       polynomial, their sum and product are −c1/c2 and c0/c2); exactly 1 resp. 2 results.
R14.2  count: with the Laguerre loop abstracted to "a root G was found", the general branch returns exactly `degree` values
       (degrees 3, 4, 5): 1 + the recursive result, polished one-to-one.
R14.3  deflation wiring: the divisor is x − G, the recursion runs on the *quotient* (quotient·(x − G) + remainder = p), and every
       value is polished by Newton on the *original* polynomial.  Same three facts in hermite_zeros.
R14.4  guards: negligible leading coefficient ⇒ Err; non-zero constant ⇒ Err; exhausted iteration cap ⇒ Err.
R14.6  one Laguerre iteration (p, p', p'' at the iterate as free complex numbers): the step is n/(G ± √((n−1)(nH − G²))), the iterate
       is updated by x − a, and the sign is chosen by a test equivalent to |G+s| > |G−s| for *complex* values (a necessary condition
       for the iteration not to overshoot on non-real roots).
R14.5  base cases and wiring of legendre_zeros / hermite_zeros / laguerre_zeros (n = 0, 1; n zeros, real parts, for n >= 2).
"""
import sympy as sp

from bsa import cfg, sym, vecint
from rules import caps
from bsa.hir import Missing, callee, peel, pp, walk
from rules import polyint as PI
from rules.c11 import ref_mul, ref_add

LEVEL = "other"
X = sp.Symbol("x")
POLISH = sp.Function("polish")


class RootsInterp(vecint.VInterp):
    """Polynomial::roots with the Laguerre loop abstracted and Newton polishing uninterpreted."""

    # The Laguerre iteration — the loop (of any form, in `roots` or in a helper) that calls `evaluate_derivative` — is abstracted by its effect:
    #   converged: the iterate (the local the loop updates and evaluates the polynomial at) becomes a fresh symbol G_j and the loop's exit
    #              branch — the `if` on the residual whose body leaves the loop (`break` or `return …`) — is executed;
    #   exhausted (shared["exhaust"]): the loop ends without that exit: a `for` simply finishes, a counter loop leaves its counter at the cap.
    @staticmethod
    def is_laguerre_loop(n):
        return any(x.get("k") == "MCall" and x["name"] == "evaluate_derivative" for x in walk(n["body"]))

    def abstract_laguerre(self, n):
        lvl = self.shared.setdefault("laguerre", 0)
        self.shared["laguerre"] = lvl + 1
        body = n["body"]
        written = {}
        for x in walk(body, into_closures=False):
            if x.get("k") in ("Assign", "AssignOp") and peel(x["l"]).get("k") == "Local":
                written[peel(x["l"])["id"]] = peel(x["l"])["name"]
        at = set()
        for x in walk(body, into_closures=False):
            if x.get("k") == "MCall" and x["name"] in ("evaluate", "evaluate_derivative"):
                for a in x["args"]:
                    ap = peel(a)
                    if ap.get("k") == "Local":
                        at.add(ap["id"])
        iterate = [i_ for i_ in written if i_ in at]
        if len(iterate) != 1:
            raise sym.Unsupported(n, "Laguerre loop: cannot identify the iterate (locals updated and evaluated at: %s)" % sorted(written[i_] for i_ in iterate))
        if self.shared.get("exhaust") and lvl == 0:
            ok, form, why = caps.bounded_by_cap(self.body, n)
            if not ok:
                raise sym.Unsupported(n, "Laguerre loop is not bounded by the iteration cap: %s" % why)
            self.shared["cap_form"] = form
            if form == "up-counter":
                c = peel(n["c"])
                l, r = peel(c["l"]), peel(c["r"])
                cnt, cap = (l, r) if c["op"] in ("Lt", "Le") else (r, l)
                self.env[cnt["id"]] = self.ev(cap)
            elif form == "down-counter":
                c = peel(n["c"])
                cnt = peel(c["l"]) if peel(c["l"]).get("k") == "Local" else peel(c["r"])
                self.env[cnt["id"]] = sp.Integer(0)
            return None
        G = sp.Symbol("G%d" % lvl, real=True)
        self.env[iterate[0]] = G
        self.names[iterate[0]] = written[iterate[0]]
        exits = [st for st in body["stmts"] if (st.get("e") if st.get("k") in ("ExprS", "Semi") else {}).get("k") == "If"
                 and cfg.div((st["e"])["t"], ("Ret", "Break")) == cfg.TRUE]
        if len(exits) != 1:
            raise sym.Unsupported(n, "Laguerre loop: expected one residual test that leaves the loop, found %d" % len(exits))
        # the statements before the test bind what its body may use (the residual); they are pure evaluations of the polynomial at the iterate
        for st in body["stmts"]:
            if st is exits[0]:
                break
            self.run_stmt(st)
        try:
            self.ev(exits[0]["e"]["t"])
        except sym.Break as b:
            if b.target not in (None, n.get("id")):
                raise
        return None

    def ev_While(self, n):
        if self.is_laguerre_loop(n):
            return self.abstract_laguerre(n)
        return vecint.VInterp.ev_While(self, n)

    def ev_For(self, n):
        if self.is_laguerre_loop(n):
            return self.abstract_laguerre(n)
        return vecint.VInterp.ev_For(self, n)

    def ev_Loop(self, n):
        if self.is_laguerre_loop(n):
            return self.abstract_laguerre(n)
        return vecint.VInterp.ev_Loop(self, n)

    def ev_Call(self, n):
        d = callee(n) or ""
        if d == "roots::polynomial::newton_polynomial":
            args = [self.deref(self.ev(a)) for a in n["args"]]
            self.shared.setdefault("polish_calls", []).append((args[0], vecint.clone_val(args[1])))
            tag = len(self.shared["polish_calls"]) - 1
            return sym.Variant("Ok", [POLISH(args[0], sp.Integer(tag))])
        return vecint.VInterp.ev_Call(self, n)

    def inline_fn(self, body, args, n, consts=None):
        if body["name"] == "roots" and "Polynomial" in (body.get("impl_self") or ""):
            self.shared.setdefault("recursive_args", []).append(vecint.clone_val(args[0]))
        if body["name"] == "divide":
            self.shared.setdefault("divide_args", []).append((vecint.clone_val(args[0]), vecint.clone_val(args[1])))
        return vecint.VInterp.inline_fn(self, body, args, n, consts)


def call_roots(F, body, coeffs, k_value=None):
    tol, nmax = PI.TOL, sp.Symbol("n_max", integer=True, positive=True)
    it_shared = {}

    class RI(RootsInterp):
        pass
    v, it = PI.call(F, body, [PI.poly(coeffs), tol, nmax], seconds=90, cls=RI)
    return v, it


def check_closed_forms(F, run, roots):
    dp = "Polynomial::roots"
    where = F.loc(roots)
    c = PI.symbols("c", 3)
    try:
        v, it = call_roots(F, roots, c[:2])
        good = isinstance(v, sym.Variant) and v.name == "Ok" and len(v.args[0]) == 1 and sym.is_zero(v.args[0][0] + c[0] / c[1])
        run.check(good, "R14.1", dp, "linear", where, "degree 1 returns %r, expected [−c0/c1]" % (v,), sample="degree 1: −c0/c1")
        v, it = call_roots(F, roots, c)
        good = isinstance(v, sym.Variant) and v.name == "Ok" and len(v.args[0]) == 2
        if good:
            r1, r2 = v.args[0]
            p = lambda r: c[2] * r ** 2 + c[1] * r + c[0]
            good = sym.is_zero(sp.expand(p(r1))) and sym.is_zero(sp.expand(p(r2))) and sym.is_zero(sp.expand(r1 + r2 + c[1] / c[2])) and sym.is_zero(sp.expand(r1 * r2 - c[0] / c[2]))
        run.check(good, "R14.1", dp, "quadratic", where, "degree 2 does not return the two values of the quadratic formula: %r" % (v,), sample="degree 2: (−c1 ± √(c1² − 4 c2 c0)) / (2 c2)")
    except (sym.Unsupported, vecint.IndexPanic) as e:
        run.broken("R14.1", dp, "closed-forms", where, str(e))
    # complex coefficients, in particular a leading coefficient off the real axis ("random scalings of the leading coefficient"): exact Gaussian rationals
    # a·(x − r1)(x − r2) whose discriminant a²(r1 − r2)² has an exact square root
    a_, r1_, r2_ = 1 + sp.I, 1 + sp.I / 2, -2 + sp.I
    try:
        cc = [sp.expand(a_ * r1_ * r2_), sp.expand(-a_ * (r1_ + r2_)), a_]
        v, it = call_roots(F, roots, cc)
        good = isinstance(v, sym.Variant) and v.name == "Ok" and len(v.args[0]) == 2
        if good:
            got = [sp.simplify(sp.nsimplify(x)) for x in v.args[0]]
            good = (sym.is_zero(sp.simplify(got[0] - r1_)) and sym.is_zero(sp.simplify(got[1] - r2_))) or (sym.is_zero(sp.simplify(got[0] - r2_)) and sym.is_zero(sp.simplify(got[1] - r1_)))
        run.check(good, "R14.1", dp, "quadratic:complex-leading-coefficient", where,
                  "(1+i)(x − (1+i/2))(x − (−2+i)) does not give back its two roots: %r" % (v,), sample="degree 2, complex leading coefficient")
        lc = [1 + 3 * sp.I, 2 - sp.I]
        v, it = call_roots(F, roots, lc)
        good = isinstance(v, sym.Variant) and v.name == "Ok" and len(v.args[0]) == 1 and sym.is_zero(sp.simplify(v.args[0][0] + lc[0] / lc[1]))
        run.check(good, "R14.1", dp, "linear:complex", where, "degree 1 with complex coefficients returns %r, expected [−c0/c1]" % (v,), sample="degree 1, complex")
    except (sym.Unsupported, vecint.IndexPanic) as e:
        run.broken("R14.1", dp, "closed-forms:complex", where, str(e))


def check_general_branch(F, run, roots, tier):
    dp = "Polynomial::roots"
    where = F.loc(roots)
    for deg in (3, 4) + ((5,) if tier == "thorough" else ()):
        c = PI.symbols("c", deg + 1)
        inst = "degree=%d" % deg
        try:
            v, it = call_roots(F, roots, c)
        except (sym.Unsupported, vecint.IndexPanic) as e:
            run.broken("R14.2", dp, inst, where, str(e))
            continue
        sh = it.shared
        if not run.check(isinstance(v, sym.Variant) and v.name == "Ok", "R14.2", dp, "ok:" + inst, where, "general branch returns %r" % (v,)):
            continue
        out = list(v.args[0])
        run.check(len(out) == deg, "R14.2", dp, "count:" + inst, where, "%d values are returned for a polynomial of degree %d" % (len(out), deg),
                  sample="%s: %d values" % (inst, len(out)))
        # every value is polish(some candidate) on the ORIGINAL polynomial; the candidates are the Laguerre root and the recursion's results, one-to-one
        calls = sh.get("polish_calls", [])
        outer = [(cand, pol) for (cand, pol) in calls]
        last = outer[-deg:] if len(outer) >= deg else outer
        ok_poly = all(PI.same_poly(PI.coeffs(pol), c) for (_c, pol) in last) and len(last) == deg
        run.check(ok_poly, "R14.3", dp, "polish-on-original:" + inst, where, "the final Newton polishing does not run on the original polynomial for every root",
                  sample="%s: newton_polynomial(root, original polynomial)" % inst)
        outs_ok = all(isinstance(o, sp.Expr) and o.func == POLISH for o in out)
        cands = [o.args[0] for o in out] if outs_ok else []
        G0 = sp.Symbol("G0", real=True)
        run.check(outs_ok and cands and G0 in cands and len(set(map(str, cands))) == len(cands), "R14.2", dp, "one-to-one:" + inst, where,
                  "the returned values are not the polished Laguerre root together with the polished results of the recursion, one for one (the order is free: the result is a multiset)")
        # deflation: first divide call divides the original by x − G0, recursion runs on its quotient
        divs = sh.get("divide_args", [])
        recs = sh.get("recursive_args", [])
        if run.check(len(divs) >= 1 and len(recs) >= 1, "R14.3", dp, "deflates:" + inst, where, "no deflation / recursion found in the general branch"):
            dividend, divisor = divs[0]
            run.check(PI.same_poly(PI.coeffs(dividend), c) and PI.same_poly(PI.coeffs(divisor), [-G0, 1]), "R14.3", dp, "divisor=x-root:" + inst, where,
                      "the polynomial is deflated by %s instead of x − (found root)" % PI.coeffs(divisor), sample="%s: divide(p, x − G)" % inst)
            q = PI.coeffs(recs[0])
            # quotient·(x − G0) = p − remainder (remainder constant)
            prod = ref_mul(q, [-G0, 1])
            diff = [sp.expand(a - b) for a, b in zip(list(c), prod)]
            run.check(len(q) == deg and all(sym.is_zero(d) for d in diff[1:]), "R14.3", dp, "recursion-on-quotient:" + inst, where,
                      "the recursion does not run on the quotient of the deflation (quotient·(x − G) differs from p beyond the constant remainder)",
                      sample="%s: roots(quotient) with quotient·(x−G) + r = p" % inst)


def check_guards(F, run, roots):
    dp = "Polynomial::roots"
    where = F.loc(roots)
    c = PI.symbols("c", 3)
    ic = PI.with_imaginary_lead("c", 3)
    cases = [("zero-leading", [c[0], c[1], sp.Integer(0)], "Err"), ("nonzero-constant", [c[0]], "Err"), ("zero-constant", [sp.Integer(0)], "Ok"),
             ("imaginary-leading-is-not-zero", ic, "Ok"), ("imaginary-constant-is-not-zero", [ic[-1]], "Err")]
    for name, cs, want in cases:
        try:
            v, it = call_roots(F, roots, cs)
            run.check(isinstance(v, sym.Variant) and v.name == want, "R14.4", dp, name, where, "%s: returns %r, expected %s" % (name, v, want), sample="%s ⇒ %s" % (name, want))
        except (sym.Unsupported, vecint.IndexPanic) as e:
            run.broken("R14.4", dp, name, where, str(e))
    # iteration cap: the Laguerre iteration is bounded by n_max (rules/caps.py), and when it ends without its residual test having fired the result is Err
    try:
        tol, nmax = PI.TOL, sp.Symbol("n_max", integer=True, positive=True)

        class Capped(RootsInterp):
            pass
        it = Capped(F, roots)
        it.shared["exhaust"] = True
        it.if_hook = lambda i, n, cnd: PI.generic_decide(cnd)
        for p, a in zip(roots["params"], [PI.poly(PI.symbols("c", 4)), tol, nmax]):
            it.bind(p, a, roots)
        try:
            v = it.ev(roots["body"])
        except sym.Return as r:
            v = r.value
        run.check(isinstance(v, sym.Variant) and v.name == "Err", "R14.4", dp, "iteration-cap", where, "an exhausted Laguerre iteration returns %r instead of Err" % (v,), sample="cap exhausted ⇒ Err")
        run.check(it.shared.get("cap_form") is not None or it.shared.get("laguerre", 0) >= 1, "R14.4", dp, "laguerre-counter-loop", where, "the Laguerre iteration is not a loop bounded by n_max",
                  sample="Laguerre iteration: %s bounded by n_max" % it.shared.get("cap_form"))
    except (sym.Unsupported, vecint.IndexPanic) as e:
        msg = str(e)
        if "not bounded by the iteration cap" in msg:
            run.fail("R14.4", dp, "laguerre-counter-loop", where, "the Laguerre iteration is not a counter loop bounded by n_max: %s" % msg)
        else:
            run.broken("R14.4", dp, "iteration-cap", where, msg)


def nonzero_guard(c):
    """`|d| > 0`, `0 < |d|`, `|d| != 0` -> True (the branch for a non-vanishing d); `|d| == 0`, `|d| <= 0` -> False; anything else -> None."""
    if not isinstance(c, sp.core.relational.Relational):
        return None
    l, r = c.lhs, c.rhs

    def magnitude(x):
        # |d| (sympy writes the modulus of re + i·im with real parts as sqrt(re² + im²))
        return bool(x.free_symbols) and (isinstance(x, sp.Abs) or x.is_nonnegative is True or (x.is_Pow and x.exp == sp.Rational(1, 2)))
    if r == 0 and magnitude(l):
        if isinstance(c, (sp.StrictGreaterThan, sp.Ne)):
            return True
        if isinstance(c, (sp.Eq, sp.LessThan)):
            return False
    if l == 0 and magnitude(r):
        if isinstance(c, (sp.StrictLessThan, sp.Ne)):
            return True
        if isinstance(c, (sp.Eq, sp.GreaterThan)):
            return False
    return None
    if r == 0 and isinstance(l, sp.Abs) and l.free_symbols:
        if isinstance(c, (sp.StrictGreaterThan, sp.Ne)):
            return True
        if isinstance(c, (sp.Eq, sp.LessThan)):
            return False
    if l == 0 and isinstance(r, sp.Abs) and r.free_symbols:
        if isinstance(c, (sp.StrictLessThan, sp.Ne)):
            return True
        if isinstance(c, (sp.Eq, sp.GreaterThan)):
            return False
    return None


class LaguerreStep(vecint.VInterp):
    """One iteration of the Laguerre loop with p, p', p'' at the iterate as free symbols; the locals that hold G = p'/p and the
    square root are re-bound to free complex numbers after their formulas have been recorded (instance table: LAGUERRE_LOCALS)."""
    LAGUERRE_LOCALS = {"deriv_quotient": "G", "sqrt": "S"}

    def ev_MCall(self, n):
        if n["name"] == "evaluate" and (n.get("def") or "").startswith("polynomial::Polynomial"):
            return self.shared["P"]
        if n["name"] == "evaluate_derivative" and (n.get("def") or "").startswith("polynomial::Polynomial"):
            return (self.shared["dP"], self.shared["ddP"])
        if n["name"] == "abs" and not n["args"]:
            return sp.Abs(self.num(self.deref(self.ev(n["recv"])), n))
        return vecint.VInterp.ev_MCall(self, n)

    def bind(self, pat, val, node=None):
        if pat.get("k") == "Bind" and pat["name"] in self.LAGUERRE_LOCALS:
            self.shared.setdefault("formulas", {})[pat["name"]] = val
            val = self.shared["free"][self.LAGUERRE_LOCALS[pat["name"]]]
        return vecint.VInterp.bind(self, pat, val, node)

    def ev_If(self, n):
        c = self.ev(n["c"])
        nz = nonzero_guard(c)
        if nz is not None:
            # the guard against a vanishing denominator (`d.abs() > 0`): for generic G and s the denominator is not zero
            return self.ev(n["t"]) if nz else (self.ev(n["e"]) if "e" in n else None)
        if "e" in n and isinstance(c, sp.Basic) and c.atoms(sp.Symbol) & set(self.shared["free_parts"]):
            # the sign choice, as an if-expression (value chosen) or as an if-statement (different updates of a local): both branches are evaluated,
            # the alternatives are recorded, and the execution continues with the `then` branch
            env0 = dict(self.env)
            t = self.ev(n["t"])
            env_t = dict(self.env)
            self.env = dict(env0)
            e = self.ev(n["e"])
            env_e = dict(self.env)
            self.env = env_t
            if isinstance(t, sp.Expr) and isinstance(e, sp.Expr):
                self.shared.setdefault("choices", []).append((c, t, e))
                return t
            recorded = False
            for k_ in env_t:
                a_, b_ = env_t.get(k_), env_e.get(k_)
                if isinstance(a_, sp.Expr) and isinstance(b_, sp.Expr) and a_ != b_ and isinstance(env0.get(k_), sp.Expr):
                    # the choice is between two updates old ∓ step: record the steps
                    self.shared.setdefault("choices", []).append((c, sp.expand(env0[k_] - a_), sp.expand(env0[k_] - b_)))
                    recorded = True
            if recorded:
                return t
        if isinstance(c, sp.Basic) and c.has(self.shared["P"]):
            return None      # `if val.abs() < tol { break }`: not converged yet
        return vecint.VInterp.ev_If(self, n)

    def ev_Call(self, n):
        d = callee(n) or ""
        if d.split("::")[-1] in sym.FROM_PRIM and "Complex" in (n.get("ty") or ""):
            return sym.Variant("Some", [self.ev(n["args"][0])])
        return vecint.VInterp.ev_Call(self, n)


def cparts(name):
    return sp.Symbol(name + "_re", real=True) + sp.I * sp.Symbol(name + "_im", real=True)


PARTIAL_ON_REALS = ("sqrt", "ln", "log", "log2", "log10", "acos", "asin", "acosh", "atanh", "powf", "powc")
NONNEG_SOURCES = ("abs", "modulus", "modulus_squared", "norm", "norm_sqr", "norm1", "norm_squared")


def check_complex_domain(F, run, roots):
    """R14.7 — `roots` is generic over N, which may be a *real* field, and the quantities it takes square roots of (discriminants) have no
    fixed sign: every partial function must be applied in the complex type (or to a magnitude), else a negative discriminant gives NaN."""
    dp = "Polynomial::roots"
    n = 0
    # `roots` and the crate functions it calls (helpers extracted from it), transitively
    todo, seen, nodes = [roots], {id(roots)}, []
    while todo:
        bb = todo.pop()
        for c in walk(bb["body"]):
            nodes.append(c)
            d = callee(c) if c.get("k") == "Call" else (c.get("def") if c.get("k") == "MCall" else None)
            for hb in (F.by_path.get(d, []) if d else []):
                if id(hb) not in seen and hb["file"].startswith("src/polynomial") and hb["name"] not in ("roots", "divide", "evaluate", "evaluate_derivative", "derivative", "make_complex") \
                        and isinstance(hb.get("body"), dict):
                    seen.add(id(hb))
                    todo.append(hb)
    for c in nodes:
        if c.get("k") != "MCall" or c["name"] not in PARTIAL_ON_REALS:
            continue
        n += 1
        ty = c["recv"].get("ty") or ""
        inner = peel(c["recv"])
        nonneg = inner.get("k") == "MCall" and inner["name"] in NONNEG_SOURCES
        run.check("Complex<" in ty or nonneg, "R14.7", dp, "complex-domain:%s#%d" % (c["name"], n), F.loc(roots, c),
                  "`%s.%s()` is evaluated in the type %s, which is a real field when the coefficients are real: a negative argument (e.g. the discriminant "
                  "of a quadratic with a conjugate pair) gives NaN instead of a complex number" % (pp(c["recv"])[:60], c["name"], ty),
                  sample="%s applied in %s" % (c["name"], ty[:40]))
    run.floor("R14.7", dp, "partial-function sites", n, 2, F.loc(roots))


def check_make_complex(F, run):
    """R14.8 — the general branch works on `make_complex()` copies and deflates them with `divide`, which trims against the polynomial's zero
    tolerance: the complex copy must carry the coefficients *and the tolerance* of the original (a copy that falls back to the default 1e-10
    silently drops small leading coefficients, e.g. 1/14! of L_14, at every deflation)."""
    mc = PI.poly_method(F, "make_complex")
    run.analysed(mc)
    dp = "Polynomial::make_complex"
    T = sp.Symbol("tolP", positive=True)
    for n in (1, 3):
        a = PI.symbols("a", n)
        try:
            v, _ = PI.call(F, mc, [PI.poly(a, T)])
        except (sym.Unsupported, vecint.IndexPanic) as e:
            run.broken("R14.8", dp, "len=%d" % n, F.loc(mc), str(e))
            continue
        ok = isinstance(v, dict) or hasattr(v, "get")
        try:
            cs = PI.coeffs(v)
        except Missing:
            run.fail("R14.8", dp, "result:len=%d" % n, F.loc(mc), "make_complex does not return a polynomial")
            continue
        run.check(PI.same_poly(cs, a) and len(cs) == n, "R14.8", dp, "same-coefficients:len=%d" % n, F.loc(mc), "make_complex changes the coefficients: %s" % cs)
        run.check(v.get("tolerance") == T, "R14.8", dp, "keeps-tolerance:len=%d" % n, F.loc(mc),
                  "the complex copy has zero tolerance %s instead of the original's: deflation inside `roots` then trims with the wrong tolerance" % v.get("tolerance"),
                  sample="make_complex keeps (coefficients, tolerance)")


class _OneStep(Exception):
    def __init__(self, value):
        self.value = value


class FirstStep(RootsInterp):
    """`roots` executed exactly up to the end of the *first* Laguerre iteration (no abstraction of the loop): the iterate after one step."""
    def abstract_laguerre(self, n):
        body = n["body"]
        written, at = {}, set()
        for x in walk(body, into_closures=False):
            if x.get("k") in ("Assign", "AssignOp") and peel(x["l"]).get("k") == "Local":
                written[peel(x["l"])["id"]] = peel(x["l"])["name"]
            if x.get("k") == "MCall" and x["name"] in ("evaluate", "evaluate_derivative"):
                for a in x["args"]:
                    if peel(a).get("k") == "Local":
                        at.add(peel(a)["id"])
        iterate = [i_ for i_ in written if i_ in at]
        if len(iterate) != 1:
            raise sym.Unsupported(n, "Laguerre loop: cannot identify the iterate")
        if n.get("k") == "For":
            from bsa.hir import pat_binds
            for i_, nm in pat_binds(n["pat"]):
                self.env[i_], self.names[i_] = sp.Integer(0), nm
        try:
            self.ev(body)
        except (sym.Break, sym.Continue):
            pass
        raise _OneStep(self.env.get(iterate[0]))


def check_first_step_defined(F, run, roots):
    """R14.9 — the property's sparse polynomials x^n − c (n ≥ 3) have p'(0) = p''(0) = 0 at the start point of the Laguerre iteration, where G = 0 and
    the radicand (n−1)(n·H − G²) = 0: both candidate denominators G ± s vanish.  Executing the first iteration exactly on x^n − c, the new
    iterate must be a finite number (a step n/0 poisons the iterate with NaN and the call ends in `maximum iterations exceeded`)."""
    dp = "Polynomial::roots"
    where = F.loc(roots)
    c = sp.Symbol("c0", positive=True)
    for deg in (3, 4):
        coeffs = [-c] + [sp.Integer(0)] * (deg - 1) + [sp.Integer(1)]
        inst = "x^%d-c" % deg
        try:
            PI.call(F, roots, [PI.poly(coeffs), PI.TOL, sp.Symbol("n_max", integer=True, positive=True)], seconds=60, cls=FirstStep)
            run.broken("R14.9", dp, inst, where, "the general branch did not reach a Laguerre iteration for %s" % inst)
            continue
        except _OneStep as st:
            z1 = st.value
        except vecint.IndexPanic as e:
            run.fail("R14.9", dp, "panic:" + inst, where, "abstract execution panics: %s" % e.why)
            continue
        except (sym.Unsupported, vecint.Budget) as e:
            run.broken("R14.9", dp, inst, where, str(e))
            continue
        finite = isinstance(z1, sp.Basic) and not z1.has(sp.zoo, sp.nan, sp.oo, -sp.oo)
        run.check(finite, "R14.9", dp, "first-step-defined:" + inst, where,
                  "on %s the first Laguerre iteration from the start point 0 gives the iterate %s: p'(0) = p''(0) = 0 make both denominators G ± s zero and the step n/0 "
                  "is not a number — the iterate is poisoned and roots() returns Err(maximum iterations exceeded) for a polynomial the property requires Ok for" % (inst, z1),
                  sample="%s: first iterate %s" % (inst, str(z1)[:60]))


SQ = sp.Function("SQRT")


class LagSem(vecint.VInterp):
    """One Laguerre iteration with p(z), p'(z), p''(z) as symbols, the square root opaque (SQRT(E), with SQRT(E)² = E applied by the rule) and the
    magnitude comparison of the two denominators a path decision."""
    def ev_MCall(self, n):
        if n["name"] == "evaluate" and (n.get("def") or "").startswith("polynomial::Polynomial"):
            return self.shared["P"]
        if n["name"] == "evaluate_derivative" and (n.get("def") or "").startswith("polynomial::Polynomial"):
            return (self.shared["dP"], self.shared["ddP"])
        if n["name"] == "sqrt" and not n["args"]:
            return SQ(sp.expand(self.num(self.deref(self.ev(n["recv"])), n)))
        if n["name"] == "abs" and not n["args"]:
            return sp.Abs(self.num(self.deref(self.ev(n["recv"])), n))
        if n["name"] == "derivative" and (n.get("def") or "").startswith("polynomial::Polynomial"):
            return sym.Opaque("derivative polynomial")
        return vecint.VInterp.ev_MCall(self, n)

    def ev_Call(self, n):
        d = callee(n) or ""
        if d.split("::")[-1] in sym.FROM_PRIM and "Complex" in (n.get("ty") or ""):
            return sym.Variant("Some", [self.ev(n["args"][0])])
        return vecint.VInterp.ev_Call(self, n)


def check_laguerre_step_semantic(F, run, roots, only_exit=False):
    """R14.6 without names: the loop (wherever it lives) that calls `evaluate_derivative`; its iterate is the local it updates and evaluates the
    polynomial at; one iteration from z (not yet converged) must give z − n/(G ± S) with G = p'/p, S² = (n−1)(n·H − G²), H = G² − p''/p, the
    sign being the one whose denominator the path condition says is the larger."""
    dp = "Polynomial::roots"
    cands = []
    for b in F.bodies:
        if not b["file"].startswith("src/polynomial") or not isinstance(b.get("body"), dict):
            continue
        for n in walk(b["body"]):
            if n.get("k") in ("While", "For", "Loop") and RootsInterp.is_laguerre_loop(n):
                cands.append((b, n))
    if len(cands) != 1:
        run.broken("R14.6", dp, "laguerre-loop", F.loc(roots), "expected one loop that calls evaluate_derivative, found %d" % len(cands))
        return
    b, loop = cands[0]
    run.analysed(b)
    where = F.loc(b, loop)
    written, at = {}, set()
    for x in walk(loop["body"], into_closures=False):
        if x.get("k") in ("Assign", "AssignOp") and peel(x["l"]).get("k") == "Local":
            written[peel(x["l"])["id"]] = peel(x["l"])["name"]
        if x.get("k") == "MCall" and x["name"] in ("evaluate", "evaluate_derivative"):
            for a in x["args"]:
                if peel(a).get("k") == "Local":
                    at.add(peel(a)["id"])
    iterate = [i for i in written if i in at]
    if len(iterate) != 1:
        run.broken("R14.6", dp, "laguerre-step", where, "cannot identify the iterate of the Laguerre loop")
        return
    deg = 5
    P, dP, ddP, Z = sp.Symbol("P"), sp.Symbol("dP"), sp.Symbol("ddP"), sp.Symbol("Zk")
    nn = sp.Integer(deg)
    from bsa.hir import pat_binds as _pb
    has_self = any(nm == "self" for prm in b["params"] for _, nm in _pb(prm))
    if not has_self:
        # the loop lives in a helper that is handed the degree: n is that parameter (a symbol here), and every call of the helper must pass the number of
        # coefficients minus one of the polynomial being solved
        ints = [(k_, prm) for k_, prm in enumerate(b["params"]) if prm.get("k") == "Bind" and (prm.get("ty") or "") in ("usize", "u32", "u64", "i32", "i64")
                and any(x.get("k") == "Local" and x.get("id") == prm["id"] for x in walk(loop["body"]))]
        # the iteration cap is also an integer parameter, but the loop body does not read it
        if len(ints) != 1:
            run.broken("R14.6", dp, "laguerre-step", where, "the Laguerre loop is in %s, which does not take the degree as its one integer parameter read by the step" % b["path"])
            return
        k_deg, prm = ints[0]
        nn = sp.Symbol(prm["name"])
        sites = [(c_, x) for c_ in F.bodies if isinstance(c_.get("body"), dict) for x in walk(c_["body"]) if x.get("k") == "Call" and (callee(x) or "") == b["path"]]
        okw = bool(sites)
        for c_, x in sites:
            try:
                itc = vecint.VInterp(F, c_, None)
                itc.if_hook = lambda i, n_, c: PI.generic_decide(c)
                for q in c_["params"]:
                    for i_, nm in _pb(q):
                        itc.env[i_], itc.names[i_] = (PI.poly(PI.symbols("c", deg + 1)) if nm == "self" else sp.Symbol(nm)), nm
                for st in cfg.preceding_statements(c_["body"], x):
                    if st.get("k") == "LetS" and "init" in st and "Mut)" not in st["pat"].get("mode", "") and not any(y.get("k") in ("Try", "Ret") for y in walk(st["init"])):
                        try:
                            itc.run_stmt(st)
                        except Exception:
                            pass
                okw = okw and itc.ev(x["args"][k_deg]) == deg
            except Exception:
                okw = False
        if not run.check(okw, "R14.6", dp, "degree-argument", where, "%s is not called with the degree (number of coefficients − 1) of the polynomial being solved as its `%s`"
                         % (b["path"], prm["name"]), sample="helper receives n = degree"):
            return
    G = dP / P
    H = G ** 2 - ddP / P
    E_want = sp.expand((nn - 1) * (nn * H - G ** 2))
    n_paths = 0
    residual_tests = []
    for choice in ((True,) if only_exit else (True, False)):
        it = LagSem(F, b)
        it.shared.update({"P": P, "dP": dP, "ddP": ddP})
        asked = []

        def hook(i_, node, c, choice=choice, asked=asked):
            if nonzero_guard(c) is not None:
                return nonzero_guard(c)              # the guard against a vanishing denominator: generic values do not vanish
            if isinstance(c, sp.Basic) and c.has(sp.Abs) and c.has(SQ):
                asked.append(c)
                return choice
            if isinstance(c, sp.Basic) and c.has(P) and not c.has(SQ):
                if not (c.has(dP) or c.has(ddP)):
                    residual_tests.append(c)
                return False                    # the residual test: not converged yet
            return PI.generic_decide(c)
        it.if_hook = hook
        # bind what the loop body reads: self = a polynomial of the degree, every other local a symbol of its name, the iterate = Z
        from bsa.hir import pat_binds
        for prm in b["params"]:
            for i_, nm in pat_binds(prm):
                it.env[i_] = PI.poly(PI.symbols("c", deg + 1)) if nm == "self" else (PI.TOL if nm == "tol" else sp.Symbol(nm))
                it.names[i_] = nm
        for x in walk(b["body"]):
            if x.get("k") == "LetS":
                for i_, nm in pat_binds(x["pat"]):
                    if i_ not in it.env:
                        it.env[i_], it.names[i_] = sp.Symbol(nm), nm
        it.env[iterate[0]] = Z
        # loop-invariant lets in front of the loop (the degree as a complex number, the derivative polynomial): evaluate what can be evaluated
        for st in cfg.preceding_statements(b["body"], loop):
            if st.get("k") == "LetS" and "init" in st and "Mut)" not in st["pat"].get("mode", ""):
                try:
                    it.run_stmt(st)
                except Exception:
                    pass
        it.env[iterate[0]] = Z
        if loop.get("k") == "For":
            for i_, nm in pat_binds(loop["pat"]):
                it.env[i_], it.names[i_] = sp.Integer(0), nm
        try:
            it.ev(loop["body"])
        except (sym.Break, sym.Continue):
            pass
        except sym.Return as r:
            run.fail("R14.6", dp, "laguerre-step", where, "one not-yet-converged iteration leaves the function with %r" % (r.value,))
            return
        except (sym.Unsupported, vecint.IndexPanic) as e:
            run.broken("R14.6", dp, "laguerre-step", where, "cannot interpret one Laguerre iteration: %s" % e)
            return
        if only_exit:
            # R14.10 — the test that declares the iterate a root looks at p(z) only through comparisons; evaluated at sample values of the complex number
            # p(z) it must hold at 0 and fail whenever either part of p(z) is large: a test on one component accepts points that are nowhere near a root
            tol_s = [x for c_ in residual_tests for x in c_.free_symbols if x != P]
            if not run.check(len(residual_tests) >= 1, "R14.10", dp, "residual-test", where, "no test of p(z) against the tolerance was met in one Laguerre iteration"):
                return
            c_ = residual_tests[0]
            t_ = sp.Rational(1, 10)
            subs_t = {x: t_ for x in tol_s}
            samples = [("p(z)=0", sp.Integer(0), True), ("p(z)=1", sp.Integer(1), False), ("p(z)=i", sp.I, False), ("p(z)=-1", sp.Integer(-1), False),
                       ("p(z)=-i", -sp.I, False), ("p(z)=t/2+i", t_ / 2 + sp.I, False), ("p(z)=1+i*t/2", 1 + sp.I * t_ / 2, False)]
            bad = []
            for label, val, want in samples:
                try:
                    got = bool(sp.simplify(c_.subs(subs_t).subs(P, val)))
                except Exception:
                    got = None
                if got is not want:
                    bad.append("%s -> %s" % (label, got))
            run.check(not bad, "R14.10", dp, "residual-test-bounds-the-modulus", where,
                      "the test that accepts the iterate as a root (`%s`) does not bound |p(z)|: with tolerance 1/10 it gives %s — a value of p(z) with one large part is accepted, "
                      "the polynomial is deflated by a point that is not a root" % (str(c_)[:100], "; ".join(bad)), sample="exit test bounds |p(z)|")
            return
        znew = it.env.get(iterate[0])
        if not isinstance(znew, sp.Basic) or len(asked) != 1:
            run.fail("R14.6", dp, "sign-choice-site", where, "expected one choice between the two denominators by magnitude, found %d" % len(asked))
            return
        n_paths += 1
        a = sp.together(Z - znew)
        den = sp.together(nn / a)                       # must be G ± SQRT(E)
        roots_ = list(den.atoms(SQ))
        if not run.check(len(roots_) == 1, "R14.6", dp, "laguerre-formula", where, "the step %s does not have the form n/(G ± √·)" % str(a)[:120]):
            return
        E = sp.expand(roots_[0].args[0])
        okE = sym.is_zero(sp.expand(sp.together(E - E_want)))
        q = sp.together(den - G)                        # ±SQRT(E)
        Dv = sp.Symbol("D_")
        qn = sp.together(q.subs(roots_[0], Dv))
        okq = sym.is_zero(sp.together(qn - Dv)) or sym.is_zero(sp.together(qn + Dv))
        run.check(okE and okq, "R14.6", dp, "laguerre-formula", where,
                  "the step is not n/(G ± s) with G = p'/p and s² = (n−1)(n·H − G²), H = G² − p''/p: denominator %s, radicand %s" % (str(den)[:100], str(E)[:100]),
                  sample="a = n/(G ± s), s² = (n−1)(nH − G²)")
        # the comparison decided on this path says which of |G+s|, |G−s| is the larger: the denominator used must be that one
        c = asked[0]
        lhs = rhs = None
        if isinstance(c, (sp.StrictGreaterThan, sp.GreaterThan)):
            big, small = (c.lhs, c.rhs) if choice else (c.rhs, c.lhs)
        elif isinstance(c, (sp.StrictLessThan, sp.LessThan)):
            big, small = (c.rhs, c.lhs) if choice else (c.lhs, c.rhs)
        else:
            big = small = None
        good = False
        if big is not None and isinstance(big, sp.Abs):
            good = sym.is_zero(sp.together(big.args[0] - den)) or sym.is_zero(sp.together(big.args[0] + den))
        run.check(good, "R14.6", dp, "sign-maximises-denominator", where,
                  "under [%s is %s] the step divides by %s, which the comparison does not identify as the denominator of larger magnitude: the Laguerre step must "
                  "take the sign that maximises |G ± s| (the other one can be arbitrarily close to 0)" % (str(c)[:120], choice, str(den)[:80]),
                  sample="denominator = the larger of |G+s|, |G−s| (%s branch)" % choice)
    run.floor("R14.6", dp, "sign branches explored", n_paths, 2, where)


def check_laguerre_step(F, run, roots):
    dp = "Polynomial::roots"
    loops = [n for n in walk(roots["body"]) if n.get("k") == "While" and any(x.get("k") == "MCall" and x["name"] == "evaluate_derivative" for x in walk(n["body"]))]
    have = {x["pat"].get("name") for x in walk(roots["body"]) if x.get("k") == "LetS" and x["pat"].get("k") == "Bind"}
    if len(loops) != 1 or not ({"guess", "deriv_quotient", "sqrt"} <= have):
        # the instance table of the pinned tree (loop in `roots`, locals `guess` / `deriv_quotient` / `sqrt`) does not apply: decide the same
        # obligations without names
        return check_laguerre_step_semantic(F, run, roots)
    loop = loops[0]
    where = F.loc(roots, loop)
    deg = 5
    it = LaguerreStep(F, roots)
    P, dP, ddP, x = sp.Symbol("P"), sp.Symbol("dP"), sp.Symbol("ddP"), sp.Symbol("xk")
    g, sq = cparts("G"), cparts("S")
    it.shared.update({"P": P, "dP": dP, "ddP": ddP, "free": {"G": g, "S": sq}, "free_parts": list(g.free_symbols | sq.free_symbols)})
    it.if_hook = lambda i, n, c: PI.generic_decide(c)
    it.bind(roots["params"][0], PI.poly(PI.symbols("c", deg + 1)), roots)
    it.bind(roots["params"][1], PI.TOL, roots)
    it.bind(roots["params"][2], sp.Symbol("n_max", integer=True, positive=True), roots)
    from bsa.hir import pat_binds
    for n in walk(roots["body"]):
        if n.get("k") == "LetS":
            for i, nm in pat_binds(n["pat"]):
                if nm == "guess":
                    it.env[i], it.names[i] = x, nm
                elif nm == "k":
                    it.env[i], it.names[i] = sp.Integer(0), nm
                elif nm in ("complex", "derivative"):
                    it.env[i], it.names[i] = sp.Symbol(nm), nm
    # loop-invariant locals hoisted in front of the loop (e.g. the degree as a complex number): evaluate what can be evaluated
    from bsa import cfg
    for st in cfg.preceding_statements(roots["body"], loop):
        if st.get("k") == "LetS" and "init" in st and "Mut)" not in st["pat"].get("mode", ""):
            ids = [i for i, _ in pat_binds(st["pat"])]
            if any(i in it.env for i in ids):
                continue
            try:
                it.run_stmt(st)
            except Exception:
                pass
    try:
        it.ev(loop["body"])
    except (sym.Break, sym.Continue):
        pass
    except (sym.Unsupported, vecint.IndexPanic) as e:
        run.broken("R14.6", dp, "laguerre-step", where, "cannot interpret one Laguerre iteration: %s" % e)
        return
    xnew = None
    for i, nm in it.names.items():
        if nm == "guess":
            xnew = it.env.get(i)
    forms = it.shared.get("formulas", {})
    ch = it.shared.get("choices", [])
    if not run.check(set(forms) == set(LaguerreStep.LAGUERRE_LOCALS) and len(ch) == 1 and xnew is not None, "R14.6", dp, "sign-choice-site", where,
                     "expected the Laguerre locals %s and one choice between the two denominators (found locals %s, %d choices)" % (sorted(LaguerreStep.LAGUERRE_LOCALS), sorted(forms), len(ch))):
        return
    n_ = sp.Integer(deg)
    Gf = dP / P
    # the recorded square root was computed with the *free* G already substituted: S² must be (n−1)(n·H − G²), H = G² − p''/p
    H = g ** 2 - ddP / P
    s2 = (n_ - 1) * (n_ * H - g ** 2)
    okG = sym.is_zero(sp.simplify(forms["deriv_quotient"] - Gf))
    okS = sym.is_zero(sp.simplify(sp.expand(forms["sqrt"] ** 2) - sp.expand(s2)))
    run.check(okG and okS, "R14.6", dp, "laguerre-formula", where,
              "G or the square root is not p'/p resp. sqrt((n−1)(n·H − G²)) with H = G² − p''/p (G: %s, sqrt²: %s)" % (forms["deriv_quotient"], sp.simplify(forms["sqrt"] ** 2)),
              sample="G = p'/p, s = √((n−1)(nH − G²))")
    cond, a_t, a_e = ch[0]
    # the recorded alternatives are either the two steps n/(G±s) or the two denominators G±s themselves (then the division happens once, after the choice)
    pm_s = {sp.simplify(sp.expand(sq)), sp.simplify(sp.expand(-sq))}
    if {sp.simplify(sp.expand(a_t - g)), sp.simplify(sp.expand(a_e - g))} == pm_s:
        dens = [sp.simplify(a_t), sp.simplify(a_e)]
        a_t, a_e = n_ / a_t, n_ / a_e
    else:
        dens = [sp.simplify(n_ / a_t), sp.simplify(n_ / a_e)]
    okd = {sp.simplify(sp.expand(dens[0] - g)), sp.simplify(sp.expand(dens[1] - g))} == {sp.simplify(sp.expand(sq)), sp.simplify(sp.expand(-sq))}
    run.check(okd, "R14.6", dp, "step=n/(G±s)", where, "the two candidate steps are not n/(G+s) and n/(G−s): denominators %s, %s" % (dens[0], dens[1]), sample="a = n/(G ± s)")
    run.check(sym.is_zero(sp.simplify(xnew - (x - a_t))), "R14.6", dp, "update", where, "the iterate is not updated as x − a")
    # the sign choice must maximise the modulus of the denominator: cond ⇔ |den_then| > |den_else| as polynomial inequalities in the real parts
    good = False
    shown = str(cond)[:120]
    try:
        if isinstance(cond, (sp.Gt, sp.Ge, sp.Lt, sp.Le)):
            lhs, rhs = cond.lhs, cond.rhs
            if isinstance(cond, (sp.Lt, sp.Le)):
                lhs, rhs = rhs, lhs
            def nonneg(e):
                return e.func == sp.Abs or (isinstance(e, sp.Pow) and e.exp == sp.Rational(1, 2))

            def square(e):
                if e.func == sp.Abs:
                    return sp.expand(e.args[0] * sp.conjugate(e.args[0]), complex=True)
                return sp.expand(e.base)
            if nonneg(lhs) and nonneg(rhs):
                code = sp.expand(square(lhs) - square(rhs))      # both sides are moduli: compare their squares
            else:
                code = sp.expand(lhs - rhs, complex=True)
            wantp = sp.expand(dens[0] * sp.conjugate(dens[0]) - dens[1] * sp.conjugate(dens[1]), complex=True)
            code, wantp = sp.simplify(code), sp.simplify(wantp)
            if code != 0 and wantp != 0:
                ratio = sp.simplify(code / wantp)
                good = bool(ratio.is_number and ratio.is_positive)
    except Exception:
        good = False
    run.check(good, "R14.6", dp, "sign-maximises-denominator", where,
              "the choice between n/(G+s) and n/(G−s) is made by `%s`, which is not equivalent to |G+s| > |G−s| for complex iterates: the smaller denominator can be chosen, the step "
              "overshoots and the iteration runs out of iterations on polynomials with non-real roots" % shown, sample="choice: |G+s| > |G−s|")


class ZerosInterp(vecint.VInterp):
    def ev_MCall(self, n):
        if n["name"] == "roots" and (n.get("def") or "").startswith("polynomial::Polynomial"):
            P = self.deref(self.ev(n["recv"]))
            deg = len(PI.coeffs(P)) - 1
            self.shared["roots_poly"] = vecint.clone_val(P)
            return sym.Variant("Ok", [[sp.Symbol("Re%d" % i, real=True) + sp.I * sp.Symbol("Im%d" % i, real=True) for i in range(deg)]])
        return vecint.VInterp.ev_MCall(self, n)

    def ev_Call(self, n):
        d = callee(n) or ""
        if d == "roots::polynomial::newton_polynomial":
            args = [self.deref(self.ev(a)) for a in n["args"]]
            self.shared.setdefault("polish_calls", []).append((args[0], vecint.clone_val(args[1])))
            return sym.Variant("Ok", [POLISH(args[0], sp.Integer(len(self.shared["polish_calls"]) - 1))])
        return vecint.VInterp.ev_Call(self, n)

    def ev_MCall_numeric(self, n, rv):
        if n["name"] in ("cbrt",):
            return sp.cbrt(self.num(rv, n))
        return vecint.VInterp.ev_MCall_numeric(self, n, rv)


def check_zeros(F, run, tier):
    fams = {"legendre": (sp.legendre, "special::polynomial::legendre_zeros"), "hermite": (sp.hermite, "special::polynomial::hermite_zeros"),
            "laguerre": (sp.laguerre, "special::polynomial::laguerre_zeros")}
    tol, ptol, nmax = sp.Symbol("tol_z", positive=True), sp.Symbol("tol_p", positive=True), sp.Symbol("n_max", integer=True, positive=True)

    def hook(i, n, c):
        r = PI.generic_decide(c)
        return r
    for fam, (ref, path) in fams.items():
        b = F.fn(path)
        run.analysed(b)
        where = F.loc(b)
        for n in (0, 1):
            try:
                v, it = PI.call(F, b, [sp.Integer(n), tol, ptol, nmax], hook=hook, seconds=60, cls=ZerosInterp)
            except (sym.Unsupported, vecint.IndexPanic) as e:
                run.broken("R14.5", path, "n=%d" % n, where, str(e))
                continue
            want = [] if n == 0 else [sp.solve(ref(1, X), X)[0]]
            good = isinstance(v, sym.Variant) and v.name == "Ok" and len(v.args[0]) == len(want) and all(sym.is_zero(a - w) for a, w in zip(v.args[0], want))
            run.check(good, "R14.5", path, "base-case:n=%d" % n, where, "%s_zeros(%d) returns %r, expected %s" % (fam, n, v, want), sample="%s_zeros(%d) = %s" % (fam, n, want))
        for n in (2, 3, 4):
            try:
                v, it = PI.call(F, b, [sp.Integer(n), tol, ptol, nmax], hook=hook, seconds=90, cls=ZerosInterp)
            except (sym.Unsupported, vecint.IndexPanic) as e:
                run.broken("R14.5", path, "n=%d" % n, where, str(e))
                continue
            inst = "n=%d" % n
            if not run.check(isinstance(v, sym.Variant) and v.name == "Ok" and len(v.args[0]) == n, "R14.5", path, "count:" + inst, where,
                             "%s_zeros(%d) returns %r: not n values" % (fam, n, v), sample="%s_zeros(%d): %d values" % (fam, n, n)):
                continue
            want_poly = sp.Poly(ref(n, X), X).all_coeffs()[::-1]
            if fam in ("legendre", "laguerre"):
                P = it.shared.get("roots_poly")
                run.check(P is not None and PI.same_poly(PI.coeffs(P), want_poly) and P.get("tolerance") == ptol, "R14.5", path, "roots-of-the-right-polynomial:" + inst, where,
                          "the zeros are not computed from %s(%d) with the requested polynomial tolerance" % (fam, n))
                good = all(sym.is_zero(z - sp.Symbol("Re%d" % i, real=True)) for i, z in enumerate(v.args[0]))
                run.check(good, "R14.5", path, "real-parts:" + inst, where, "the returned zeros are not the real parts of the computed roots, in order")
            else:
                calls = it.shared.get("polish_calls", [])
                # per zero: newton on the deflator, then newton on the original polynomial
                good = len(calls) == 2 * n
                if good:
                    defl = want_poly
                    for i in range(n):
                        (z0, p0), (z1, p1) = calls[2 * i], calls[2 * i + 1]
                        first = POLISH(z0, sp.Integer(2 * i))
                        good = good and PI.same_poly(PI.coeffs(p1), want_poly) and sym.is_zero(z1 - first) and len(PI.coeffs(p0)) == n + 1 - i
                        if i == 0:
                            good = good and PI.same_poly(PI.coeffs(p0), want_poly)
                        good = good and sym.is_zero(v.args[0][i] - POLISH(first, sp.Integer(2 * i + 1)))
                run.check(good, "R14.5", path, "deflate-then-polish:" + inst, where,
                          "hermite_zeros does not refine each guess on the deflated polynomial and then polish it on the original polynomial, deflating by one degree per zero",
                          sample="hermite_zeros(%d): newton(deflator) → divide by (x − z) → newton(original)" % n)


def run(F, run, tier):
    roots = PI.poly_method(F, "roots")
    run.analysed(roots)
    check_closed_forms(F, run, roots)
    check_general_branch(F, run, roots, tier)
    check_guards(F, run, roots)
    check_laguerre_step(F, run, roots)
    check_laguerre_step_semantic(F, run, roots, only_exit=True)
    check_first_step_defined(F, run, roots)
    check_complex_domain(F, run, roots)
    check_make_complex(F, run)
    # hermite_zeros builds its start guesses from f32 constants (from_f32(1/3), from_f32(3.3721/∛6)): only the structure of the zero finders is
    # decided here, so the exact f32 values (huge dyadic rationals) are not modelled in this call
    sym.F32_EXACT = False
    try:
        check_zeros(F, run, tier)
    finally:
        sym.F32_EXACT = True
    run.assumptions += ["the Laguerre iteration is abstracted to 'a value G was found' and Newton polishing is uninterpreted: that they deliver *the* roots, one-to-one and accurately, "
                        "is numerical and not decided", "exact arithmetic, generic coefficients"]
    expl = ("Polynomial::roots is evaluated abstractly on symbolic coefficients: the closed forms for degree 1 and 2 are verified as identities; for degree 3–4(5) the Laguerre loop is "
            "abstracted and the count, the divisor x − G, the recursion on the quotient and the polishing on the original polynomial are verified; guards and the iteration cap give Err; "
            "the three *_zeros functions are checked for their base cases, the polynomial they solve, the number of zeros and hermite_zeros' deflate-then-polish wiring.")
    return "other", expl, None
