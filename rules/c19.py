"""C19 — finite-difference derivatives: exactness degree and classical remainder, decided from the stencil.

R19.1  the body of `derivative` / `second_derivative` is, in the lin-form domain, Σ_k c_k·f(x + k·h) with
       c_k ∈ Q(h) and every abscissa on the grid x + k·h (k rational): linear in f by construction.
R19.2  moment obligations in exact rationals: the functional reproduces the derivative of every monomial up
       to the stated degree (4 resp. 3) for symbolic h, and the Peano kernel of the extracted stencil has
       ∫|K| ≤ 1/30 (resp. 1/12), which is the stated remainder bound h^4·max|f^(5)|/30 (h^2·max|f^(4)|/12).
Not decided: the ε|f|/h rounding term.
"""
import sympy as sp
from sympy import Rational

from bsa import sym
from bsa.hir import Missing

LEVEL = "proof"

SPEC = [
    # def-path, derivative order, exact degree, remainder constant (bound = C·h^(deg+1-order)·max|f^(deg+1)|)
    ("differentiate::derivative", 1, 4, Rational(1, 30)),
    ("differentiate::second_derivative", 2, 3, Rational(1, 12)),
]


def stencil(F, run, path):
    b = F.fn(path)
    run.analysed(b)
    it = sym.Interp(F, b)
    x, h = sym.S("x"), sym.S("h")
    f = None
    try:
        e = it.ev(b["body"])
        f = it.fn_atoms.get("f")
    except sym.Unsupported as u0:
        # the lin-form reader does not cover this spelling (helpers, closures, Option combinators, arrays mapped over the function): the exact
        # evaluator does, with the user function as an atom
        from bsa import vecint
        from rules import polyint as PI

        class UserFn(vecint.VInterp):
            def user_call(self, pl, args, n):
                return sp.Function("f")(*[a for a in args if not isinstance(a, (sym.Opaque, sym.ClosureVal))])
        try:
            args = [sp.Symbol("userfn") if (prm.get("name") == "f") else sym.S(prm.get("name")) for prm in b["params"]]
            e, it2 = PI.call(F, b, args, cls=UserFn, seconds=60)
            f = sp.Function("f")
        except vecint.IndexPanic as pz:
            run.fail("R19.1", path, "panic", F.loc(b), "abstract execution panics: %s" % pz.why)
            return None
        except (sym.Unsupported, vecint.Budget) as u:
            run.broken("R19.1", path, "body", F.loc(b, u.node if isinstance(getattr(u, "node", None), dict) else None), "cannot put body in lin-form: %s (exact evaluator: %s)" % (u0, u))
            return None
    if f is None or not sym.atoms_of(e, f):
        run.broken("R19.1", path, "no-call", F.loc(b), "the user function is never called")
        return None
    atoms = sym.atoms_of(e, f)
    run.call_sites += len(atoms)
    try:
        coeffs, rest = sym.linear_coeffs(e, atoms)
    except ValueError as ve:
        run.fail("R19.1", path, "linear", F.loc(b), "result is not linear in the function values: %s" % ve)
        return None
    run.check(sym.is_zero(rest), "R19.1", path, "homogeneous", F.loc(b),
              "result has a term independent of f: %s" % rest, sample="no f-free term")
    pts = {}
    for a, c in zip(atoms, coeffs):
        if len(a.args) != 1:
            run.fail("R19.1", path, "arity", F.loc(b), "f called with %d arguments" % len(a.args))
            return None
        k = sp.simplify((a.args[0] - x) / h)
        if not k.is_Rational:
            run.fail("R19.1", path, "grid:" + str(a), F.loc(b), "abscissa %s is not on the grid x + k·h" % a.args[0])
            return None
        ak = sp.simplify(c)  # coefficient as a function of h
        if ak.free_symbols - {h}:
            run.fail("R19.1", path, "coeff:" + str(a), F.loc(b), "coefficient %s depends on more than h" % ak)
            return None
        pts[k] = pts.get(k, 0) + ak
        run.ok("R19.1", str(a), "%s·%s" % (ak, a))
    return b, pts, h


def peano_abs_integral(a, order, n):
    """∫|K(s)|ds for L[f] = Σ a_k f(k) − f^(order)(0), exact for degree ≤ n (scaled h = 1)."""
    s = sp.Symbol("s", real=True)
    ks = sorted(set(list(a.keys()) + [Rational(0)]))
    total = Rational(0)
    signs = set()
    for lo, hi in zip(ks[:-1], ks[1:]):
        # on (lo, hi): (k - s)_+ is k - s for k >= hi, 0 for k <= lo
        K = sum(c * (k - s) ** n for k, c in a.items() if k >= hi)
        if 0 >= hi:
            K -= sp.ff(n, order) * (0 - s) ** (n - order)
        K = sp.expand(K / sp.factorial(n))
        P = sp.Poly(K, s) if K != 0 else None
        cuts = [lo, hi]
        if P is not None:
            for r in sp.real_roots(P):
                if lo < r < hi:
                    cuts.append(r)
        cuts = sorted(set(cuts), key=lambda v: sp.N(v))
        for c0, c1 in zip(cuts[:-1], cuts[1:]):
            val = sp.integrate(K, (s, c0, c1))
            val = sp.nsimplify(val) if val.is_Rational is False else val
            if val != 0:
                signs.add(sp.sign(val))
            total += sp.Abs(val)
    return sp.simplify(total), len(signs) <= 1


def run(F, run, tier):
    for path, order, deg, C in SPEC:
        st = stencil(F, run, path)
        if st is None:
            continue
        b, pts, h = st
        where = F.loc(b)
        # scaled weights a_k = c_k·h^order must be pure numbers (homogeneity in h)
        a = {}
        homo = True
        for k, c in pts.items():
            v = sp.simplify(c * h ** order)
            if v.free_symbols:
                homo = False
            a[k] = v
        if not run.check(homo, "R19.2", path, "scaling", where,
                         "weights are not homogeneous of degree -%d in h: %s" % (order, pts),
                         sample="weights·h^%d = %s" % (order, {str(k): str(v) for k, v in sorted(a.items())})):
            continue
        for m in range(0, deg + 1):
            got = sum(c * k ** m for k, c in a.items())
            want = sp.factorial(m) if m == order else 0
            run.check(sp.simplify(got - want) == 0, "R19.2", path, "moment:%d" % m, where,
                      "applied to (t-x)^%d the formula gives %s·h^%d instead of %s: not exact on degree-%d polynomials"
                      % (m, got, m - order, want, deg), sample="Σ c_k k^%d = %s" % (m, got))
        m = deg + 1
        lead = sum(c * k ** m for k, c in a.items()) / sp.factorial(m)
        run.check(abs(lead) <= C, "R19.2", path, "leading-term", where,
                  "leading error constant %s exceeds the classical %s" % (lead, C),
                  sample="leading error term = %s·h^%d·f^(%d)" % (lead, m - order, m))
        try:
            integral, definite = peano_abs_integral(a, order, deg)
            run.check(integral <= C, "R19.2", path, "peano-bound", where,
                      "∫|Peano kernel| = %s exceeds %s: the remainder bound h^%d·max|f^(%d)|·%s does not hold"
                      % (integral, C, m - order, m, C),
                      sample="∫|K| = %s (sign-definite kernel: %s) ≤ %s" % (integral, definite, C))
        except Exception as e:
            run.broken("R19.2", path, "peano", where, "Peano kernel computation failed: %s" % e)
    run.floor("R19.1", "differentiate", "function evaluations in the two stencils", run.call_sites, 7)
    run.extra["exhaustive"] = True
    run.assumptions += ["real-number semantics of + - * / (rounding term ε|f|/h of the statement is not decided)",
                        "num_traits::FromPrimitive::from_f64(lit) denotes the decimal literal; from_real is the field embedding"]
    expl = ("Both stencils are extracted from the type-checked body as Σ c_k f(x+k h) with c_k in Q(h); exactness on "
            "monomials up to the stated degree and the Peano-kernel remainder constant are proved in exact rational "
            "arithmetic for symbolic x, h and an uninterpreted f — i.e. for every function, point and step.")
    return "proof", expl, {"checker_cmd": "./check C19 --tier " + tier,
                           "trusted_base": ["rustc nightly front end (resolution, typeck)", "facts-driver (serialisation)",
                                            "sympy exact rational arithmetic", "Peano kernel theorem"]}
