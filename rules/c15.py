"""C15 — Lagrange and Hermite interpolants reproduce their data (structure; exact arithmetic).

`interp::lagrange` and `interp::hermite` are evaluated abstractly (crate bodies inlined, exact arithmetic) on symbolic data:
R15.1  guards: mismatched slice lengths give Err.
R15.2  Lagrange: for n nodes the result has at most n coefficients and takes the value y_k at every node x_k, as an
       identity in symbolic nodes and values (n <= 2 symbolic nodes; n <= 5 with exact rational nodes in several orders).
R15.3  Hermite: at most 2n coefficients, value y_k and derivative d_k at every node.
R15.4  data sampled from a polynomial within the degree bound return that polynomial, whatever the order of the nodes;
       the post-processing only removes coefficients that are exactly negligible.
Not decided: conditioning-dependent coefficient accuracy in floating point.
"""
import itertools

import sympy as sp

from bsa import sym, vecint
from bsa.hir import Missing
from rules import polyint as PI

LEVEL = "other"
X = sp.Symbol("x", real=True)


def expr_of(cs):
    return sum(c * X ** k for k, c in enumerate(cs))


def run(F, run, tier):
    lag = F.fn("interp::lagrange")
    her = F.fn("interp::hermite")
    run.analysed(lag)
    run.analysed(her)
    tol = PI.TOL

    def call(body, args, inst, rule):
        try:
            v, it = PI.call(F, body, args, seconds=60)
            return v
        except vecint.IndexPanic as e:
            run.fail(rule, body["path"], "panic:" + inst, F.loc(body), "abstract execution panics: %s" % e.why)
        except sym.Unsupported as u:
            run.broken(rule, body["path"], inst, F.loc(body, u.node if isinstance(u.node, dict) else None), str(u))
        return None

    # guards
    v = call(lag, [PI.symbols("x", 3), PI.symbols("y", 2), tol], "mismatch", "R15.1")
    run.check(isinstance(v, sym.Variant) and v.name == "Err", "R15.1", "interp::lagrange", "length-mismatch", F.loc(lag), "mismatched lengths return %r" % (v,), sample="lagrange(3 xs, 2 ys) = Err")
    v = call(her, [PI.symbols("x", 2), PI.symbols("y", 3), PI.symbols("d", 2), tol], "mismatch-y", "R15.1")
    run.check(isinstance(v, sym.Variant) and v.name == "Err", "R15.1", "interp::hermite", "length-mismatch-values", F.loc(her), "mismatched lengths return %r" % (v,))
    v = call(her, [PI.symbols("x", 2), PI.symbols("y", 2), PI.symbols("d", 3), tol], "mismatch-d", "R15.1")
    run.check(isinstance(v, sym.Variant) and v.name == "Err", "R15.1", "interp::hermite", "length-mismatch-derivatives", F.loc(her), "mismatched lengths return %r" % (v,))

    node_sets = {}
    for n in (1, 2):
        node_sets["symbolic-%d" % n] = PI.symbols("x", n)
    rats = [sp.Rational(*t) for t in ((-3, 2), (1, 3), (2, 1), (-1, 5), (7, 4), (-2, 1))]
    nmax = 5 if tier == "thorough" else 4
    for n in range(2, nmax + 1):
        node_sets["rational-%d" % n] = rats[:n]
        node_sets["rational-%d-reversed" % n] = list(reversed(rats[:n]))
        node_sets["rational-%d-shuffled" % n] = rats[:n][1::2] + rats[:n][0::2]
    for name, xs in node_sets.items():
        n = len(xs)
        ys = PI.symbols("y", n)
        v = call(lag, [list(xs), list(ys), tol], name, "R15.2")
        if v is not None:
            if not (isinstance(v, sym.Variant) and v.name == "Ok"):
                run.fail("R15.2", "interp::lagrange", "result:" + name, F.loc(lag), "lagrange returns %r" % (v,))
            else:
                cs = PI.coeffs(v.args[0])
                run.check(len(cs) <= n, "R15.2", "interp::lagrange", "degree:" + name, F.loc(lag), "interpolant through %d points has %d coefficients" % (n, len(cs)))
                p = expr_of(cs)
                ok = PI.timed(lambda: all(sym.is_zero(p.subs(X, xk) - yk) for xk, yk in zip(xs, ys)), 30, False)
                run.check(ok, "R15.2", "interp::lagrange", "reproduces-values:" + name, F.loc(lag),
                          "the Lagrange interpolant does not take the given value at every node (%s)" % name, sample="lagrange %s: p(x_k) = y_k" % name)
        if n > 3 and name.startswith("rational") and tier != "thorough":
            continue
        ds = PI.symbols("d", n)
        v = call(her, [list(xs), list(ys), list(ds), tol], name, "R15.3")
        if v is not None:
            if not (isinstance(v, sym.Variant) and v.name == "Ok"):
                run.fail("R15.3", "interp::hermite", "result:" + name, F.loc(her), "hermite returns %r" % (v,))
            else:
                cs = PI.coeffs(v.args[0])
                run.check(len(cs) <= 2 * n, "R15.3", "interp::hermite", "degree:" + name, F.loc(her), "Hermite interpolant on %d nodes has %d coefficients" % (n, len(cs)))
                p = expr_of(cs)
                dp = sp.diff(p, X)
                okv = PI.timed(lambda: all(sym.is_zero(p.subs(X, xk) - yk) for xk, yk in zip(xs, ys)), 30, False)
                okd = PI.timed(lambda: all(sym.is_zero(dp.subs(X, xk) - dk) for xk, dk in zip(xs, ds)), 30, False)
                run.check(okv, "R15.3", "interp::hermite", "reproduces-values:" + name, F.loc(her), "the Hermite interpolant does not take the given value at every node (%s)" % name,
                          sample="hermite %s: p(x_k) = y_k" % name)
                run.check(okd, "R15.3", "interp::hermite", "reproduces-derivatives:" + name, F.loc(her),
                          "the Hermite interpolant does not have the given derivative at every node (%s)" % name, sample="hermite %s: p'(x_k) = d_k" % name)
    # data from a polynomial within the degree bound, nodes in several orders: the interpolant is that polynomial
    q = PI.symbols("q", 3)            # quadratic with symbolic coefficients
    qe = expr_of(q)
    for name in ("rational-4", "rational-4-reversed", "rational-4-shuffled"):
        xs = node_sets[name]
        ys = [qe.subs(X, xk) for xk in xs]
        v = call(lag, [list(xs), ys, tol], "poly-data:" + name, "R15.4")
        if v is not None and isinstance(v, sym.Variant) and v.name == "Ok":
            cs = PI.coeffs(v.args[0])
            run.check(PI.same_poly(cs, q) and len(cs) == 3, "R15.4", "interp::lagrange", "recovers-polynomial:" + name, F.loc(lag),
                      "interpolating a quadratic on 4 nodes gives %s (the negligible leading coefficient must be removed, nothing else)" % [str(sp.simplify(c)) for c in cs],
                      sample="lagrange(%s) of quadratic data = the quadratic" % name)
        ds = [sp.diff(qe, X).subs(X, xk) for xk in xs[:2]]
        v = call(her, [list(xs[:2]), ys[:2], ds, tol], "poly-data:" + name, "R15.4")
        if v is not None and isinstance(v, sym.Variant) and v.name == "Ok":
            cs = PI.coeffs(v.args[0])
            run.check(PI.same_poly(cs, q), "R15.4", "interp::hermite", "recovers-polynomial:" + name, F.loc(her),
                      "Hermite interpolation of a quadratic on 2 nodes gives %s" % [str(sp.simplify(c)) for c in cs])
    # concrete data whose intermediate (divided) differences vanish exactly while higher ones do not: a table filled with an early exit on a
    # negligible entry, or any shortcut keyed on zeros, shows up here and nowhere in generic symbolic data
    R = sp.Rational
    for label, xs_, poly in (("2x^2-x^3@0,1", [R(0), R(1)], [0, 0, 2, -1]), ("2x^2-x^3@1,0", [R(1), R(0)], [0, 0, 2, -1]),
                             ("x^4@-1,0,1", [R(-1), R(0), R(1)], [0, 0, 0, 0, 1]), ("x^5-x@0,1,-1", [R(0), R(1), R(-1)], [0, -1, 0, 0, 0, 1])):
        pe = expr_of(poly)
        ys_ = [pe.subs(X, xk) for xk in xs_]
        ds_ = [sp.diff(pe, X).subs(X, xk) for xk in xs_]
        v = call(her, [list(xs_), ys_, ds_, tol], "vanishing-differences:" + label, "R15.4")
        if v is not None:
            got = PI.coeffs(v.args[0]) if isinstance(v, sym.Variant) and v.name == "Ok" else None
            run.check(got is not None and PI.same_poly(got, poly), "R15.4", "interp::hermite", "recovers-polynomial:vanishing-differences:" + label, F.loc(her),
                      "Hermite data of %s (some intermediate divided differences are exactly 0) give %s" % (label, [str(c) for c in got] if got is not None else v),
                      sample="hermite recovers %s" % label)
    for label, xs_, poly in (("x^3-x@-1,0,1,2", [R(-1), R(0), R(1), R(2)], [0, -1, 0, 1]), ("x^3-x@2,1,0,-1", [R(2), R(1), R(0), R(-1)], [0, -1, 0, 1]),
                             ("x^2@-1,1,0", [R(-1), R(1), R(0)], [0, 0, 1])):
        pe = expr_of(poly)
        v = call(lag, [list(xs_), [pe.subs(X, xk) for xk in xs_], tol], "vanishing-differences:" + label, "R15.4")
        if v is not None:
            got = PI.coeffs(v.args[0]) if isinstance(v, sym.Variant) and v.name == "Ok" else None
            run.check(got is not None and PI.same_poly(got, poly), "R15.4", "interp::lagrange", "recovers-polynomial:vanishing-differences:" + label, F.loc(lag),
                      "Lagrange data of %s (some intermediate interpolants coincide) give %s" % (label, [str(c) for c in got] if got is not None else v),
                      sample="lagrange recovers %s" % label)
    # complex data from a polynomial with purely imaginary coefficients (real part exactly 0): a clean-up pass that looks at one part only erases them
    cq = [sp.Integer(1), sp.Integer(2) - sp.I, 3 * sp.I, sp.I / 2]      # 1 + (2 − i)x + 3i x² + (i/2) x³
    cqe = expr_of(cq)
    xs4 = node_sets["rational-4"]
    v = call(lag, [list(xs4), [sp.expand(cqe.subs(X, xk)) for xk in xs4], tol], "complex-poly-data", "R15.4")
    if v is not None:
        good = isinstance(v, sym.Variant) and v.name == "Ok" and PI.same_poly(PI.coeffs(v.args[0]), cq) and len(PI.coeffs(v.args[0])) == 4
        run.check(good, "R15.4", "interp::lagrange", "recovers-polynomial:complex-imaginary-coefficients", F.loc(lag),
                  "interpolating the complex cubic 1 + (2−i)x + 3i·x² + (i/2)·x³ on 4 nodes gives %s: purely imaginary coefficients are not negligible"
                  % ([str(c) for c in PI.coeffs(v.args[0])] if isinstance(v, sym.Variant) and v.name == "Ok" else v), sample="lagrange recovers a complex cubic with imaginary coefficients")
    xs2 = xs4[:2]
    v = call(her, [list(xs2), [sp.expand(cqe.subs(X, xk)) for xk in xs2], [sp.expand(sp.diff(cqe, X).subs(X, xk)) for xk in xs2], tol], "complex-poly-data", "R15.4")
    if v is not None:
        good = isinstance(v, sym.Variant) and v.name == "Ok" and PI.same_poly(PI.coeffs(v.args[0]), cq) and len(PI.coeffs(v.args[0])) == 4
        run.check(good, "R15.4", "interp::hermite", "recovers-polynomial:complex-imaginary-coefficients", F.loc(her),
                  "Hermite interpolation of the complex cubic 1 + (2−i)x + 3i·x² + (i/2)·x³ on 2 nodes gives %s: purely imaginary coefficients are not negligible"
                  % ([str(c) for c in PI.coeffs(v.args[0])] if isinstance(v, sym.Variant) and v.name == "Ok" else v), sample="hermite recovers a complex cubic with imaginary coefficients")
    run.assumptions += ["exact arithmetic with generic symbolic data; the conditioning-dependent accuracy in floating point is not decided",
                        "node counts up to %d; symbolic nodes up to 2" % nmax]
    expl = ("Both constructors are evaluated abstractly on symbolic values (and derivatives) over symbolic nodes (n <= 2) and exact rational nodes in sorted, reversed "
            "and shuffled order (n <= %d); the returned polynomial is shown to take the given values (and derivatives) at every node as an identity, to respect the "
            "degree bound, to return the generating polynomial for polynomial data, and mismatched lengths are shown to give Err." % nmax)
    return "other", expl, None
