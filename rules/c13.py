"""C13 — evaluation, calculus and coefficient access are mutually consistent (structure; exact arithmetic).

Abstract evaluation of the Polynomial methods on coefficient vectors of every length up to the bound, symbolic entries:
R13.1  index bounds: set_coefficient / purge_coefficient / get_coefficient never index out of bounds and change exactly the
       addressed power (purging a power the polynomial does not have changes nothing).
R13.2  Horner: evaluate(x) = Σ c_k x^k; evaluate_derivative(x) = (p(x), p'(x)).
R13.3  term-wise calculus: derivative, antiderivative(C), d/dx antiderivative = p, integrate(a,b) = F(b) − F(a), additivity.
R13.4  round trip: from_slice / get_coefficients; get_coefficient beyond the end is zero; order().
Not decided: the Horner rounding bound.
"""
import sympy as sp

from bsa import sym, vecint
from bsa.hir import Missing
from rules import polyint as PI

LEVEL = "other"


def poly_expr(cs, x):
    return sum(c * x ** k for k, c in enumerate(cs))


def run(F, run, tier):
    L = 8 if tier == "thorough" else 6
    x, lo, hi, mid, C = sp.Symbol("x", real=True), sp.Symbol("lo", real=True), sp.Symbol("hi", real=True), sp.Symbol("mid", real=True), sp.Symbol("C", real=True)
    M = {name: PI.poly_method(F, name) for name in ("evaluate", "evaluate_derivative", "derivative", "antiderivative", "integrate", "from_slice",
                                                     "get_coefficients", "get_coefficient", "set_coefficient", "purge_coefficient", "purge_leading", "order")}
    for b in M.values():
        run.analysed(b)

    def call(name, args, inst, rule):
        try:
            return PI.call(F, M[name], args)[0], True
        except vecint.IndexPanic as e:
            run.fail(rule, "Polynomial::" + name, "panic:" + inst, F.loc(M[name]), "abstract execution panics (%s): the method indexes/unwraps out of bounds" % e.why)
        except sym.Unsupported as u:
            run.broken(rule, "Polynomial::" + name, inst, F.loc(M[name], u.node if isinstance(u.node, dict) else None), str(u))
        return None, False

    cx = lambda nm: sp.Symbol(nm + "r", real=True) + sp.I * sp.Symbol(nm + "i", real=True)
    real_cfg = (x, lo, hi, mid, C)
    cplx_cfg = (cx("x"), cx("lo"), cx("hi"), cx("mid"), cx("C"))
    for n, kind in [(n, "real") for n in range(1, L + 1)] + [(3, "complex"), (4, "complex")]:
        # the complex configuration (coefficients, abscissa, constants with generic real and imaginary parts) exposes a dropped or conjugated part
        a = PI.symbols("a", n) if kind == "real" else PI.csymbols("a", n)
        x, lo, hi, mid, C = real_cfg if kind == "real" else cplx_cfg
        P = lambda: PI.poly(list(a))
        inst = "len=%d" % n if kind == "real" else "complex,len=%d" % n
        v, ok = call("evaluate", [P(), x], inst, "R13.2")
        if ok:
            run.check(sym.is_zero(v - poly_expr(a, x)), "R13.2", "Polynomial::evaluate", "horner:" + inst, F.loc(M["evaluate"]),
                      "evaluate(x) = %s is not Σ c_k x^k" % sp.expand(v), sample="%s: evaluate = Σ c_k x^k" % inst)
        v, ok = call("evaluate_derivative", [P(), x], inst, "R13.2")
        if ok:
            good = isinstance(v, tuple) and len(v) == 2 and sym.is_zero(v[0] - poly_expr(a, x)) and sym.is_zero(v[1] - sum(k * c * x ** (k - 1) for k, c in enumerate(a) if k >= 1))
            run.check(good, "R13.2", "Polynomial::evaluate_derivative", "value+derivative:" + inst, F.loc(M["evaluate_derivative"]),
                      "evaluate_derivative(x) = %s is not (p(x), p'(x))" % (tuple(sp.expand(t) for t in v) if isinstance(v, tuple) else v,),
                      sample="%s: (p, p')" % inst)
        v, ok = call("derivative", [P()], inst, "R13.3")
        if ok:
            want = [(k + 1) * a[k + 1] for k in range(n - 1)] or [0]
            run.check(PI.same_poly(PI.coeffs(v), want) and len(PI.coeffs(v)) == len(want), "R13.3", "Polynomial::derivative", "termwise:" + inst, F.loc(M["derivative"]),
                      "derivative coefficients %s, expected %s" % (PI.coeffs(v), want), sample="%s: d[j] = (j+1) c[j+1]" % inst)
        v, ok = call("antiderivative", [P(), C], inst, "R13.3")
        if ok:
            want = [C] + [a[k] / (k + 1) for k in range(n)]
            run.check(PI.same_poly(PI.coeffs(v), want) and len(PI.coeffs(v)) == n + 1, "R13.3", "Polynomial::antiderivative", "termwise:" + inst, F.loc(M["antiderivative"]),
                      "antiderivative coefficients %s, expected %s" % (PI.coeffs(v), want), sample="%s: A[0]=C, A[j+1] = c[j]/(j+1)" % inst)
            d, ok2 = call("derivative", [v], inst, "R13.3")
            if ok2:
                run.check(PI.same_poly(PI.coeffs(d), a), "R13.3", "Polynomial::derivative", "inverse-of-antiderivative:" + inst, F.loc(M["derivative"]),
                          "derivative(antiderivative(p)) != p")
        ZZ = sp.Symbol("ZZ")
        Fx = sum(c * ZZ ** (k + 1) / (k + 1) for k, c in enumerate(a))
        # concrete limits in both orders and coinciding (an implementation may legitimately branch on the order of its limits; with symbolic limits
        # such a branch is undecided, with concrete ones it is not)
        limit_cases = [(sp.Rational(1, 3), sp.Integer(2)), (sp.Integer(2), sp.Rational(1, 3)), (sp.Rational(-3, 2), sp.Rational(-3, 2)), (sp.Integer(-1), sp.Rational(5, 2))]
        n_conc = 0
        # complex limits: a generic pair, and pairs that share one part (a vertical and a horizontal path: a comparison of the limits by one component takes them for equal)
        complex_cases = [(sp.Rational(1, 3) + sp.I, sp.Integer(2)), (sp.Integer(2), sp.Rational(1, 3) + sp.I), (sp.Rational(1, 2) - sp.I, sp.Rational(1, 2) + sp.I * sp.Rational(3, 2)),
                         (sp.Rational(-1, 4) + 2 * sp.I, sp.Rational(3, 4) + 2 * sp.I)]
        for (la_, lb_) in limit_cases if kind == "real" else complex_cases:
            cinst = "%s,limits=(%s,%s)" % (inst, la_, lb_)
            try:
                vv = PI.call(F, M["integrate"], [P(), la_, lb_])[0]
            except vecint.IndexPanic as e:
                run.fail("R13.3", "Polynomial::integrate", "panic:" + cinst, F.loc(M["integrate"]), "abstract execution panics (%s)" % e.why)
                continue
            except sym.Unsupported as u:
                run.broken("R13.3", "Polynomial::integrate", cinst, F.loc(M["integrate"], u.node if isinstance(u.node, dict) else None), str(u))
                continue
            n_conc += 1
            run.check(sym.is_zero(vv - (Fx.subs(ZZ, lb_) - Fx.subs(ZZ, la_))), "R13.3", "Polynomial::integrate", "F(b)-F(a):" + cinst, F.loc(M["integrate"]),
                      "integrate(%s, %s) = %s is not F(upper) − F(lower) (reversed limits change the sign, equal limits give 0)" % (la_, lb_, sp.expand(vv)),
                      sample="%s: ∫ = F(hi) − F(lo)" % cinst)
        try:
            v, ok = PI.call(F, M["integrate"], [P(), lo, hi])[0], True
        except vecint.IndexPanic as e:
            run.fail("R13.3", "Polynomial::integrate", "panic:" + inst, F.loc(M["integrate"]), "abstract execution panics (%s)" % e.why)
            ok = False
        except sym.Unsupported as u:
            ok = False
            if "undecided condition" in str(u) and n_conc >= 2:
                run.observe("R13.3", F.loc(M["integrate"]), "integrate branches on its (symbolic) limits: decided on the concrete limit pairs only (%s)" % inst)
            else:
                run.broken("R13.3", "Polynomial::integrate", inst, F.loc(M["integrate"], u.node if isinstance(u.node, dict) else None), str(u))
        if ok:
            run.check(sym.is_zero(v - (Fx.subs(ZZ, hi) - Fx.subs(ZZ, lo))), "R13.3", "Polynomial::integrate", "F(b)-F(a):" + inst, F.loc(M["integrate"]),
                      "integrate(lo, hi) = %s is not F(hi) − F(lo)" % sp.expand(v), sample="%s: ∫ = F(hi) − F(lo)" % inst)
            v2, ok2 = call("integrate", [P(), lo, mid], inst, "R13.3")
            v3, ok3 = call("integrate", [P(), mid, hi], inst, "R13.3")
            if ok2 and ok3:
                run.check(sym.is_zero(v - v2 - v3), "R13.3", "Polynomial::integrate", "additive:" + inst, F.loc(M["integrate"]), "integral is not additive over adjacent intervals")
        # round trip
        hi_first = list(reversed(a))
        v, ok = call("from_slice", [hi_first], inst, "R13.4")
        if ok:
            run.check(PI.same_poly(PI.coeffs(v), a) and len(PI.coeffs(v)) == n, "R13.4", "Polynomial::from_slice", "highest-first:" + inst, F.loc(M["from_slice"]),
                      "from_slice stores %s for the slice %s" % (PI.coeffs(v), hi_first))
            g, ok2 = call("get_coefficients", [v], inst, "R13.4")
            if ok2:
                run.check(list(g) == hi_first, "R13.4", "Polynomial::get_coefficients", "round-trip:" + inst, F.loc(M["get_coefficients"]),
                          "get_coefficients(from_slice(s)) = %s, not s" % (g,), sample="%s: get_coefficients ∘ from_slice = id" % inst)
        o, ok = call("order", [P()], inst, "R13.4")
        if ok:
            run.check(o == n - 1, "R13.4", "Polynomial::order", inst, F.loc(M["order"]), "order() = %s for %d coefficients" % (o, n))
        for k in range(0, n + 3):
            ki = "%s,power=%d" % (inst, k)
            g, ok = call("get_coefficient", [P(), sp.Integer(k)], ki, "R13.1")
            if ok:
                run.check(g == (a[k] if k < n else 0), "R13.1", "Polynomial::get_coefficient", ki, F.loc(M["get_coefficient"]), "get_coefficient(%d) = %s" % (k, g))
            Pm = P()
            _, ok = call("set_coefficient", [Pm, sp.Integer(k), C], ki, "R13.1")
            if ok:
                want = list(a) + [0] * max(0, k + 1 - n)
                want[k] = C
                cs = PI.coeffs(Pm)
                run.check(len(cs) == len(want) and all(sym.is_zero(u - w) for u, w in zip(cs, want)), "R13.1", "Polynomial::set_coefficient", "exactly-that-power:" + ki,
                          F.loc(M["set_coefficient"]), "after set_coefficient(%d, C) the coefficients are %s, expected %s" % (k, cs, want),
                          sample="set_coefficient(%d) on %s" % (k, inst))
            Pm = P()
            _, ok = call("purge_coefficient", [Pm, sp.Integer(k)], ki, "R13.1")
            if ok:
                want = list(a)
                if k < n:
                    want[k] = 0
                cs = PI.coeffs(Pm)
                # as a polynomial: same coefficients up to trailing zeros; never empty
                padded = list(cs) + [0] * (len(want) - len(cs))
                good = len(cs) >= 1 and len(cs) <= len(want) and all(sym.is_zero(u - w) for u, w in zip(padded, want))
                run.check(good, "R13.1", "Polynomial::purge_coefficient", "exactly-that-power:" + ki, F.loc(M["purge_coefficient"]),
                          "after purge_coefficient(%d) on %d coefficients the polynomial is %s, expected %s (only that power removed; a power the polynomial does not have changes nothing)"
                          % (k, n, cs, want), sample="purge_coefficient(%d) on %s" % (k, inst))
        # purge_leading trims exact zeros only (generic coefficients stay), never empties
        Pm = PI.poly(list(a) + [sp.Integer(0), sp.Integer(0)])
        _, ok = call("purge_leading", [Pm], inst, "R13.1")
        if ok:
            run.check(PI.coeffs(Pm) == list(a), "R13.1", "Polynomial::purge_leading", "trims-zeros:" + inst, F.loc(M["purge_leading"]), "purge_leading gives %s" % PI.coeffs(Pm))
    # concrete tolerances: editing one power must not disturb small but non-zero neighbours (a tolerance-based trim hidden in an edit)
    T = sp.Rational(1, 10 ** 10)
    for label, cs0, tol_, k in (("lead-above-small", [sp.Integer(3), T / 2, sp.Integer(7)], T, 2), ("lead-above-quarter@tol=1/2", [sp.Integer(3), sp.Rational(1, 4), sp.Integer(7)], sp.Rational(1, 2), 2),
                                ("interior", [sp.Integer(3), sp.Integer(5), T / 2, sp.Integer(7)], T, 1), ("absent-power", [sp.Integer(3), T / 2], T, 4),
                                ("small-lead-other-power", [sp.Integer(3), sp.Integer(5), T / 2], T, 0), ("two-small-leads", [sp.Integer(3), sp.Integer(5), T / 2, -T / 4], T, 1)):
        Pm = PI.poly(list(cs0), tol_)
        _, ok = call("purge_coefficient", [Pm, sp.Integer(k)], label, "R13.1")
        if ok:
            want = list(cs0)
            if k < len(want):
                want[k] = 0
            cs = PI.coeffs(Pm)
            padded = list(cs) + [0] * (len(want) - len(cs))
            good = 1 <= len(cs) <= len(want) and all(sym.is_zero(u - w) for u, w in zip(padded, want))
            run.check(good, "R13.1", "Polynomial::purge_coefficient", "exactly-that-power:concrete-tolerance:" + label, F.loc(M["purge_coefficient"]),
                      "purge_coefficient(%d) on %s with zero tolerance %s leaves %s, expected %s: a coefficient other than the purged power was changed (tolerance-based trimming)"
                      % (k, [str(x) for x in cs0], tol_, [str(x) for x in cs], [str(x) for x in want]), sample="purge_coefficient(%d), %s" % (k, label))
        Pm = PI.poly(list(cs0), tol_)
        _, ok = call("set_coefficient", [Pm, sp.Integer(k), sp.Integer(9)], label, "R13.1")
        if ok:
            want = list(cs0) + [0] * max(0, k + 1 - len(cs0))
            want[k] = sp.Integer(9)
            cs = PI.coeffs(Pm)
            run.check(len(cs) == len(want) and all(sym.is_zero(u - w) for u, w in zip(cs, want)), "R13.1", "Polynomial::set_coefficient", "exactly-that-power:concrete-tolerance:" + label,
                      F.loc(M["set_coefficient"]), "set_coefficient(%d, 9) on %s with zero tolerance %s leaves %s, expected %s" % (k, [str(x) for x in cs0], tol_, [str(x) for x in cs], [str(x) for x in want]))
    # a written value is stored as given, however small, also above the current leading power
    for label, cs0, k, val in (("small-value-at-top", [sp.Integer(3), sp.Integer(5)], 4, T / 2), ("small-value-at-lead", [sp.Integer(3), sp.Integer(5), sp.Integer(7)], 2, T / 2)):
        Pm = PI.poly(list(cs0), T)
        _, ok = call("set_coefficient", [Pm, sp.Integer(k), val], label, "R13.1")
        if ok:
            want = list(cs0) + [0] * max(0, k + 1 - len(cs0))
            want[k] = val
            cs = PI.coeffs(Pm)
            run.check(len(cs) == len(want) and all(sym.is_zero(u - w) for u, w in zip(cs, want)), "R13.1", "Polynomial::set_coefficient", "stores-the-value:" + label,
                      F.loc(M["set_coefficient"]), "set_coefficient(%d, %s) on %s with zero tolerance %s leaves %s, expected %s" % (k, val, [str(x) for x in cs0], T, [str(x) for x in cs], [str(x) for x in want]))
    # complex coefficients: the negligibility test must look at both parts
    for n in (2, 3, 4):
        for kind, cs in (("imaginary-lead", PI.with_imaginary_lead("a", n)), ("complex", PI.csymbols("a", n))):
            inst = "%s,len=%d" % (kind, n)
            Pm = PI.poly(list(cs))
            _, ok = call("purge_leading", [Pm], inst, "R13.1")
            if ok:
                run.check(len(PI.coeffs(Pm)) == n, "R13.1", "Polynomial::purge_leading", "keeps-non-negligible:" + inst, F.loc(M["purge_leading"]),
                          "purge_leading removes a leading coefficient that is not negligible (%s): %d of %d coefficients left" % (kind, len(PI.coeffs(Pm)), n),
                          sample="purge_leading keeps %s" % inst)
            Pm = PI.poly(list(cs) + [sp.Integer(0)])
            _, ok = call("purge_leading", [Pm], inst + "+0", "R13.1")
            if ok:
                run.check(len(PI.coeffs(Pm)) == n, "R13.1", "Polynomial::purge_leading", "trims-only-zeros:" + inst, F.loc(M["purge_leading"]),
                          "purge_leading on (%s, 0) leaves %d coefficients, expected %d" % (kind, len(PI.coeffs(Pm)), n))
            v, ok = call("evaluate", [PI.poly(list(cs)), x], inst, "R13.2")
            if ok:
                run.check(sym.is_zero(sp.expand(v - poly_expr(cs, x))), "R13.2", "Polynomial::evaluate", "horner:" + inst, F.loc(M["evaluate"]), "evaluate on complex coefficients is not Σ c_k x^k")
            v, ok = call("make_complex", [PI.poly(list(cs))], inst, "R13.4") if "make_complex" in M else (None, False)
    Pm = PI.poly([sp.Integer(0), sp.Integer(0)])
    _, ok = call("purge_leading", [Pm], "zero", "R13.1")
    if ok:
        run.check(len(PI.coeffs(Pm)) == 1, "R13.1", "Polynomial::purge_leading", "keeps-one", F.loc(M["purge_leading"]), "purge_leading on the zero polynomial leaves %s" % PI.coeffs(Pm))
    run.extra["length_bound"] = L
    run.assumptions += ["exact arithmetic; lengths up to %d (the loops are index-uniform)" % L, "generic coefficients for tolerance comparisons"]
    expl = ("Every Polynomial accessor/calculus method is evaluated abstractly for every coefficient count up to %d with symbolic coefficients and compared with "
            "exact term-wise calculus (sympy); coefficient editing is evaluated for every power from 0 to len+2, where an out-of-bounds index or an unwrap on None "
            "in the abstract execution is reported as a panic." % L)
    return "other", expl, None
