"""C01 — IVP paths are ordered, gap-bounded and reach the end time: the control skeleton of the four step()
functions and of IVPIterator::next, decided exactly.  Strict monotonicity under rounding, finiteness and
dimension of the states are run-time facts and are not decided.

R1.1  iterator protocol (shared with C06-R6.6).
R1.2  end handling: the `time >= end ⇒ Done` test dominates every derivative evaluation and every write to
      time/state; the final-step clip `time + dt >= end ⇒ dt := end − time` precedes the step (RK, Euler); for
      the multistep solvers the typestate exploration proves that no path advances further than what the
      end tests on that path allow (no overshoot) — with the clip's own m.
R1.3  step-size writes: every write to self.dt is a clip, a shrink, a clamp, or a possibly-growing update that is
      followed by the clamp `dt > dt_max ⇒ dt := dt_max` before any return; solve() starts from a convex
      combination of dt_min and dt_max.
R1.4  typestate of yield_memory (Adams 3/5, BDF 2/6): exhaustive exploration of the abstract transition system;
      T1 no buffered start-up point is dropped or overtaken, T2 points are yielded once and in order,
      T3 a rejected start-up restores exactly the saved position.
R1.5  every yielded or stored (t, y) is a coherent pair.
"""
import sympy as sp

from bsa import cfg, nalg, sym
from bsa.hir import Missing, callee, peel, place, pp, walk, walk_with_parents
from rules import c06
from rules import ivp_model as M
from rules import proto

LEVEL = "other"

STEPPERS = {
    "Euler": ("ivp::EulerSolver<", False),
    "RungeKutta": ("ivp::rk::RungeKuttaSolver<", True),
    "Adams": ("ivp::adams::AdamsSolver<", True),
    "BDF": ("ivp::bdf::BDFSolver<", True),
}


def cond_sym(F, body, node):
    """Condition node -> sympy relational over field symbols (self.x -> x), or None."""
    it = nalg.NInterp(F, body, {})
    for nm in ("time", "dt", "end", "tolerance", "dt_max", "dt_min"):
        it.fields["self." + nm] = sym.S(nm)
    for nm in ("one_tenth", "four", "two", "half"):
        it.fields["self." + nm] = sym.S(nm)
    # plain lets in front of the condition that only read fields (`let (start, end) = (self.time.real(), self.end.real())`): bound so that the condition can be
    # read through them; anything that may write a field in between makes what was bound so far stale, and it is forgotten
    try:
        prior = cfg.preceding_statements(body["body"], node)
    except Exception:
        prior = []
    for st in prior:
        if st.get("k") == "LetS" and "init" in st and "els" not in st and not any(
                x.get("k") in ("Try", "Closure", "Assign", "AssignOp", "Ret", "Loop", "While", "For", "Macro") or (x.get("k") == "Call" and "ovl" in x)
                or (x.get("k") == "MCall" and x["name"] not in ("real", "clone", "to_owned", "abs", "modulus", "min", "max")) or (x.get("k") == "Call" and "ovl" not in x and x.get("args"))
                for x in walk(st["init"])):
            try:
                it.run_stmt(st)
            except Exception:
                pass
        elif any(x.get("k") in ("Assign", "AssignOp") or (x.get("k") == "MCall" and place(x.get("recv") or {}) == "self") or (x.get("k") == "Ref" and x.get("mut"))
                 for x in walk(st, into_closures=False)):
            it = nalg.NInterp(F, body, {})
            for nm in ("time", "dt", "end", "tolerance", "dt_max", "dt_min", "one_tenth", "four", "two", "half"):
                it.fields["self." + nm] = sym.S(nm)
    try:
        return it.ev(node)
    except sym.Unsupported:
        return None
    except Exception:
        return None


def is_time_ge_end(F, body, c):
    v = cond_sym(F, body, c)
    return isinstance(v, (sp.Ge, sp.Gt)) and sym.is_zero((v.lhs - v.rhs) - (sym.S("time") - sym.S("end")))


def has_guard(F, body, g, pred, polarity):
    """The guard formula `g` (a conjunction) contains a literal satisfying pred with that polarity."""
    if g[0] == "lit":
        return g[2] is polarity and pred(g[1])
    if g[0] == "and":
        return any(has_guard(F, body, x, pred, polarity) for x in g[1])
    return False


def check_end_handling(F, run, sname):
    prefix, adaptive = STEPPERS[sname]
    b = M.method_of(F, prefix, "IVPStepper", "step")
    run.analysed(b)
    dp = sname + "Solver::step"
    # Done return guarded by time >= end
    dones = []
    for n in walk(b["body"], into_closures=False):
        if n.get("k") == "Ret" and "e" in n and "IVPStatus::Done" in pp(n["e"]):
            dones.append(n)
    ok = False
    for n in dones:
        g = cfg.guards_of(b["body"], n)
        if has_guard(F, b, g, lambda c: is_time_ge_end(F, b, c), True):
            ok = True
    run.check(ok and len(dones) == 1, "R1.2a", dp, "done-iff-at-end", F.loc(b),
              "step() must return Err(Done) exactly under `time >= end` (found %d Done returns)" % len(dones), sample="%s: Done under time >= end" % dp)
    # everything that evaluates f or moves the solution is behind the negated test
    n_sites = 0
    for n in walk(b["body"], into_closures=False):
        k = n.get("k")
        site = None
        if k == "Call" and "ovl" in n and (place(n["f"]) or "").endswith(".derivative"):
            site = "derivative call"
        elif k == "MCall" and n["name"] in ("runge_kutta", "secant") and place(n["recv"]) == "self":
            site = n["name"]
        elif k in ("Assign", "AssignOp") and place(n["l"]) in ("self.time", "self.state"):
            site = "write to " + place(n["l"])
        if site is None:
            continue
        n_sites += 1
        g = cfg.guards_of(b["body"], n)
        run.check(has_guard(F, b, g, lambda c: is_time_ge_end(F, b, c), False), "R1.2a", dp, "behind-end-test:%s#%d" % (site, n_sites), F.loc(b, n),
                  "%s is not dominated by the `time >= end ⇒ Done` test: the solver can move past the end time" % site)
    run.floor("R1.2a", dp, "guarded sites", n_sites, {"Euler": 2, "RungeKutta": 2, "Adams": 3, "BDF": 3}[sname], F.loc(b))
    # clip for the single-step solvers
    if sname in ("Euler", "RungeKutta"):
        clips = []
        for n in walk(b["body"], into_closures=False):
            if n.get("k") == "If" and "e" not in n:
                c = cond_sym(F, b, n["c"])
                if isinstance(c, (sp.Ge, sp.Gt)) and sym.is_zero((c.lhs - c.rhs) - (sym.S("time") + sym.S("dt") - sym.S("end"))):
                    asg = [x for x in walk(n["t"]) if x.get("k") == "Assign" and place(x["l"]) == "self.dt"]
                    if len(asg) == 1:
                        v = cond_sym(F, b, asg[0]["r"])
                        if v is not None and sym.is_zero(v - (sym.S("end") - sym.S("time"))):
                            clips.append(n)
        if run.check(len(clips) == 1, "R1.2b", dp, "final-step-clip", F.loc(b),
                     "expected exactly one `if time + dt >= end { dt = end - time }`, found %d" % len(clips), sample="%s clips the last step to the end time" % dp):
            clip = clips[0]
            for n in walk(b["body"], into_closures=False):
                if n.get("k") == "Call" and "ovl" in n and (place(n["f"]) or "").endswith(".derivative"):
                    run.check(cfg.precedes(b["body"], clip, n), "R1.2b", dp, "clip-before-step", F.loc(b, n),
                              "the final-step clip does not precede the derivative evaluation")
                if n.get("k") == "AssignOp" and place(n["l"]) == "self.time":
                    run.check(cfg.precedes(b["body"], clip, n), "R1.2b", dp, "clip-before-advance", F.loc(b, n),
                              "the final-step clip does not precede the time advance")
    return b


SPOS = sp.Symbol("s_excess", positive=True)


def lt_one(f):
    """Sound 'f <= 1' for positive quantities by monotone rules (ratio, positive power, product)."""
    f = sp.simplify(f)
    if f.is_number:
        return bool(f <= 1)
    if isinstance(f, sp.Pow):
        B, E = f.args
        if not B.is_positive:
            return False
        if E.is_positive:
            return lt_one(B)
        if E.is_negative:
            return bool(sp.simplify(B - 1).is_nonnegative)
        return False
    if isinstance(f, sp.Mul):
        return all(lt_one(x) for x in f.args)
    d = sp.simplify(1 - f)
    return bool(d.is_nonnegative)


def strict_lt_one(f, s_=None):
    """Sound 'there is a constant c < 1 with f <= c' (f bounded away from 1) for positive quantities, uniformly in the excess
    symbol s_ (error = tol·(1+s_), s_ > 0); other symbols (order) are positive run-time constants."""
    f = sp.simplify(f)
    if f.is_number:
        return bool(0 < f < 1)
    if isinstance(f, sp.Pow):
        B, E = f.args
        if s_ is not None and E.has(s_):
            return False
        if not B.is_positive:
            return False
        if E.is_positive:
            return strict_lt_one(B, s_)
        if E.is_negative:
            # B^E with B >= c > 1 uniformly
            return strict_lt_one(1 / B, s_) if not isinstance(1 / B, sp.Pow) or (1 / B) != f else False
        return False
    if isinstance(f, sp.Mul):
        return all(lt_one(x) for x in f.args) and any(strict_lt_one(x, s_) for x in f.args)
    if s_ is not None and f.has(s_):
        try:
            c = sp.limit(f, s_, 0, "+")
        except Exception:
            return False
        if c.is_number and 0 < c < 1 and bool(sp.simplify(c - f).is_nonnegative):
            return True
    return False


def local_def(body, local_id, before):
    """The single `let` that defines a local (no reassignment anywhere), if it precedes `before`."""
    defs = [n for n in walk(body["body"]) if n.get("k") == "LetS" and n["pat"].get("k") == "Bind" and n["pat"]["id"] == local_id and "init" in n]
    reass = [n for n in walk(body["body"]) if n.get("k") in ("Assign", "AssignOp") and peel(n["l"]).get("k") == "Local" and peel(n["l"])["id"] == local_id]
    if len(defs) == 1 and not reass and cfg.precedes(body["body"], defs[0], before):
        return defs[0]["init"]
    return None


def classify_dt_write(F, body, n, strict=False):
    """-> (class, detail). Classes: clip, shrink, clamp, grow (strict: a path-dependent factor must be bounded away from 1, else 'weak-shrink')"""
    it = nalg.NInterp(F, body, {})
    for nm in ("time", "dt", "end", "tolerance", "dt_max", "dt_min", "order"):
        it.fields["self." + nm] = sp.Symbol(nm, positive=True)
    consts = {"one_tenth": sp.Rational(1, 10), "four": sp.Integer(4), "two": sp.Integer(2), "half": sp.Rational(1, 2)}
    for k_, v in consts.items():
        it.fields["self." + k_] = v
    dt = sp.Symbol("dt", positive=True)
    # locals: singly-defined ones (q = (tol/(2·error))^(1/order)) are expanded, the rest are unknown positive quantities
    def bind_locals(expr, depth=0):
        for x in walk(expr):
            if x.get("k") == "Local" and x["id"] not in it.env:
                d = local_def(body, x["id"], n) if depth < 1 else None
                if d is not None:
                    bind_locals(d, depth + 1)
                    try:
                        it.env[x["id"]] = it.ev(d)
                        continue
                    except sym.Unsupported:
                        pass
                it.env[x["id"]] = sp.Symbol(x["name"], positive=True)
    bind_locals(n["r"])
    try:
        r = it.ev(n["r"])
    except sym.Unsupported as u:
        return "grow", "unmodelled right-hand side (%s)" % u
    if n["k"] == "AssignOp":
        op = n["op"].replace("Assign", "")
        if op == "Mul":
            factor = r
        elif op == "Div":
            factor = 1 / r
        else:
            return "grow", "dt %s= %s" % (op, r)
        if factor.is_number and 0 < factor <= 1:
            return "shrink", "factor %s" % factor
        if factor.is_number:
            return "grow", "factor %s" % factor
        # path facts: on a rejected step the estimate exceeds the tolerance
        g = cfg.guards_of(body["body"], n)
        tol = sp.Symbol("tolerance", positive=True)
        f2 = factor
        for l in cfg.conj_lits(g):
            try:
                c = it.ev(l[1])
            except Exception:
                continue
            if isinstance(c, (sp.Le, sp.Lt)) and c.rhs == tol and l[2] is False:
                e = c.lhs
                spos = SPOS
                f2 = f2.subs(e, tol * (1 + spos)) if f2.has(e) else f2
                # the estimate usually is `c·norm(..)/dt`: substitute the whole sub-expression
        if f2.has(sp.Function("norm")):
            # replace the estimator expression by tol·(1+s) when the guard names it through a local
            pass
        try:
            if lt_one(f2):
                if strict and not strict_lt_one(f2, SPOS):
                    return "weak-shrink", "factor %s is below 1 but not bounded away from 1 (error = tolerance·(1+s), s > 0)" % sp.simplify(f2)
                return "shrink", "factor %s <= 1 on this path" % sp.simplify(f2)
        except Exception:
            pass
        return "grow?", factor
    # plain assignment
    if sym.is_zero(r - sp.Symbol("dt_max", positive=True)):
        return "clamp", "dt := dt_max"
    q = sp.simplify((sp.Symbol("end", positive=True) - sp.Symbol("time", positive=True)) / r)
    if q.is_number and q > 0 or (q == sp.Symbol("order", positive=True)) or (q == sp.Symbol("order", positive=True) - 1):
        return "clip", q
    return "grow", "dt := %s" % r


def min_form(F, body, w):
    """Is the write `w` one branch of `if X > dt_max { dt = dt_max } else { dt = X }` (dt := min(X, dt_max), the grow-then-clamp pair computed before it is stored)?
    -> "clamp" / "grow" (which branch w is) or None."""
    pm = cfg.parent_map(body["body"])
    par = None
    for a in cfg.ancestors(pm, w):
        if a.get("k") == "If":
            par = a
            break
        if a.get("k") not in ("ExprS", "Semi", "Block"):
            return None
    if par is None or "e" not in par:
        return None

    def only_write(br):
        ws = [x for x in walk(br, into_closures=False) if x.get("k") in ("Assign", "AssignOp")]
        if len(ws) != 1 or ws[0].get("k") != "Assign" or place(ws[0]["l"]) != "self.dt" or any(x.get("k") == "Ret" for x in walk(br, into_closures=False)):
            return None
        return ws[0]
    wt, we = only_write(par["t"]), only_write(par["e"])
    if wt is None or we is None or (w is not wt and w is not we):
        return None
    c = cond_sym(F, body, par["c"])
    vt, ve = cond_sym(F, body, wt["r"]), cond_sym(F, body, we["r"])
    if not isinstance(c, (sp.Gt, sp.Ge)) or vt is None or ve is None:
        return None
    try:
        if sym.is_zero(vt - sym.S("dt_max")) and sym.is_zero(c.rhs - sym.S("dt_max")) and sym.is_zero(c.lhs - ve):
            return "clamp" if w is wt else "grow"
    except Exception:
        return None
    return None


def followed_by_clamp(F, body, w):
    """Is the write `w` followed, before any return, by `if dt > dt_max { dt = dt_max }` (or dt := min(dt, dt_max))?"""
    if min_form(F, body, w) == "grow":
        return True
    pm = cfg.parent_map(body["body"])
    chain = [w] + cfg.ancestors(pm, w)
    for child, par in zip(chain[:-1], chain[1:]):
        if par.get("k") == "Block":
            seq = list(par["stmts"]) + ([par["expr"]] if par.get("expr") is not None else [])
            idx = [i for i, s in enumerate(seq) if s is child]
            if not idx:
                continue
            for s in seq[idx[0] + 1:]:
                e = s.get("e", s) if s.get("k") in ("ExprS", "Semi") else s
                if is_clamp(F, body, e):
                    return True
                if cfg.div(s, ("Ret",)) != cfg.FALSE or any(x.get("k") == "Ret" for x in walk(s, into_closures=False)):
                    return False
        if par.get("k") in ("For", "While", "Loop", "Closure"):
            return False
    return False


def is_clamp(F, body, e):
    e = peel(e)
    if e.get("k") == "If" and "e" not in e:
        c = cond_sym(F, body, e["c"])
        if isinstance(c, (sp.Gt, sp.Ge)) and sym.is_zero((c.lhs - c.rhs) - (sym.S("dt") - sym.S("dt_max"))):
            asg = [x for x in walk(e["t"]) if x.get("k") == "Assign" and place(x["l"]) == "self.dt"]
            if len(asg) == 1:
                v = cond_sym(F, body, asg[0]["r"])
                return v is not None and sym.is_zero(v - sym.S("dt_max"))
    if e.get("k") == "Assign" and place(e["l"]) == "self.dt":
        v = cond_sym(F, body, e["r"])
        return v is not None and v == sp.Min(sym.S("dt"), sym.S("dt_max"))
    return False


def write_never_grows(F, b, n):
    """(True, why) if the write to self.dt provably does not enlarge the step: a constant shrink, the clamp under `dt > dt_max`, or the clip
    `dt = (end − time)/m` under `time + m·dt >= end` with the same m."""
    cls, detail = classify_dt_write(F, b, n)
    g = cfg.guards_of(b["body"], n)
    if cls == "shrink":
        return True, "shrink (%s)" % (detail,)
    if cls == "clamp":
        okg = any(l[2] is True and isinstance(cond_sym(F, b, l[1]), (sp.Gt, sp.Ge)) and
                  sym.is_zero((cond_sym(F, b, l[1]).lhs - cond_sym(F, b, l[1]).rhs) - (sym.S("dt") - sym.S("dt_max"))) for l in cfg.conj_lits(g))
        return okg, "clamp to dt_max" + ("" if okg else " outside `dt > dt_max`")
    if cls == "clip":
        m = detail
        for l in cfg.conj_lits(g):
            c = cond_sym(F, b, l[1])
            if l[2] is True and isinstance(c, (sp.Ge, sp.Gt)) and c.rhs == sym.S("end"):
                mm = sp.simplify((c.lhs - sym.S("time")) / sym.S("dt"))
                if sp.simplify(mm - (m.subs({sp.Symbol("order", positive=True): sym.S("order")}) if hasattr(m, "subs") else m)) == 0 or str(mm).replace("self.", "") == str(m):
                    return True, "clip (end − time)/%s under time + %s·dt >= end" % (m, m)
        return False, "`dt = (end − time)/%s` is not under `time + %s·dt >= end`: it can exceed the previous dt" % (m, m)
    return False, "%s: %s" % (cls, detail)


def check_dt_writes(F, run, sname, b):
    dp = sname + "Solver::step"
    writes = [n for n in walk(b["body"], into_closures=False) if n.get("k") in ("Assign", "AssignOp") and place(n["l"]) == "self.dt"]
    run.floor("R1.3", dp, "writes to self.dt", len(writes), {"Euler": 1, "RungeKutta": 2, "Adams": 3, "BDF": 2}[sname], F.loc(b))
    for i, n in enumerate(writes):
        cls, detail = classify_dt_write(F, b, n)
        g = cfg.guards_of(b["body"], n)
        accept = any(l[2] is True and "tolerance" in pp(l[1]) and "one_tenth" not in pp(l[1]) for l in cfg.conj_lits(g) if l[0] == "lit")
        reject = any(l[2] is False and "tolerance" in pp(l[1]) and "one_tenth" not in pp(l[1]) for l in cfg.conj_lits(g) if l[0] == "lit")
        inst = "%s[%s]" % (pp(n)[:48], "accepted" if accept else ("rejected" if reject else "always"))
        if cls == "clamp":
            # dt := dt_max must be under dt > dt_max
            okg = any(l[2] is True and isinstance(cond_sym(F, b, l[1]), (sp.Gt, sp.Ge)) and
                      sym.is_zero((cond_sym(F, b, l[1]).lhs - cond_sym(F, b, l[1]).rhs) - (sym.S("dt") - sym.S("dt_max"))) for l in cfg.conj_lits(g))
            okg = okg or min_form(F, b, n) == "clamp"
            run.check(okg, "R1.3", dp, "clamp-guard:" + inst, F.loc(b, n), "`dt = dt_max` is not under `dt > dt_max`: it can enlarge the step", sample="clamp: " + pp(n))
        elif cls == "clip":
            # dt := (end-time)/m under time + m·dt >= end  ⇒ new dt <= old dt
            m = detail
            okg = False
            for l in cfg.conj_lits(g):
                c = cond_sym(F, b, l[1])
                if l[2] is True and isinstance(c, (sp.Ge, sp.Gt)):
                    mm = sp.simplify((c.lhs - sym.S("time")) / sym.S("dt")) if c.rhs == sym.S("end") else None
                    it_order = {"order": None}
                    if mm is not None and sp.simplify(mm - m.subs({sp.Symbol("order", positive=True): sym.S("order")}) if hasattr(m, "subs") else mm - m) == 0:
                        okg = True
                    elif mm is not None and str(mm).replace("self.", "") == str(m):
                        okg = True
            run.check(okg, "R1.3", dp, "clip-guard:" + inst, F.loc(b, n),
                      "`dt = (end − time)/%s` is not under the guard `time + %s·dt >= end` with the same step count: the clipped step can exceed the previous dt" % (m, m),
                      sample="clip m=%s: %s" % (m, pp(n)))
        elif cls == "shrink":
            run.ok("R1.3", inst, "shrink (%s): %s" % (detail, pp(n)))
        else:
            run.check(followed_by_clamp(F, b, n), "R1.3", dp, "grow-then-clamp:" + inst, F.loc(b, n),
                      "`%s` can enlarge the step and is not followed by the clamp `if dt > dt_max { dt = dt_max }` before the next return: "
                      "consecutive points can be further apart than the maximum step" % pp(n)[:60], sample="possibly growing write followed by the clamp: " + pp(n)[:60])


def check_initial_dt(F, run):
    for sname, (builder, impl, O) in {"RungeKutta": ("ivp::rk::RungeKutta", None, 6), "Adams": ("adams", M.ADAMS_IMPLS["AdamsCoefficients5"][0], 5),
                                      "BDF": ("bdf", M.BDF_IMPLS["BDF6Coefficients"][0], 7)}.items():
        try:
            if sname == "RungeKutta":
                t = M.rk_effective_tableau(F, M.RK_IMPLS["RKCoefficients45"][0], 6)
                fields, sb = t["fields"], t["solve"]
            else:
                sb, fields, _ = M.solver_fields(F, builder, impl, O)
        except (Missing, sym.Unsupported) as e:
            run.broken("R1.3", sname + "::solve", "initial-dt", "src/ivp", str(e))
            continue
        dt0 = sp.expand(fields["dt"])
        a, b_ = dt0.coeff(sym.S("dt_max")), dt0.coeff(sym.S("dt_min"))
        good = sym.is_zero(dt0 - a * sym.S("dt_max") - b_ * sym.S("dt_min")) and a.is_number and b_.is_number and a >= 0 and b_ >= 0 and a + b_ == 1
        run.check(good, "R1.3", sname + "::solve", "initial-dt-convex", F.loc(sb),
                  "the initial step %s is not a convex combination of dt_min and dt_max (with min <= max it must not exceed dt_max)" % dt0,
                  sample="%s: dt0 = %s" % (sname, dt0))
        for nm, want in (("dt_max", "dt_max"), ("dt_min", "dt_min"), ("end", "t_end"), ("time", "t0"), ("tolerance", "tol")):
            run.check(fields.get(nm) == sym.S(want), "R1.3", sname + "::solve", "field:" + nm, F.loc(sb),
                      "solver field %s is initialised to %s instead of the builder's %s" % (nm, fields.get(nm), want))


def check_protocol(F, run, tier):
    total_states = total_tr = 0
    for kind, impls in (("adams", M.ADAMS_IMPLS), ("bdf", M.BDF_IMPLS)):
        for name, (selfty, O) in impls.items():
            try:
                P = proto.Proto(F, kind, selfty, O)
                r = P.explore()
            except (Missing, sym.Unsupported) as e:
                run.broken("R1.4", name, "exploration", "src/ivp", "cannot explore the step() protocol: %s" % e)
                continue
            run.analysed(P.step)
            total_states += r["states"]
            total_tr += len(r["transitions"])
            where = F.loc(P.step)
            for key, (what, node, st, labels) in r["problems"].items():
                if key.startswith("R3.6"):
                    continue   # reported under C03
                rule = "R1.4-" + key.split(":")[0] if key[0] == "T" else key.split(":")[0]
                if key.startswith("unsupported") or key.startswith("state-limit") or key.startswith("ym-symbolic"):
                    run.broken("R1.4", P.name, "%s:%s" % (name, key[:40]), F.loc(P.step, node) if node else where, what)
                    continue
                via = "; ".join("%s=%s" % (c, d) for c, d in (labels or [])[-3:])
                run.fail(rule, P.name, "%s:%s" % (key.split(":", 1)[1] if ":" in key else key, name), F.loc(P.step, node) if node else where,
                         what + (" [path: %s]" % via if via else ""))
            n_ok = len(r["transitions"])
            run.obligations += n_ok
            run.discharged += n_ok
            run.rule_counts["R1.4-transitions"] = run.rule_counts.get("R1.4-transitions", 0) + n_ok
            if len(run.samples) < 40:
                ys = [t for t in r["transitions"] if t[1] == "yield"][:2]
                for (st, kind_, tag, nst, labels) in ys:
                    run.samples.append({"rule": "R1.4", "instance": name, "detail": "state %s --yield point %s--> %s" % (st, tag, nst)})
            run.floor("R1.4", P.name, "abstract states (%s)" % name, r["states"], 8, where)
    run.extra["states"] = total_states
    run.extra["transitions"] = total_tr


def run(F, run, tier):
    c06.check_iterator(F, run)
    for sname in STEPPERS:
        try:
            b = check_end_handling(F, run, sname)
            check_dt_writes(F, run, sname, b)
        except Missing as e:
            run.broken("R1.2", sname, "anchor", "src/ivp", str(e))
    check_initial_dt(F, run)
    # the gap bound is only as good as the bounds the builders hand to the steppers: the step setters (shared with C06 R6.1/R6.2) must store
    # the requested bounds, keep min <= max, and — for Euler, whose single step is derived from them — leave the step between them
    for bname in c06.BUILDERS:
        for m in ("with_maximum_dt", "with_minimum_dt"):
            try:
                c06.check_setter(F, run, bname, m)
            except Missing as e:
                run.broken("R6.1", "%s::%s" % (bname, m), "anchor", "src/ivp", str(e))
    check_protocol(F, run, tier)
    run.assumptions += ["runge_kutta(m) is abstracted as 'push the m points p+1..p+m and move m steps' (its body is verified by C03-R3.2)",
                        "all guards other than those on yield_memory / deque emptiness / time-vs-end after a clip are nondeterministic (over-approximation)",
                        "exact real arithmetic for `time += dt` (strictness of the ordering and exact arrival at the end under rounding are not decided)"]
    expl = ("The iterator protocol, the end test, the final-step clip and every write to the step size are checked structurally on the four "
            "steppers; the yield_memory protocol of Adams 3/5 and BDF 2/6 is explored exhaustively as a finite transition system over "
            "(yield_memory, history tags, saved position, last yielded point, steps-to-end) with nondeterministic numeric guards, checking "
            "that points are yielded once, in order, never dropped or overtaken, that a rejected start-up restores the saved position and "
            "that no path advances past the end time.")
    return "other", expl, None
