"""R17.4 — one iteration of the Levenberg–Marquardt drivers (`curve_fit`, `curve_fit_jac`) evaluated at concrete small shapes
(V = 2 parameters, m = 3 data points) with symbolic entries.

The model function, the Jacobian providers (checked separately: R17.3) and the linear solves are uninterpreted:
  * `f(x, &params)`              ->  f(x, p_0, p_1) applied to the *entries* of the parameter vector it is given
  * `jac_finite_differences(.., &mut params, &mut jac, h)` / `jac_analytic(..)`  ->  jac := fresh symbolic m×V matrix, the parameter value is recorded
  * `factor.solve_mut(&mut b)`   ->  b := fresh solution vector, (matrix, right-hand side, solution) recorded; success is a path decision
Every path of the loop body is explored.  What is decided is listed in `check`.
"""
import sympy as sp

from bsa import guards, nalg, paths, sym
from bsa.hir import callee, peel, place, pp, walk
from rules import c07

M_, V_ = 3, 2


def col(name, n):
    return sp.Matrix(n, 1, [sp.Symbol("%s%d" % (name, i), real=True) for i in range(n)])


def mzero(a):
    return all(sp.expand(x) == 0 for x in a)


class Factor:
    def __init__(self, m, kind):
        self.m, self.kind = sp.Matrix(m), kind


def hook_jac(interp, n):
    """jac provider: args (.., xs, &mut params, &mut jac [, h]) — assign a fresh matrix to the jac place, record the parameter value."""
    args = n["args"]
    names = [(peel(a).get("name") or pp(a)) for a in args]
    # params and jac are the two `&mut` locals among the arguments that hold matrices
    mats = []
    for a in args:
        try:
            v = interp.ev(a)
        except sym.Unsupported:
            v = None
        mats.append(v)
    pm = [(a, v) for a, v in zip(args, mats) if isinstance(v, sp.MatrixBase)]
    if len(pm) != 2:
        raise sym.Unsupported(n, "Jacobian provider call with %d matrix arguments" % len(pm))
    (pa, pv), (ja, jv) = pm
    if pv.shape[1] != 1:
        (pa, pv), (ja, jv) = (ja, jv), (pa, pv)
    k = len(interp.jac_calls)
    J = sp.Matrix(jv.shape[0], jv.shape[1], [sp.Symbol("J%d_%d%d" % (k, i, j), real=True) for i in range(jv.shape[0]) for j in range(jv.shape[1])])
    interp.jac_calls.append((sp.Matrix(pv), J, n))
    jv[:, :] = J
    return None


class LMInterp(guards.GInterp):
    def __init__(self, *a, **k):
        guards.GInterp.__init__(self, *a, **k)
        self.solves = []        # (matrix, rhs, solution, kind, ok-symbol)
        self.jac_calls = []     # (params value, jac value, node)
        self.consts = {"V": V_, "S": V_}
        for d in ("optimize::jac_finite_differences", "optimize::jac_analytic"):
            self.lazy_hooks[d] = hook_jac

    # values ------------------------------------------------------------------------------------
    def num(self, v, n):
        if isinstance(v, sp.MatrixBase):
            return v
        return guards.GInterp.num(self, v, n)

    def user_call(self, pl, args, n):
        flat = []
        for a in args:
            if isinstance(a, (sp.MatrixBase, list, tuple)):
                flat += [sp.expand(x) for x in a]
            elif isinstance(a, (sym.Opaque, sym.ClosureVal)) or a is None:
                continue
            else:
                flat.append(a)
        dims = nalg.dims_of(n.get("ty"), self.consts) if isinstance(n, dict) else None
        if dims is not None and None not in dims:
            k = len(self.calls)
            v = sp.Matrix(dims[0], dims[1], [sp.Function("%s_%d" % (pl, i))(*flat) for i in range(dims[0] * dims[1])])
        else:
            v = self.fn_atom(pl)(*flat)
        self.calls.append((pl, args, n, v))
        return v

    def binop(self, op, a, b, n):
        if isinstance(a, sp.MatrixBase) or isinstance(b, sp.MatrixBase):
            try:
                if op == "Add":
                    return sp.Matrix(a + b)
                if op == "Sub":
                    return sp.Matrix(a - b)
                if op == "Mul":
                    return sp.Matrix(a * b)
                if op == "Div" and not isinstance(b, sp.MatrixBase):
                    return sp.Matrix(a / b)
            except (sp.ShapeError, TypeError, ValueError) as e:
                raise sym.Unsupported(n, "matrix shapes in %s: %s" % (op, e))
            raise sym.Unsupported(n, "matrix op %s" % op)
        return guards.GInterp.binop(self, op, a, b, n)

    def ev_Index(self, n):
        base = self.ev(n["e"])
        if isinstance(base, sp.MatrixBase):
            idx = self.ev(n["i"])
            if isinstance(idx, tuple) and all(getattr(i, "is_Integer", False) for i in idx):
                return base[int(idx[0]), int(idx[1])]
            if getattr(idx, "is_Integer", False):
                return base[int(idx)]
            raise sym.Unsupported(n, "symbolic matrix index")
        return guards.GInterp.ev_Index(self, n)

    def assign(self, lhs, val, node):
        l = peel(lhs)
        if l.get("k") == "Index":
            base = self.ev(l["e"])
            if isinstance(base, sp.MatrixBase):
                idx = self.ev(l["i"])
                if isinstance(idx, tuple):
                    base[int(idx[0]), int(idx[1])] = val
                else:
                    base[int(idx)] = val
                return
        return guards.GInterp.assign(self, lhs, val, node)

    # calls -------------------------------------------------------------------------------------
    def listify(self, node):
        v = self.iter_values(node)
        if v is None:
            v = self.ev(node)
            if isinstance(v, sp.MatrixBase):
                v = list(v)
        if not isinstance(v, list):
            raise sym.Unsupported(node, "not a concrete sequence")
        return v

    def ev_Call(self, n):
        d = callee(n) or ""
        last = d.split("::")[-1]
        if last in ("zero", "zeros") and "ovl" not in n and (n.get("ty") or "").startswith("nalgebra::Matrix<"):
            dims = nalg.dims_of(n.get("ty"), self.consts)
            if dims is None or None in dims:
                raise sym.Unsupported(n, "zero matrix of unknown shape %s" % n.get("ty"))
            return sp.zeros(dims[0], dims[1])
        if "nalgebra" in d and "ovl" not in n:
            if last in ("from_iterator",):
                data = self.listify(n["args"][-1])
                return sp.Matrix(len(data), 1, data)
            if last in ("from_column_slice", "from_vec"):
                data = self.listify(n["args"][-1])
                return sp.Matrix(len(data), 1, data)
            if last in ("zero", "zeros"):
                dims = nalg.dims_of(n.get("ty"), self.consts)
                if dims is None or None in dims:
                    raise sym.Unsupported(n, "zero matrix of unknown shape %s" % n.get("ty"))
                return sp.zeros(dims[0], dims[1])
            if last == "identity":
                r, c = self.ev(n["args"][0]), self.ev(n["args"][1])
                return sp.eye(int(r))[:, :int(c)] if int(r) >= int(c) else sp.eye(int(c))[:int(r), :]
        return guards.GInterp.ev_Call(self, n)

    def ev_MCall(self, n):
        name = n["name"]
        # mutable views of a matrix: element references in the view's order
        if name in ("column_mut", "row_mut", "iter_mut", "as_mut_slice") and ("nalgebra" in (n.get("def") or "") or name in ("iter_mut",)):
            v = self.ev(n["recv"])
            if isinstance(v, sp.MatrixBase):
                if name == "column_mut":
                    c = int(self.ev(n["args"][0]))
                    return [sym.ElemRef(v, (r, c)) for r in range(v.shape[0])]
                if name == "row_mut":
                    r = int(self.ev(n["args"][0]))
                    return [sym.ElemRef(v, (r, c)) for c in range(v.shape[1])]
                return [sym.ElemRef(v, (r, c)) for c in range(v.shape[1]) for r in range(v.shape[0])]      # column-major
            if isinstance(v, list) and name in ("iter_mut", "as_mut_slice"):
                return [x if isinstance(x, sym.ElemRef) else sym.ElemRef(v, i) for i, x in enumerate(v)]
        if name in ("zip", "enumerate", "for_each", "take", "skip", "rev") and not ("nalgebra" in (n.get("def") or "")):
            try:
                recv = self.listify(n["recv"])
            except sym.Unsupported:
                recv = None
            if recv is not None:
                if name == "zip":
                    other = self.listify(n["args"][0])
                    return list(zip(recv, other))
                if name == "enumerate":
                    return [(sp.Integer(i), x) for i, x in enumerate(recv)]
                if name == "take":
                    return recv[:int(self.ev(n["args"][0]))]
                if name == "skip":
                    return recv[int(self.ev(n["args"][0])):]
                if name == "rev":
                    return list(reversed(recv))
                if name == "for_each":
                    fn = n["args"][0]
                    if fn.get("k") != "Closure":
                        raise sym.Unsupported(n, "for_each with a non-closure")
                    for x in recv:
                        self.apply_closure(sym.ClosureVal(fn, None), [x], n)
                    return None
        if name in ("map", "fold", "sum"):
            recv = self.listify(n["recv"])
            if name == "map":
                fn = n["args"][0]
                if fn.get("k") != "Closure":
                    raise sym.Unsupported(n, "map with a non-closure")
                return [self.apply_closure(sym.ClosureVal(fn, None), [x], n) for x in recv]
            if name == "fold":
                acc = self.ev(n["args"][0])
                for x in recv:
                    acc = self.apply_closure(sym.ClosureVal(n["args"][1], None), [acc, x], n)
                return acc
            return sum(recv, sp.Integer(0))
        if name in ("transpose", "clone", "clone_owned", "into_owned", "lu", "full_piv_lu", "qr", "row", "column", "len", "nrows", "ncols", "iter", "as_slice",
                    "solve_mut", "modulus_squared", "real", "norm_squared", "set_column", "set_row"):
            v = self.ev(n["recv"])
            if isinstance(v, sp.MatrixBase):
                if name == "transpose":
                    return sp.Matrix(v.T)
                if name in ("clone", "clone_owned", "into_owned"):
                    return sp.Matrix(v)
                if name in ("lu", "full_piv_lu", "qr"):
                    return Factor(v, name)
                if name == "row":
                    return sp.Matrix(v[int(self.ev(n["args"][0])), :])
                if name == "column":
                    return sp.Matrix(v[:, int(self.ev(n["args"][0]))])
                if name == "len":
                    return sp.Integer(v.shape[0] * v.shape[1])
                if name == "nrows":
                    return sp.Integer(v.shape[0])
                if name == "ncols":
                    return sp.Integer(v.shape[1])
                if name in ("iter", "as_slice"):
                    return list(v)
                if name == "norm_squared":
                    return sum((x ** 2 for x in v), sp.Integer(0))
            if isinstance(v, sp.MatrixBase) and name in ("set_column", "set_row"):
                i = int(self.ev(n["args"][0]))
                src = self.ev(n["args"][1])
                if not isinstance(src, sp.MatrixBase):
                    raise sym.Unsupported(n, "%s from a non-matrix" % name)
                if name == "set_column":
                    v[:, i] = sp.Matrix(src).reshape(v.shape[0], 1)
                else:
                    v[i, :] = sp.Matrix(src).reshape(1, v.shape[1])
                return None
            if isinstance(v, Factor) and name == "solve_mut":
                b = self.ev(n["args"][0])
                if not isinstance(b, sp.MatrixBase):
                    raise sym.Unsupported(n, "solve_mut on a non-matrix")
                k = len(self.solves)
                okc = sp.Symbol("solvable%d" % k)
                if self.decide(okc):
                    sol = sp.Matrix(b.shape[0], b.shape[1], [sp.Symbol("sol%d_%d" % (k, i), real=True) for i in range(b.shape[0] * b.shape[1])])
                    self.solves.append((v.m, sp.Matrix(b), sol, v.kind, True))
                    b[:, :] = sol
                    return sp.true
                self.solves.append((v.m, sp.Matrix(b), None, v.kind, False))
                return sp.false
            if isinstance(v, list) and name in ("iter", "clone", "as_slice"):
                return v
            if isinstance(v, list) and name == "len":
                return sp.Integer(len(v))
            if name == "modulus_squared" and hasattr(v, "free_symbols"):
                return v ** 2
            if name == "real" and hasattr(v, "free_symbols"):
                return v
        return guards.GInterp.ev_MCall(self, n)


def check(F, run, path, jac_provider):
    """One loop iteration of an LM driver.  State at the loop head: params p, data ys, current model values E (arbitrary), Jacobian J with
    jac_transpose = Jᵀ, damping λ, multiplier μ."""
    b = F.fn(path)
    run.analysed(b)
    st, loop = guards.first_loop(b)
    if loop is None or loop.get("k") != "While":
        run.broken("R17.4", path, "loop", F.loc(b), "no main `while` loop")
        return
    where = F.loc(b, loop)
    p = col("p", V_)
    ys = col("y", M_)
    E = col("e", M_)
    J = sp.Matrix(M_, V_, [sp.Symbol("J%d%d" % (i, j), real=True) for i in range(M_) for j in range(V_)])
    lam, mu, tol = sp.Symbol("damping", positive=True), sp.Symbol("damping_mult", positive=True), sp.Symbol("tol", positive=True)
    xs = [sp.Symbol("x%d" % i, real=True) for i in range(M_)]
    # R17.4 names roles by the instance table of the pinned tree (renamed locals get these names back through refs/locals.json); when they are not
    # all there the driver has been restructured beyond the table: one fail-closed finding instead of judging another program by old roles
    have_ = set(c07.all_binds(b))
    need_ = {"params", "evaluation", "damping", "sum_sq", "last_sum_sq", "jac", "jac_transpose"}
    if not need_ <= have_:
        run.broken("R17.4", path, "roles", F.loc(b), "the locals %s of the instance table are not present: the Levenberg–Marquardt iteration rule cannot be applied to this shape of the driver "
                   "and the instance table needs re-confirming" % sorted(need_ - have_))
        return
    S0, L0 = sp.Symbol("sum_sq", real=True), sp.Symbol("last_sum_sq", real=True)
    vals = dict(c07.constant_locals(F, b))
    vals.update({"params": lambda it: sp.Matrix(p), "ys": lambda it: sp.Matrix(ys), "evaluation": lambda it: sp.Matrix(E), "jac": lambda it: sp.Matrix(J),
                 "jac_transpose": lambda it: sp.Matrix(J.T), "damping": lam, "damping_mult": mu, "tol": tol, "xs": xs, "sum_sq": S0, "last_sum_sq": L0})
    # loop condition
    try:
        pre = paths.explore(F, b, setup=c07.preset_all(b, vals), node=loop["c"], interp_cls=LMInterp)
        cond = pre[0].result if len(pre) == 1 else None
    except sym.Unsupported as u:
        cond = None
    if cond is not None and hasattr(cond, "free_symbols"):
        odd = sorted(str(x) for x in cond.free_symbols if str(x) not in ("sum_sq", "last_sum_sq", "tol"))
        if odd:
            run.broken("R17.4", path, "roles", where, "the loop condition is over %s, not over the locals `sum_sq` / `last_sum_sq` of the instance table: the Levenberg–Marquardt iteration "
                       "rule cannot be applied to this shape of the driver and the instance table needs re-confirming" % odd)
            return
    want = sp.Abs(L0 - S0) > tol
    run.check(cond is not None and (cond == want or sp.simplify(sp.Abs(L0 - S0) - (cond.lhs - cond.rhs + tol)) == 0 and isinstance(cond, sp.StrictGreaterThan)),
              "R17.4", path, "continue-while-change>tol", where, "the loop continues while %s; expected |last_sum_sq − sum_sq| > tol" % (cond,), sample="while |Δ sum_sq| > tol")
    try:
        lps = paths.explore(F, b, setup=c07.preset_all(b, vals), node=loop["body"], interp_cls=LMInterp, limit=128)
    except sym.Unsupported as u:
        run.broken("R17.4", path, "iteration", F.loc(b, u.node if isinstance(u.node, dict) else loop), "cannot evaluate one iteration at shape (m=%d, V=%d): %s" % (M_, V_, u))
        return
    rhs_want = J.T * (ys - E)

    def damped(l):
        Mx = sp.Matrix(J.T * J)
        for i in range(V_):
            Mx[i, i] = Mx[i, i] * (1 + l)
        return Mx
    n_ok = n_err = 0
    for pth in lps:
        it = pth.interp
        env = {nm: it.env.get(i) for i, nm in it.names.items()}
        good_solves = [s for s in it.solves if s[4]]
        if guards.is_err(pth.result):
            n_err += 1
            # Err only after every solver available for one of the two systems failed
            last = it.solves[-1] if it.solves else None
            run.check(last is not None and not last[4], "R17.4", path, "err-only-if-unsolvable", where, "Err is returned although the last linear solve succeeded")
            continue
        if not pth.fell_through:
            run.fail("R17.4", path, "iteration-exit", where, "the loop body leaves with %r" % (pth.result,))
            continue
        n_ok += 1
        tag = "".join("T" if s[4] else "F" for s in it.solves)
        if len(good_solves) != 2:
            run.fail("R17.4", path, "two-trials:" + tag, where, "an iteration completes with %d successful solves, expected the two trial dampings" % len(good_solves))
            continue
        (M1, r1, s1, _, _), (M2, r2, s2, _, _) = good_solves
        # every attempted factorisation on this path is of the system it is a fallback for
        run.check(mzero(r1 - rhs_want) and mzero(r2 - rhs_want), "R17.4", path, "rhs=JT(y-f):" + tag, where,
                  "the right-hand side of the damped normal equations is %s, expected Jᵀ·(ys − evaluation)" % str(list(r1))[:120], sample="rhs = Jᵀ(y − f(p))")
        run.check(mzero(M1 - damped(lam)), "R17.4", path, "lhs=JTJ+damping·diag:" + tag, where,
                  "the first system matrix is not JᵀJ with its diagonal multiplied by (1 + damping): entry (0,0) = %s" % sp.factor(M1[0, 0]), sample="M = JᵀJ ∘ (1+λ on the diagonal)")
        run.check(mzero(M2 - damped(lam / mu)), "R17.4", path, "lhs-div=JTJ+(damping/mult)·diag:" + tag, where,
                  "the second system matrix is not JᵀJ with its diagonal multiplied by (1 + damping/damping_mult): entry (0,0) = %s" % sp.factor(M2[0, 0]))
        for s_ in it.solves:
            if not s_[4]:
                which = "first" if len([x for x in it.solves[:it.solves.index(s_)] if x[4]]) == 0 else "second"
                run.check(mzero(s_[0] - (damped(lam) if which == "first" else damped(lam / mu))), "R17.4", path, "fallback-same-system:" + tag, where,
                          "a fallback factorisation (%s) is applied to a different matrix than the failed one" % s_[3])
        P1, P2 = p + s1, p + s2
        fa = it.fn_atom("f")

        def fvec(P):
            return sp.Matrix(M_, 1, [fa(xs[i], *[sp.expand(x) for x in P]) for i in range(M_)])

        def ssq(P):
            return sum(((ys[i] - fvec(P)[i]) ** 2 for i in range(M_)), sp.Integer(0))
        newp = env.get("params")
        if not isinstance(newp, sp.MatrixBase):
            run.fail("R17.4", path, "params:" + tag, where, "params is not a vector after the iteration")
            continue
        chose_div = mzero(newp - P2)
        chose_plain = mzero(newp - P1)
        run.check(chose_div or chose_plain, "R17.4", path, "params=p+step:" + tag, where,
                  "the new parameters %s are neither p + (solution for damping) nor p + (solution for damping/mult)" % str(list(newp))[:120], sample="p' = p + δ")
        if not (chose_div or chose_plain):
            continue
        Pn, Po = (P2, P1) if chose_div else (P1, P2)
        ev2 = env.get("evaluation")
        run.check(isinstance(ev2, sp.MatrixBase) and mzero(ev2 - fvec(Pn)), "R17.4", path, "evaluation=f(xs,p'):" + tag, where,
                  "after the iteration `evaluation` is not the model at the new parameters (the next right-hand side would be computed for other parameters than it is added to)",
                  sample="evaluation = f(xs, p')")
        run.check(sp.expand(env.get("sum_sq") - ssq(Pn)) == 0, "R17.4", path, "sum_sq=|y-f(p')|^2:" + tag, where,
                  "sum_sq after the iteration is %s, expected the residual sum of squares at the new parameters" % str(env.get("sum_sq"))[:100])
        run.check(env.get("last_sum_sq") == S0, "R17.4", path, "last_sum_sq:" + tag, where, "last_sum_sq is %s, expected the previous sum_sq" % env.get("last_sum_sq"))
        # the choice between the two trials and the damping update
        cmp_lit = [l for l in pth.pc if isinstance(l, sp.core.relational.Relational) and l.has(fa)]
        want_div_better = sp.expand(ssq(P2) - ssq(P1))          # < 0 iff the damping/mult trial is better
        ok_choice = False
        if len(cmp_lit) == 1:
            l = cmp_lit[0]
            dlt = sp.expand(l.lhs - l.rhs)
            if chose_div:
                ok_choice = (isinstance(l, (sp.StrictLessThan, sp.LessThan)) and sp.expand(dlt - want_div_better) == 0) or \
                            (isinstance(l, (sp.StrictGreaterThan, sp.GreaterThan)) and sp.expand(dlt + want_div_better) == 0)
            else:
                ok_choice = (isinstance(l, (sp.StrictGreaterThan, sp.GreaterThan)) and sp.expand(dlt - want_div_better) == 0) or \
                            (isinstance(l, (sp.StrictLessThan, sp.LessThan)) and sp.expand(dlt + want_div_better) == 0)
        run.check(ok_choice, "R17.4", path, "keeps-the-better-trial:" + tag, where,
                  "the iteration keeps the %s trial under [%s]; expected: the trial with the smaller residual sum of squares" % ("damping/mult" if chose_div else "damping", pth.cond()),
                  sample="keep the trial with the smaller Σ|y − f|²")
        d2 = env.get("damping")
        run.check(sp.simplify(d2 - (lam / mu if chose_div else lam)) == 0, "R17.4", path, "damping-update:" + tag, where,
                  "damping becomes %s when the %s trial is kept; expected %s" % (d2, "damping/mult" if chose_div else "damping", "damping/mult" if chose_div else "unchanged"))
        # Jacobian refreshed at the new parameters, transpose kept in step
        jc = it.jac_calls
        run.check(len(jc) == 1 and mzero(jc[0][0] - Pn), "R17.4", path, "jacobian-at-p':" + tag, where,
                  "the Jacobian is refreshed %d time(s)%s; expected once, at the new parameters" % (len(jc), "" if not jc else " at " + str(list(jc[0][0]))[:80]))
        if jc:
            j2, jt2 = env.get("jac"), env.get("jac_transpose")
            run.check(isinstance(j2, sp.MatrixBase) and isinstance(jt2, sp.MatrixBase) and j2.shape == (M_, V_) and mzero(j2 - jc[-1][1]) and jt2.shape == (V_, M_) and mzero(jt2 - j2.T),
                      "R17.4", path, "transpose-in-step:" + tag, where, "after the iteration jac_transpose is not the transpose of the refreshed Jacobian")
    run.check(n_ok >= 2 and n_err >= 1, "R17.4", path, "path-kinds", where, "expected completing paths for both trials and at least one Err path; got %d completing, %d Err" % (n_ok, n_err))
    # before the loop: consistency of (params, evaluation) is an observation only (see DESIGN: initial_residuals works on a copy of params)


class NoHooks(LMInterp):
    """Evaluates the Jacobian providers themselves (no hook on them)."""
    def __init__(self, *a, **k):
        LMInterp.__init__(self, *a, **k)
        self.lazy_hooks.pop("optimize::jac_finite_differences", None)
        self.lazy_hooks.pop("optimize::jac_analytic", None)


def check_coverage(F, run, prop_rule, path, kind, moments=False):
    """Every entry (row, col) of the Jacobian is written, from the samples of its own row/column — by evaluating the provider at a concrete
    shape (3 data points × 2 parameters, or 2×2 for the square system Jacobian) with sentinel entries in the output matrix.
    kind: 'lm-fd' (mat[(r,c)] from f(xs[r], p ± h e_c)), 'lm-analytic' (mat[(r,c)] = jac(xs[r], p)[c]), 'roots-fd' (returned S×S matrix)."""
    b = F.fn(path)
    run.analysed(b)
    where = F.loc(b)
    p = col("p", V_)
    xs = [sp.Symbol("x%d" % i, real=True) for i in range(M_)]
    h = sp.Symbol("h", positive=True)
    Z = sp.Matrix(M_, V_, [sp.Symbol("Z%d%d" % (i, j), real=True) for i in range(M_) for j in range(V_)])
    holder = {}

    def mk(name, v):
        def f(it):
            holder[name] = sp.Matrix(v)
            return holder[name]
        return f
    if kind == "roots-fd":
        vals = {"x": mk("x", p), "h": h}
    else:
        vals = {"params": mk("params", p), "mat": mk("mat", Z), "xs": xs, "h": h}
    try:
        ps = paths.explore(F, b, setup=c07.preset_all(b, vals), interp_cls=NoHooks, limit=8)
    except sym.Unsupported as u:
        run.broken(prop_rule, path, "coverage", F.loc(b, u.node if isinstance(u.node, dict) else None), "cannot evaluate the Jacobian provider at a concrete shape: %s" % u)
        return
    if len(ps) != 1:
        run.broken(prop_rule, path, "coverage", where, "the Jacobian provider branches (%d paths)" % len(ps))
        return
    it = ps[0].interp
    if kind == "roots-fd":
        mat = ps[0].result
        pv = holder["x"]
        rows, cols = V_, V_
    else:
        mat = holder["mat"]
        pv = holder["params"]
        rows, cols = M_, V_
    if not isinstance(mat, sp.MatrixBase) or mat.shape != (rows, cols):
        run.fail(prop_rule, path, "coverage:shape", where, "the provider does not produce a %d×%d matrix" % (rows, cols))
        return
    run.check(mzero(pv - p), prop_rule, path, "coverage:point-restored", where, "the evaluation point is left at %s after the Jacobian has been formed" % list(pv))
    if moments and kind in ("lm-fd", "roots-fd"):
        # the stencil of entry (0, 0) as Σ w_k f(x + δ_k e_0): Σ w_k = 0 and Σ w_k δ_k = 1 (same obligations and keys as rules/fdjac.py)
        e00 = sp.expand(mat[0, 0])
        atoms = sorted(e00.atoms(sp.core.function.AppliedUndef), key=str)
        ws = {a: sp.simplify(e00.coeff(a)) for a in atoms}
        rest = sp.expand(e00 - sum(ws[a] * a for a in atoms))
        run.check(rest == 0 and len(atoms) >= 2, prop_rule, path, "linear", where, "entry (0,0) is not a combination of at least two function samples: %s" % e00)
        off = 1 if kind == "lm-fd" else 0
        deltas = {a: sp.expand(a.args[off] - p[0]) for a in atoms}
        s0 = sp.simplify(sum(ws.values()))
        s1 = sp.simplify(sum(ws[a] * deltas[a] for a in atoms))
        desc = " + ".join("(%s)·f(x + (%s)·e)" % (ws[a], deltas[a]) for a in atoms)
        run.check(s0 == 0, prop_rule, path, "sum-of-weights", where,
                  "finite-difference weights sum to %s, not 0: %s is not a difference quotient (the samples are added instead of subtracted?)" % (s0, desc), sample=desc)
        run.check(s1 == 1, prop_rule, path, "first-moment", where, "Σ weight·perturbation = %s, not 1: %s does not approximate the derivative" % (s1, desc))
    for r in range(rows):
        for c in range(cols):
            e = sp.expand(mat[r, c])
            written = not e.free_symbols & set(Z) and e != 0
            ok_src = written
            if written:
                for a in e.atoms(sp.Function):
                    nm = str(a.func)
                    args = list(a.args)
                    if kind in ("lm-fd", "lm-analytic"):
                        # f(x_r, p0', p1'): the sample of row r; perturbed (if at all) in component c only
                        if args[0] != xs[r]:
                            ok_src = False
                        for j, q in enumerate(args[1:]):
                            if j != c and sp.expand(q - p[j]) != 0:
                                ok_src = False
                        if kind == "lm-analytic" and not nm.endswith("_%d" % c):
                            ok_src = False
                    else:
                        # f_k(x0', x1'): component r of the vector function, perturbed in component c only
                        if not nm.endswith("_%d" % r):
                            ok_src = False
                        for j, q in enumerate(args):
                            if j != c and sp.expand(q - p[j]) != 0:
                                ok_src = False
            if written and kind == "lm-analytic":
                ats = list(e.atoms(sp.Function))
                ok_src = ok_src and len(ats) == 1 and e == ats[0]      # exactly component c of the gradient at xs[r]: no factor, no sum
            run.check(written, prop_rule, path, "coverage:entry(%d,%d)-written" % (r, c), where,
                      "entry (%d, %d) of the %d×%d Jacobian is never written (loop bounds do not cover the matrix): it keeps %s" % (r, c, rows, cols, mat[r, c]),
                      sample="entry (%d,%d) written" % (r, c))
            if written:
                run.check(ok_src, prop_rule, path, "coverage:entry(%d,%d)-own-samples" % (r, c), where,
                          "entry (%d, %d) is built from %s: not the samples of its own row / component perturbed in its own column" % (r, c, str(e)[:120]))
