"""Shared extraction for the IVP properties (C01, C02, C03, C05): coefficient impls, solve() field values,
the effective tableau of the Runge–Kutta stepper as its loops consume it, the RK4 start-up, the multistep sums.
"""
import sympy as sp
from fractions import Fraction

from bsa import cfg, nalg, sym
from bsa.hir import Missing, callee, peel, place, pp, walk

RK_IMPLS = {"RKCoefficients45": ("ivp::rk::RKCoefficients45<N>", 6), "RK23Coefficients": ("ivp::rk::RK23Coefficients<N>", 4)}
ADAMS_IMPLS = {"AdamsCoefficients5": ("ivp::adams::AdamsCoefficients5<N>", 5), "AdamsCoefficients3": ("ivp::adams::AdamsCoefficients3<N>", 3)}
BDF_IMPLS = {"BDF6Coefficients": ("ivp::bdf::BDF6Coefficients<N>", 7), "BDF2Coefficients": ("ivp::bdf::BDF2Coefficients<N>", 3)}


def impl_fn(F, selfty, trait_sub, name):
    c = [b for b in F.bodies if b["name"] == name and b.get("impl_self") == selfty and trait_sub in (b.get("impl_trait") or "")]
    if len(c) != 1:
        raise Missing("%s::%s (impl %s): %d candidates" % (selfty, name, trait_sub, len(c)))
    return c[0]


def method_of(F, self_prefix, trait_sub, name):
    c = [b for b in F.bodies if b["name"] == name and (b.get("impl_self") or "").startswith(self_prefix)
         and (trait_sub is None or trait_sub in (b.get("impl_trait") or ""))
         and (trait_sub is not None or not b.get("impl_trait"))]
    if len(c) != 1:
        raise Missing("%s::%s (%s): %d candidates" % (self_prefix, name, trait_sub, len(c)))
    return c[0]


def unwrap_some(v, what):
    if isinstance(v, sym.Variant) and v.name == "Some" and len(v.args) == 1:
        return v.args[0]
    raise Missing("%s does not evaluate to Some(..): %r" % (what, v))


def eval_coeff(F, body, consts=None):
    """Value of a coefficient function (rationals in a MatVal / scalar)."""
    it = nalg.NInterp(F, body, consts)
    try:
        v = it.ev(body["body"])
    except sym.Return as r:
        v = r.value
    return unwrap_some(v, body["path"])


def to_frac(x):
    x = sp.nsimplify(x) if not getattr(x, "is_Rational", False) else x
    if not getattr(x, "is_Rational", False):
        raise Missing("coefficient %s does not fold to a rational" % x)
    return Fraction(int(x.p), int(x.q))


def eval_solve(F, builder_prefix, trait_fn_values, consts):
    """Field values of the solver struct built by `solve()` (symbols for the user's parameters)."""
    b = method_of(F, builder_prefix + "<", "IVPSolver", "solve")
    it = nalg.NInterp(F, b, consts)
    for d, v in trait_fn_values.items():
        it.call_hooks[d] = (lambda vv: (lambda i, n, a: sym.Variant("Some", [vv])))(v)
    try:
        v = it.ev(b["body"])
    except sym.Return as r:
        v = r.value
    if not (isinstance(v, sym.Variant) and v.name == "Ok" and isinstance(v.args[0], dict) and isinstance(v.args[0].get("solver"), dict)):
        raise Missing("%s::solve does not end in Ok(IVPIterator{solver: ..}): %r" % (builder_prefix, v))
    fields = dict(v.args[0]["solver"])
    fields.pop("__struct__", None)
    return b, fields, v.args[0]


def rename_params(fields):
    """self.init_x symbols -> readable parameter names."""
    ren = {sym.S("self.init_dt_max"): sym.S("dt_max"), sym.S("self.init_dt_min"): sym.S("dt_min"),
           sym.S("self.init_time"): sym.S("t0"), sym.S("self.init_end"): sym.S("t_end"),
           sym.S("self.init_tolerance"): sym.S("tol"), sym.S("self.init_state"): sym.S("y0"), sym.S("self.init_dt"): sym.S("dt0")}
    out = {}
    for k, v in fields.items():
        if hasattr(v, "subs") and not isinstance(v, (nalg.MatVal, list)):
            try:
                v = v.subs(ren)
            except Exception:
                pass
        out[k] = v
    return out


class StepModel:
    """Interpreter positioned on a stepper method with the solver fields pre-loaded."""

    def __init__(self, F, body, fields, consts):
        self.F, self.body = F, body
        self.it = nalg.NInterp(F, body, consts)
        self.it.fresh_user_symbols = True
        for k, v in fields.items():
            self.it.fields["self." + k] = v
        # abstract dynamic state
        for nm in ("time", "dt", "end", "tolerance", "dt_max", "dt_min"):
            self.it.fields["self." + nm] = sym.S(nm)
        self.it.fields["self.state"] = sym.S("y")
        self.it.fields["self.data"] = sym.Opaque("user data")


def rk_effective_tableau(F, coeff_impl, O):
    """Effective (A, b, c, e) as RungeKuttaSolver::step consumes the coefficients of `coeff_impl`."""
    selfty = coeff_impl
    vals = {}
    raw = {}
    for fn in ("t_coefficients", "k_coefficients", "avg_coefficients", "error_coefficients"):
        body = impl_fn(F, selfty, "RungeKuttaCoefficients", fn)
        v = eval_coeff(F, body)
        vals["ivp::rk::RungeKuttaCoefficients::" + fn] = v
        raw[fn] = (body, v)
    consts = {"O": O}
    sb, fields, _ = eval_solve(F, "ivp::rk::RungeKutta", vals, consts)
    fields = rename_params(fields)
    step = method_of(F, "ivp::rk::RungeKuttaSolver<", "IVPStepper", "step")
    m = StepModel(F, step, fields, consts)
    it = m.it
    stale = [sp.Symbol("Hprev%d" % j, real=True) for j in range(O)]
    it.fields["self.half_steps"] = nalg.ColsVal(stale)
    conds = []

    def hook(interp, node, c):
        conds.append((node, c))
        s = str(c)
        # accept path: error <= tolerance; no end clipping; controller: first branch
        if "norm" in s and "tolerance" in s:
            return True
        if "end" in s:
            return False
        return False
    it.if_hook = hook
    try:
        res = it.ev(step["body"])
    except sym.Return as r:
        res = r.value
    t, dt, y = sym.S("time"), sym.S("dt"), sym.S("y")
    stages = it.user_calls
    if len(stages) != O:
        raise Missing("RungeKuttaSolver::step evaluates the derivative %d times for O=%d" % (len(stages), O))
    K = [s for s, _, _, _ in stages]
    A = [[Fraction(0)] * O for _ in range(O)]
    c = []
    uses_stale = []
    for i, (s, pl, args, node) in enumerate(stages):
        if len(args) != 2:
            raise Missing("derivative called with %d modelled arguments" % len(args))
        ti, yi = args
        ci = sp.simplify((ti - t) / dt)
        c.append(to_frac(ci))
        rest = sp.expand(yi - y)
        for j in range(O):
            a = rest.coeff(K[j])
            # stage value stored is K_j*dt
            aj = sp.simplify(a / dt)
            A[i][j] = to_frac(aj)
            rest = sp.expand(rest - a * K[j])
        for j in range(O):
            cs = rest.coeff(stale[j])
            if cs != 0:
                uses_stale.append((i, j, to_frac(cs)))
                rest = sp.expand(rest - cs * stale[j])
        if rest != 0:
            raise Missing("stage %d input has an unmodelled term %s" % (i, rest))
    # update and error
    ynew = it.fields["self.state"]
    upd = sp.expand(ynew - y)
    b = []
    for j in range(O):
        bj = upd.coeff(K[j])
        b.append(to_frac(sp.simplify(bj / dt)))
        upd = sp.expand(upd - bj * K[j])
    if upd != 0:
        raise Missing("state update has an unmodelled term %s" % upd)
    tnew = it.fields["self.time"]
    # error expression: first condition with norm
    err = None
    for node, cnd in conds:
        if "norm" in str(cnd):
            err = cnd
            break
    if err is None:
        raise Missing("no accept test on a norm found")
    norm_atoms = list(err.atoms(sp.Function("norm")))
    if len(norm_atoms) != 1:
        raise Missing("accept test is not on a single norm: %s" % err)
    inner = sp.expand(norm_atoms[0].args[0])
    e = []
    for j in range(O):
        ej = inner.coeff(K[j])
        e.append(to_frac(sp.simplify(ej / dt)))
        inner = sp.expand(inner - ej * K[j])
    if inner != 0:
        raise Missing("error combination has an unmodelled term %s" % inner)
    return {"A": A, "b": b, "c": c, "e": e, "stale": uses_stale, "accept": err, "norm": norm_atoms[0], "time_new": tnew,
            "raw": raw, "step": step, "solve": sb, "fields": fields, "result": res, "conds": conds, "stages": stages}


def tableau_from_stages(stages, y, t, dt, ynew):
    """Read (A, b, c) off a list of recorded derivative calls K_i = f(t_i, y_i) and the final update."""
    s = len(stages)
    K = [k for k, _, _, _ in stages]
    A = [[Fraction(0)] * s for _ in range(s)]
    c = []
    for i, (k, pl, args, node) in enumerate(stages):
        if len(args) != 2:
            raise Missing("derivative called with %d modelled arguments" % len(args))
        ti, yi = args
        c.append(to_frac(sp.simplify((ti - t) / dt)))
        rest = sp.expand(yi - y)
        for j in range(s):
            a = rest.coeff(K[j])
            A[i][j] = to_frac(sp.simplify(a / dt))
            rest = sp.expand(rest - a * K[j])
        if rest != 0:
            raise Missing("stage %d input has an unmodelled term %s" % (i, rest))
    upd = sp.expand(ynew - y)
    b = []
    for j in range(s):
        bj = upd.coeff(K[j])
        b.append(to_frac(sp.simplify(bj / dt)))
        upd = sp.expand(upd - bj * K[j])
    if upd != 0:
        raise Missing("state update has an unmodelled term %s" % upd)
    return A, b, c


def solver_fields(F, kind, impl_selfty, O):
    """Evaluate solve() of Adams/BDF with the given coefficient impl; returns (solve body, fields)."""
    if kind == "adams":
        trait, fns, builder = "AdamsCoefficients", ("predictor_coefficients", "corrector_coefficients", "error_coefficient"), "ivp::adams::Adams"
        tpath = "ivp::adams::AdamsCoefficients::"
    else:
        trait, fns, builder = "BDFCoefficients", ("higher_coefficients", "lower_coefficients"), "ivp::bdf::BDF"
        tpath = "ivp::bdf::BDFCoefficients::"
    vals, raw = {}, {}
    for fn in fns:
        body = impl_fn(F, impl_selfty, trait, fn)
        v = eval_coeff(F, body)
        vals[tpath + fn] = v
        raw[fn] = (body, v)
    sb, fields, _ = eval_solve(F, builder, vals, {"O": O})
    return sb, rename_params(fields), raw


def rk4_startup(F, solver_prefix, fields, O):
    """One iteration of `runge_kutta` in the lin-form domain, for i == 0 and for i != 0.

    Returns dict with the 4-stage tableau, the time advance, and the pushes made in the loop body / after it."""
    body = method_of(F, solver_prefix, None, "runge_kutta")
    # the start-up loop: the loop (of any form) inside which the user derivative is called
    def calls_user(n):
        return any(x.get("k") == "Call" and "ovl" in x for x in walk(n))
    loops = [n for n in walk(body["body"], into_closures=False) if n.get("k") in ("For", "While", "Loop") and calls_user(n["body"])]
    if len(loops) != 1:
        raise Missing("%s::runge_kutta: expected one loop that evaluates the derivative, found %d" % (solver_prefix, len(loops)))
    loop = loops[0]
    out = {"body": body, "iterations_param": body["params"][1].get("name") if len(body["params"]) > 1 else None}
    itname = out["iterations_param"]
    itsym = sym.S(itname) if itname else None
    # how the loop counts, and what its per-iteration variable is in the first / in a later iteration:
    #   for i in 0..iterations            -> i = 0 / 1
    #   while remaining > 0 (from iterations, −1 per iteration)  -> remaining = iterations / iterations − 1   (rules/caps.py)
    #   for first in once(A).chain(repeat(B)).take(iterations)   -> A / B
    ok_range = False
    first_val = later_val = None
    counter_id = None
    if loop.get("k") == "For":
        rng = peel(loop["iter"])
        if rng.get("k") == "Struct" and rng["def"].endswith("ops::Range"):
            d = {f["name"]: peel(f["e"]) for f in rng["fields"]}
            ok_range = d["start"].get("v") == "0" and d["end"].get("k") == "Local" and d["end"]["name"] == itname
            first_val, later_val = sp.Integer(0), sp.Integer(1)
        else:
            x = loop["iter"]
            chain = []
            while isinstance(x, dict) and x.get("k") == "MCall":
                chain.append(x)
                x = x["recv"]
            names = [c["name"] for c in chain]
            xo = peel(x)
            if names and names[0] == "take" and "chain" in names and xo.get("k") == "Call" and (callee(xo) or "").endswith("iter::once"):
                tk = chain[0]
                ch = [c for c in chain if c["name"] == "chain"][0]
                rp = peel(ch["args"][0])
                if rp.get("k") == "Call" and (callee(rp) or "").endswith("iter::repeat") and peel(tk["args"][0]).get("k") == "Local" and peel(tk["args"][0])["name"] == itname:
                    def lit(e):
                        e = peel(e)
                        return sp.true if e.get("v") == "true" else sp.false if e.get("v") == "false" else (sp.Integer(int(e["v"])) if e.get("lit") == "int" else None)
                    first_val, later_val = lit(xo["args"][0]), lit(rp["args"][0])
                    ok_range = first_val is not None and later_val is not None
    elif loop.get("k") == "While":
        from rules import caps
        okc, form, why = caps.bounded_by_cap(body, loop)
        c = peel(loop["c"])
        if okc and form == "down-counter":
            cnt = [x for x in (peel(c.get("l", {})), peel(c.get("r", {}))) if x.get("k") == "Local"][0]
            counter_id = cnt["id"]
            init = [x for x in walk(body["body"]) if x.get("k") == "LetS" and x["pat"].get("k") == "Bind" and x["pat"]["id"] == counter_id and "init" in x]
            ok_range = len(init) == 1 and peel(init[0]["init"]).get("k") == "Local" and peel(init[0]["init"])["name"] == itname
            first_val, later_val = itsym, itsym - 1
        elif okc and form == "up-counter":
            cnt = peel(c["l"]) if peel(c["l"]).get("k") == "Local" and peel(c["l"]).get("name") != itname else peel(c["r"])
            counter_id = cnt["id"]
            init = [x for x in walk(body["body"]) if x.get("k") == "LetS" and x["pat"].get("k") == "Bind" and x["pat"]["id"] == counter_id and "init" in x]
            ok_range = len(init) == 1 and peel(init[0]["init"]).get("v") == "0" and c.get("op") in ("Lt", "Gt")
            first_val, later_val = sp.Integer(0), sp.Integer(1)
    if first_val is None:
        raise Missing("%s::runge_kutta: the start-up loop is neither `for i in 0..iterations`, a counter loop over `iterations`, nor a first-flag iterator of length `iterations`" % solver_prefix)
    out["range_ok"] = ok_range
    from bsa.hir import pat_binds as _pb
    for first in (True, False):
        m = StepModel(F, body, fields, {"O": O})
        it = m.it
        log = []
        it.fields["self.prev_values"] = nalg.DequeVal("prev_values", [], log)
        it.fields["self.prev_derivatives"] = nalg.DequeVal("prev_derivatives", [], log)
        val = first_val if first else later_val

        def hook(interp, node, c):
            if c is sp.true or c is sp.false:
                return bool(c)
            cc = c.subs(itsym, sp.Symbol(itname, integer=True, positive=True)) if itsym is not None else c
            if cc == sp.true or cc == sp.false:
                return bool(cc)
            r_ = sp.simplify(cc)
            if r_ in (sp.true, sp.false):
                return bool(r_)
            raise sym.Unsupported(node, "unexpected branch in runge_kutta: %s" % c)
        it.if_hook = hook
        # loop-invariant lets in front of the loop (copies of dt / half, closures): evaluate what can be evaluated
        for st in cfg.preceding_statements(body["body"], loop):
            if st.get("k") == "LetS" and "init" in st:
                try:
                    it.run_stmt(st)
                except Exception:
                    pass
        def set_counter(v_):
            if loop.get("k") == "For":
                it.bind(loop["pat"], v_)
            elif counter_id is not None:
                it.env[counter_id] = v_
        if not first:
            # a later iteration: locals the body itself flips (a `first` flag consumed with mem::replace) are as the first iteration left them;
            # the solver state is put back to the symbolic (time, y) so that the stages read as one step from there
            keep = {k: it.fields.get(k) for k in ("self.state", "self.time")}
            set_counter(first_val)
            try:
                it.ev(loop["body"])
            except (sym.Break, sym.Continue):
                pass
            for k, v_ in keep.items():
                it.fields[k] = v_
            del log[:]
            del it.user_calls[:]
            it.fields["self.prev_values"] = nalg.DequeVal("prev_values", [], log)
            it.fields["self.prev_derivatives"] = nalg.DequeVal("prev_derivatives", [], log)
        set_counter(val)
        it.ev(loop["body"])
        t, dt, y = sym.S("time"), sym.S("dt"), sym.S("y")
        n_loop_calls = len(it.user_calls)
        stage_calls = [u for u in it.user_calls if not any(u[0] is x for (_, what, x, _) in log if what == "push_back")]
        pushed_syms = [x for (_, what, x, _) in log if what == "push_back"]
        stages = [u for u in it.user_calls if all(u[0] is not p for p in pushed_syms)]
        A, b, c = tableau_from_stages(stages, y, t, dt, it.fields["self.state"])
        key = "first" if first else "later"
        out[key] = {"A": A, "b": b, "c": c, "time_new": it.fields["self.time"], "log": list(log), "calls": list(it.user_calls),
                    "state_new": it.fields["self.state"]}
    # statements after the loop: the final push (time, state, f(time, state))
    m = StepModel(F, body, fields, {"O": O})
    it = m.it
    log = []
    it.fields["self.prev_values"] = nalg.DequeVal("prev_values", [], log)
    it.fields["self.prev_derivatives"] = nalg.DequeVal("prev_derivatives", [], log)
    seq = body["body"]["stmts"]
    after = False
    for s_ in seq:
        e = s_.get("e") if s_.get("k") in ("ExprS", "Semi") else None
        if e is loop:
            after = True
            continue
        if after:
            it.run_stmt(s_)
    tail = body["body"].get("expr")
    if after and tail is not None:
        # the function's tail expression (e.g. a helper that records the final point and whose Result is returned as is)
        try:
            it.ev(tail)
        except sym.Return:
            pass
    out["after"] = {"log": list(log), "calls": list(it.user_calls)}
    return out


def adams_step(F, impl_selfty, O):
    """Predictor/corrector sums of AdamsSolver::step with symbolic history (oldest first)."""
    sb, fields, raw = solver_fields(F, "adams", impl_selfty, O)
    step = method_of(F, "ivp::adams::AdamsSolver<", "IVPStepper", "step")
    m = StepModel(F, step, fields, {"O": O})
    it = m.it
    log = []
    Fh = [sym.S("F%d" % i) for i in range(O - 1)]
    Yh = [(sym.S("T%d" % i), sym.S("Y%d" % i)) for i in range(O - 1)]
    it.fields["self.prev_derivatives"] = nalg.DequeVal("prev_derivatives", Fh, log)
    it.fields["self.prev_values"] = nalg.DequeVal("prev_values", Yh, log)
    it.fields["self.yield_memory"] = sp.Integer(0)
    conds = []

    def hook(interp, node, c):
        conds.append((node, c))
        s = str(c)
        if "norm" in s and "tolerance" in s and "/10" not in s and "one_tenth" not in s:
            # accept test (error <= tol) true; growth test (error < tol/10) false
            return isinstance(c, (sp.Le, sp.Ge)) if c.has(sym.S("tolerance")) else True
        return False
    it.if_hook = hook
    try:
        res = it.ev(step["body"])
    except sym.Return as r:
        res = r.value
    return {"step": step, "solve": sb, "fields": fields, "raw": raw, "it": it, "conds": conds, "result": res, "log": log, "F": Fh, "Y": Yh}


def bdf_residuals(F, impl_selfty, O):
    """The two residual closures of BDFSolver::step as lin-forms in y, f(t,y) and the history (oldest first)."""
    sb, fields, raw = solver_fields(F, "bdf", impl_selfty, O)
    step = method_of(F, "ivp::bdf::BDFSolver<", "IVPStepper", "step")
    closures = {}
    for n in walk(step["body"], into_closures=False):
        if n.get("k") == "LetS" and n.get("init", {}).get("k") == "Closure" and n["pat"].get("k") == "Bind":
            closures[n["pat"]["name"]] = n["init"]
    # closures written in place as the argument of the inner solve (`self.secant(&mut |bdf, t, y, data| …)`), named by the local the result goes to
    pm_ = cfg.parent_map(step["body"])
    for n in walk(step["body"], into_closures=False):
        if n.get("k") == "MCall" and n.get("name") == "secant":
            for a in n.get("args", []):
                c = a
                while c.get("k") in ("Ref", "Paren", "DropTemps") and isinstance(c.get("e"), dict):
                    c = c["e"]
                if c.get("k") == "Path" and len(F.by_path.get(c.get("def") or "", [])) == 1 and len(F.by_path[c["def"]][0]["params"]) == 4:
                    c = dict(c, fn_item=F.by_path[c["def"]][0])         # a method passed by path: `self.secant(&mut Self::higher_residual)`
                if (c.get("k") == "Closure" or "fn_item" in c) and not any(c is v or (c.get("fn_item") is not None and c.get("fn_item") is v.get("fn_item")) for v in closures.values()):
                    nm = None
                    for anc in cfg.ancestors(pm_, n):
                        if anc.get("k") == "LetS" and anc.get("pat", {}).get("k") == "Bind":
                            nm = anc["pat"]["name"]
                            break
                    closures[(nm or "inline") + "@%d" % len(closures)] = c
    # which closure feeds the accepted state / the comparison
    out = {"step": step, "solve": sb, "fields": fields, "raw": raw, "closures": {}}
    for name, cl in closures.items():
        m = StepModel(F, step, fields, {"O": O})
        it = m.it
        it.fresh_user_symbols = False
        log = []
        Yh = [(sym.S("T%d" % i), sym.S("Y%d" % i)) for i in range(O)]
        it.fields["self.prev_values"] = nalg.DequeVal("prev_values", Yh, log)
        pnames = [p.get("name") for p in (cl["fn_item"]["params"] if "fn_item" in cl else cl["params"])]
        if len(pnames) != 4:
            raise Missing("residual closure %s has %d parameters" % (name, len(pnames)))
        it.root_alias[pnames[0]] = "self"
        tt, yy = sym.S("t_arg"), sym.S("y_arg")
        # immutable lets in front of the closure that it may capture (`let (higher, lower) = (self.higher_coefficients, …)`): evaluate what can be evaluated
        for st in cfg.preceding_statements(step["body"], cl):
            if st.get("k") == "LetS" and "init" in st and st["init"].get("k") != "Closure" and not any(x.get("k") == "Call" and "ovl" in x for x in walk(st["init"])) \
                    and not any(x.get("k") in ("Try", "MCall") and x.get("name") in ("secant", "runge_kutta") for x in walk(st["init"])):
                try:
                    it.run_stmt(st)
                except Exception:
                    pass
        try:
            if "fn_item" in cl:
                v = it.call_crate_fn(cl["fn_item"], [sym.S("self"), tt, yy, sym.Opaque("data")], cl)
            else:
                v = it.apply_closure(sym.ClosureVal(cl, None), [sym.S("self"), tt, yy, sym.Opaque("data")], cl)
        except sym.Return as r:
            v = r.value
        if isinstance(v, sym.Variant) and v.name == "Ok":
            v = v.args[0]
        out["closures"][name] = {"value": v, "log": log, "calls": list(it.user_calls), "node": cl, "it": it}
    out["Y"] = [sym.S("Y%d" % i) for i in range(O)]
    return out


def fd_jacobian(F, body, fields=None, consts=None, setup=None):
    """One column of a finite-difference Jacobian loop: returns dict(terms=[(coef, perturbation-dict)], final_delta, store)."""
    loops = [n for n in walk(body["body"], into_closures=False) if n.get("k") == "For"]
    return loops
