"""C12 — polynomial division is a valid Euclidean step (structure; exact arithmetic).

`divide` is evaluated abstractly for every (dividend length, divisor length) up to the bound with symbolic coefficients:
R12.1  zero divisor -> Err before any arithmetic; constant divisor -> dividend scaled by 1/c, zero remainder.
R12.2  reconstruction: dividend = quotient·divisor + remainder as an identity in the symbolic coefficients.
R12.4  trimming respects the tolerance (exact rational scenarios with a remainder coefficient just above / below a concrete tolerance).
R12.3  exit: the remainder has lower degree than the divisor; an exact multiple leaves the zero remainder; a divisor of higher
       degree than the dividend gives quotient 0 and remainder = dividend; the coefficient vectors are never empty.
R12.5  one rounded quotient digit (a relative perturbation δ of one scalar division): the defect of the reconstruction vanishes with δ.
Not decided: the ε-proportional backward-error bound itself; behaviour when the tolerance is below rounding noise.
"""
import sympy as sp

from bsa import sym, vecint
from bsa.hir import Missing, walk
from rules import polyint as PI
from rules.c11 import ref_mul, ref_add

LEVEL = "other"


def run(F, run, tier):
    dv = PI.poly_method(F, "divide")
    run.analysed(dv)
    where = F.loc(dv)
    LA, LB = (7, 4) if tier == "thorough" else (6, 3)
    dp = "Polynomial::divide"
    # zero divisor
    for la in (1, 3):
        try:
            v, _ = PI.call(F, dv, [PI.poly(PI.symbols("a", la)), PI.poly([sp.Integer(0)])])
            run.check(isinstance(v, sym.Variant) and v.name == "Err", "R12.1", dp, "zero-divisor:len=%d" % la, where, "division by the zero polynomial returns %r" % (v,),
                      sample="p / 0 = Err")
        except (sym.Unsupported, vecint.IndexPanic) as e:
            run.broken("R12.1", dp, "zero-divisor", where, str(e))
    n_cases = 0
    budget_hits = 0
    for la in range(1, LA + 1):
        for lb in range(1, LB + 1):
            for kind in ("generic", "multiple"):
                if budget_hits >= 2:
                    continue   # the abstract execution diverges: already reported, do not burn time on the remaining shapes
                a = PI.symbols("a", la)
                b = PI.symbols("b", lb)
                if kind == "multiple":
                    if lb < 2 or la < lb:
                        continue
                    q0 = PI.symbols("q", la - lb + 1)
                    a = [sp.expand(x) for x in ref_mul(q0, b)]
                inst = "%dx%d:%s" % (la, lb, kind)
                n_cases += 1
                try:
                    v, it = PI.call(F, dv, [PI.poly(a), PI.poly(b)])
                except vecint.IndexPanic as e:
                    run.fail("R12.3", dp, "panic:" + inst, where, "abstract execution panics: %s" % e.why)
                    continue
                except sym.Unsupported as u:
                    if isinstance(u, vecint.Budget):
                        budget_hits += 1
                    run.broken("R12.2", dp, inst, F.loc(dv, u.node if isinstance(u.node, dict) else None), str(u))
                    continue
                if not (isinstance(v, sym.Variant) and v.name == "Ok" and isinstance(v.args[0], tuple) and len(v.args[0]) == 2):
                    run.fail("R12.2", dp, "result:" + inst, where, "divide returns %r" % (v,))
                    continue
                q, r = PI.coeffs(v.args[0][0]), PI.coeffs(v.args[0][1])
                recon = ref_add(ref_mul(q, b), r)
                run.check(PI.same_poly(recon, a), "R12.2", dp, "reconstruction:" + inst, where,
                          "quotient·divisor + remainder = %s differs from the dividend %s" % ([str(sp.simplify(x)) for x in recon][:5], [str(x) for x in a][:5]),
                          sample="%s: a = q·d + r" % inst)
                rt = PI.trimmed([sp.simplify(x) for x in r])
                if lb == 1:
                    run.check(PI.same_poly(r, [0]), "R12.1", dp, "constant-divisor-remainder:" + inst, where, "remainder of a division by a constant is %s" % r)
                    run.check(PI.same_poly(q, [x / b[0] for x in a]), "R12.1", dp, "constant-divisor-scales:" + inst, where, "quotient is not dividend/c")
                else:
                    run.check(len(rt) < lb or (len(rt) == 1 and lb == 1), "R12.3", dp, "remainder-degree:" + inst, where,
                              "remainder has %d coefficients, divisor has %d: degree not reduced" % (len(rt), lb), sample="%s: deg r < deg d" % inst)
                if kind == "multiple":
                    run.check(PI.same_poly(r, [0]), "R12.3", dp, "exact-multiple:" + inst, where, "remainder of an exact multiple is %s" % [str(sp.simplify(x)) for x in r])
                    run.check(PI.same_poly(q, q0), "R12.3", dp, "exact-multiple-quotient:" + inst, where, "quotient of q·d by d is not q")
                if la < lb:
                    run.check(PI.same_poly(q, [0]) and PI.same_poly(r, a), "R12.3", dp, "small-dividend:" + inst, where,
                              "dividend of lower degree than the divisor: expected (0, dividend), got (%s, %s)" % (q, r))
                run.check(len(q) >= 1 and len(r) >= 1, "R12.3", dp, "non-empty:" + inst, where, "empty coefficient vector in the result")
    # complex coefficients (both parts generic; purely imaginary leading coefficients): same identities
    for la, lb, mk in ((4, 2, "complex"), (4, 3, "complex"), (3, 1, "complex"), (3, 1, "imaginary-lead"), (4, 2, "imaginary-lead"), (5, 3, "imaginary-lead"), (2, 3, "imaginary-lead")):
        if budget_hits >= 2:
            break
        a = PI.csymbols("a", la) if mk == "complex" else PI.with_imaginary_lead("a", la)
        b = PI.csymbols("b", lb) if mk == "complex" else PI.with_imaginary_lead("b", lb)
        inst = "%dx%d:%s" % (la, lb, mk)
        try:
            v, it = PI.call(F, dv, [PI.poly(a), PI.poly(b)])
        except vecint.IndexPanic as e:
            run.fail("R12.3", dp, "panic:" + inst, where, "abstract execution panics: %s" % e.why)
            continue
        except sym.Unsupported as u:
            if isinstance(u, vecint.Budget):
                budget_hits += 1
            run.broken("R12.2", dp, inst, F.loc(dv, u.node if isinstance(u.node, dict) else None), str(u))
            continue
        if not (isinstance(v, sym.Variant) and v.name == "Ok"):
            run.fail("R12.2", dp, "result:" + inst, where, "divide returns %r" % (v,))
            continue
        q, r = PI.coeffs(v.args[0][0]), PI.coeffs(v.args[0][1])
        recon = ref_add(ref_mul(q, b), r)
        run.check(PI.timed(lambda: PI.same_poly(recon, a), 60, False), "R12.2", dp, "reconstruction:" + inst, where,
                  "with %s coefficients quotient·divisor + remainder differs from the dividend" % mk, sample="%s: a = q·d + r" % inst)
        rt = PI.trimmed([sp.simplify(x) for x in r])
        if lb == 1:
            run.check(PI.same_poly(r, [0]) and PI.timed(lambda: PI.same_poly(q, [x / b[0] for x in a]), 60, False), "R12.1", dp, "constant-divisor:" + inst, where,
                      "division by a %s constant does not give (dividend/c, 0)" % mk)
        elif la >= lb:
            run.check(len(rt) < lb, "R12.3", dp, "remainder-degree:" + inst, where, "remainder has %d coefficients, divisor has %d" % (len(rt), lb))
        else:
            run.check(PI.same_poly(r, a), "R12.3", dp, "small-dividend:" + inst, where, "dividend of lower degree must come back as the remainder")
    # R12.4 the tolerance-based trimming of the running remainder drops a coefficient only when it is below the tolerance:
    # exact rational scenarios a = q·d + r whose remainder has a small leading coefficient ε, at a concrete tolerance T
    T = sp.Rational(1, 10 ** 10)
    d = [sp.Integer(3), sp.Integer(-1), sp.Integer(2)]                  # 2x² − x + 3
    q = [sp.Integer(1), sp.Rational(1, 2), sp.Integer(-4)]
    for label, eps in (("1000T", 1000 * T), ("2T", 2 * T), ("1000T·i", 1000 * T * sp.I), ("T/2", T / 2)):
        if budget_hits >= 2:
            break
        r0 = [sp.Integer(5), eps]
        a = [sp.nsimplify(x) for x in ref_add(ref_mul(q, d), r0)]
        inst = "eps=" + label
        try:
            v, it = PI.call(F, dv, [PI.poly(a, T), PI.poly(d, T)])
        except (sym.Unsupported, vecint.IndexPanic) as e:
            run.broken("R12.4", dp, inst, where, str(e))
            continue
        if not (isinstance(v, sym.Variant) and v.name == "Ok"):
            run.fail("R12.4", dp, "result:" + inst, where, "divide returns %r" % (v,))
            continue
        qq, rr = PI.coeffs(v.args[0][0]), PI.coeffs(v.args[0][1])
        recon = ref_add(ref_mul(qq, d), rr)
        n = max(len(recon), len(a))
        err = max(sp.Abs(sp.simplify((recon[i] if i < len(recon) else 0) - (a[i] if i < len(a) else 0))) for i in range(n))
        allowed = 0 if sp.Abs(eps) >= T else T
        run.check(err <= allowed, "R12.4", dp, "trimming-respects-tolerance:" + inst, where,
                  "with zero tolerance 1e-10 and a remainder coefficient of magnitude %s, dividend − (quotient·divisor + remainder) has a coefficient of magnitude %s "
                  "(allowed %s): the trimming of the running remainder drops coefficients that are not negligible" % (sp.N(sp.Abs(eps), 3), sp.N(err, 3), sp.N(allowed, 3)),
                  sample="ε = %s: reconstruction error %s" % (label, sp.N(err, 3)))
    # R12.5 one rounded quotient digit: the j-th scalar division of the run returns its exact value times (1 + δ), δ a generic positive symbol (the residue it
    # leaves at the leading power is then not negligible and the elimination loop comes back to the same power).  A backward error proportional to the rounding
    # unit means the defect dividend − (q·d + r), on the path taken with δ ≠ 0, vanishes as δ → 0; a quotient digit that is overwritten instead of corrected leaves O(1).
    delta = sp.Symbol("delta_round", positive=True)

    def rounded(j):
        class RoundDiv(vecint.VInterp):
            def ev_Bin(self, n):
                v = super().ev_Bin(n)
                if n["op"] == "Div" and self.body is dv and isinstance(v, sp.Basic) and not str(n.get("ty", "")).startswith(("u", "i")):
                    k = self.shared.get("ndiv", 0)
                    self.shared["ndiv"] = k + 1
                    if k == j:
                        return v * (1 + delta)
                return v
        return RoundDiv
    n_round = 0
    for la, lb in ((3, 2), (4, 2), (4, 3), (3, 1)) + (((5, 2), (5, 3)) if tier == "thorough" else ()):
        if budget_hits >= 2:
            break
        a, b = PI.symbols("a", la), PI.symbols("b", lb)
        for j in range(la - lb + 1):
            inst = "%dx%d:digit=%d" % (la, lb, j)
            try:
                v, it = PI.call(F, dv, [PI.poly(a), PI.poly(b)], cls=rounded(j), seconds=60)
            except vecint.IndexPanic as e:
                run.fail("R12.5", dp, "panic:" + inst, where, "abstract execution with one rounded quotient digit panics: %s" % e.why)
                continue
            except sym.Unsupported as u:
                if isinstance(u, vecint.Budget):
                    budget_hits += 1
                run.broken("R12.5", dp, inst, F.loc(dv, u.node if isinstance(u.node, dict) else None), str(u))
                continue
            if it.shared.get("ndiv", 0) <= j:
                continue            # fewer scalar divisions than digits in this shape (constant divisor: one reciprocal)
            if not (isinstance(v, sym.Variant) and v.name == "Ok" and isinstance(v.args[0], tuple) and len(v.args[0]) == 2):
                run.fail("R12.5", dp, "result:" + inst, where, "divide returns %r" % (v,))
                continue
            q, r = PI.coeffs(v.args[0][0]), PI.coeffs(v.args[0][1])
            recon = ref_add(ref_mul(q, b), r)
            m = max(len(recon), len(a))
            lim = [sp.simplify(((recon[i] if i < len(recon) else 0) - (a[i] if i < len(a) else 0)).subs(delta, 0)) for i in range(m)]
            n_round += 1
            run.check(all(x == 0 for x in lim), "R12.5", dp, "rounded-digit:" + inst, where,
                      "with quotient digit %d off by a relative δ, dividend − (quotient·divisor + remainder) tends to %s as δ → 0 instead of 0: the correction the loop makes "
                      "when it comes back to the same power is not added to the digit already stored" % (j, [str(x) for x in lim]), sample="%s: defect → 0 with δ" % inst)
    if budget_hits < 2:
        run.floor("R12.5", dp, "rounded digits", n_round, 8, where)
    if budget_hits < 2:
        run.floor("R12.2", dp, "length pairs", n_cases, 20, where)
    run.extra["length_bound"] = [LA, LB]
    run.assumptions += ["exact arithmetic; generic coefficients (a non-zero symbolic expression is not negligible); the backward-error bound is not decided"]
    expl = ("`Polynomial::divide` is evaluated abstractly (crate bodies inlined, exact arithmetic) for every dividend length <= %d and divisor length <= %d with "
            "symbolic coefficients, plus exact multiples q·d; the reconstruction identity, the degree of the remainder, the special cases and non-emptiness "
            "are checked as polynomial identities." % (LA, LB))
    return "other", expl, None
